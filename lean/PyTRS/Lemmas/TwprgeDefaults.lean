/-
C08 — missing directions come from the defaults only; the remaining documented Twp/Rge spellings; OCR look-alikes.

* Part A: backtracking rules on top of Lemmas/CanonTwprge's first-path calculus (`Leads.seq_giveback`: dead space gives a character
  back; `Eats.run_giveback`: a captured greedy run gives its last character back).
* `C08_missing_direction_filled`: `T154-R97W`, `T154N-R97`, `T154-R97` for ALL numbers of 1-3 digits and all legal defaults:
  `twprge_regex` finds nothing (`twprge_finditer_partial`), `pp_twprge_no_nswe` matches the whole text (`no_nswe_partial`) and rewrites it with
  the missing letter from the default and the written letter kept; the result is the canonical text, it is reported in `fixed`
  (flag `fixed_twprge<...>`: `C08_fixed_flag`) and find_twprge on it equals find_twprge on the written-out text.
* `C08_explicit_direction_kept`: for every valid `Spelling` no default (keyword or MasterConfig) has any influence.
* `C08_framed_same` / `C08_abbreviated_same`: `Twp. 154 N., Rge. 97 W`, `Twp 154 N, Rge 97 W`, `T154N R97W`, `T-154-N, R-97-W`.
* `C08_ocr_lookalikes`: with `ocr_scrub`, look-alikes `I l L O S s` anywhere in the numbers are read as digits; the only excluded
  numbers are a lone range `2`, whose actual (wrong) behaviour is `C08_ocr_range2_misread`.
-/
import PyTRS.Lemmas.CanonTwprge
set_option linter.unusedSimpArgs false
set_option linter.unusedVariables false
namespace PyTRS
open PyTRS.Plss PyTRS.Unpack

/-! ## Part A — backtracking over one character of dead space -/

/-- all paths of `[class]*` on one character of the class followed by a stop: take it, or give it back -/
theorem star_all_one (cs : CharSet) (c : Char) (T : List Char) (prev : Option Char) (pos : Nat) (caps : Caps)
    (hc : cs.mem c = true) (hstop : StopAt cs T) :
    (Rx.rep (.chr cs) 0 none).all ⟨prev, c :: T, pos, caps⟩ = [⟨some c, T, pos + 1, caps⟩, ⟨prev, c :: T, pos, caps⟩] := by
  have hb1 : (Rx.chr cs).all ⟨prev, c :: T, pos, caps⟩ = [⟨some c, T, pos + 1, caps⟩] := by simp [Rx.all, hc]
  have hb2 : (Rx.chr cs).all ⟨some c, T, pos + 1, caps⟩ = [] := Fails.chr cs _ hstop
  show repAll (Rx.chr cs).all 0 none ((c :: T).length + 0 + 2) 0 none ⟨prev, c :: T, pos, caps⟩ = _
  have hf : (c :: T).length + 0 + 2 = (T.length + 1) + 1 + 1 := by simp
  rw [hf, repAll]
  simp only [Nat.lt_irrefl, if_false, canMore, Bool.true_and, bne_iff_ne, ne_eq, reduceCtorEq, not_false_eq_true, if_true, hb1,
    List.flatMap_cons, List.flatMap_nil, List.append_nil]
  rw [repAll]
  simp [canMore, hb2]

/-- the greedy dead space takes a character the rest of the pattern needs: it is given back -/
theorem Leads.seq_giveback (cs : CharSet) (b : Rx) (c : Char) (T : List Char) (prev : Option Char) (pos : Nat) (caps : Caps) (s2 : St)
    (hc : cs.mem c = true) (hstop : StopAt cs T) (hfail : Fails b ⟨some c, T, pos + 1, caps⟩)
    (hb : Leads b ⟨prev, c :: T, pos, caps⟩ s2) :
    Leads (.seq (.rep (.chr cs) 0 none) b) ⟨prev, c :: T, pos, caps⟩ s2 := by
  unfold Leads at *
  unfold Fails at hfail
  simp only [Rx.all] at *
  have := star_all_one cs c T prev pos caps hc hstop
  simp only [Rx.all] at this
  rw [this]
  simp only [List.flatMap_cons, List.flatMap_nil, hfail, List.nil_append, List.append_nil]
  exact hb

theorem Eats.seq_giveback {cs : CharSet} {b : Rx} {c : Char} {seg tail : List Char} {f : Nat → Caps → Caps}
    (hc : cs.mem c = true) (hstop : StopAt cs (seg ++ tail)) (hfail : FailsOn b (seg ++ tail)) (hb : Eats b (c :: seg) tail f) :
    Eats (.seq (.rep (.chr cs) 0 none) b) (c :: seg) tail f := by
  intro prev pos caps
  exact Leads.seq_giveback cs b c (seg ++ tail) prev pos caps _ hc hstop (hfail _ _ _) (hb prev pos caps)

/-- an optional group whose body fails has exactly one path -/
theorem all_opt_of_fails {r : Rx} {s : St} (h : Fails r s) : (Rx.rep r 0 (some 1)).all s = [s] := by
  unfold Fails at h
  have hf : s.rest.length + 0 + 2 = (s.rest.length + 1) + 1 := by omega
  simp [Rx.all, hf, repAll, canMore, h]

theorem FailsOn.seq_opt {r x : Rx} {T : List Char} (hr : FailsOn r T) (hx : FailsOn x T) :
    FailsOn (.seq (.rep r 0 (some 1)) x) T := by
  intro prev pos caps
  unfold Fails
  simp only [Rx.all]
  have := all_opt_of_fails (hr prev pos caps)
  simp only [Rx.all] at this
  rw [this]
  simp only [List.flatMap_cons, List.flatMap_nil, List.append_nil]
  exact hx prev pos caps

/-! ## Part B — a compact Twp/Rge with a direction letter left out -/

/-- a direction letter that may be missing -/
def optDir (o : Option Char) : Str := match o with | none => [] | some c => [c]

/-- `"T" + twp + [ns] + "-R" + rge + [ew]`: `T154-R97W`, `T154N-R97`, `T154-R97` (and `T154N-R97W`) -/
def partialText (t : Str) (ns : Option Char) (r : Str) (ew : Option Char) : Str :=
  'T' :: (t ++ (optDir ns ++ '-' :: 'R' :: (r ++ optDir ew)))

structure PartHyp (t r : Str) (ns ew : Option Char) : Prop where
  t_dig : IsDigits t
  t_len : 1 ≤ t.length ∧ t.length ≤ 3
  ns : ns = none ∨ ns = some 'N' ∨ ns = some 'S'
  r_dig : IsDigits r
  r_len : 1 ≤ r.length ∧ r.length ≤ 3
  ew : ew = none ∨ ew = some 'E' ∨ ew = some 'W'

theorem PartHyp.tne {t r : Str} {ns ew : Option Char} (h : PartHyp t r ns ew) : t ≠ [] := by
  intro e; have := h.t_len.1; rw [e] at this; simp at this

theorem PartHyp.rne {t r : Str} {ns ew : Option Char} (h : PartHyp t r ns ew) : r ≠ [] := by
  intro e; have := h.r_len.1; rw [e] at this; simp at this

/-- the capture of an optional one-letter group -/
def optCap (i : Nat) (o : Option Char) (pos : Nat) : Caps := match o with | some _ => [(i, pos, pos + 1)] | none => []

theorem ppNS_fails_nonletter (c : Char) (T : Str) (h1 : Gen.cs_38ea6e46.mem c = false) (h2 : Gen.cs_faf00333.mem c = false) :
    FailsOn ppNS (c :: T) := by
  refine FailsOn.of_first (r := ppNS) rfl ?_
  intro x hx cs hcs
  simp only [List.head?_cons, Option.some.injEq] at hx
  subst hx
  have hcs' : cs ∈ [Gen.cs_38ea6e46, Gen.cs_faf00333] := hcs
  simp only [List.mem_cons, List.not_mem_nil, or_false] at hcs'
  rcases hcs' with rfl | rfl
  · exact h1
  · exact h2

theorem eats_optNS (ns : Option Char) (hns : ns = none ∨ ns = some 'N' ∨ ns = some 'S') (T : Str) :
    Eats (.rep ppNS 0 (some 1)) (optDir ns) ('-' :: T) (fun pos caps => optCap 4 ns pos ++ caps) := by
  rcases hns with rfl | rfl | rfl
  · exact (Eats.opt_none (ppNS_fails_nonletter '-' T (by decide) (by decide))).cast rfl (fun _ _ => rfl)
  · exact (Eats.opt_some (eats_dir 4 Gen.cs_38ea6e46 Gen.cs_69521832 Gen.cs_faf00333 Gen.cs_0c0f8a50 5 ['N'] ('-' :: T) (by decide +kernel)
      (Or.inl ⟨IsWordOf.single 'N' (by decide), Or.inr (StopAt.cons (by decide))⟩))).cast rfl (fun _ _ => rfl)
  · exact (Eats.opt_some (eats_dir 4 Gen.cs_38ea6e46 Gen.cs_69521832 Gen.cs_faf00333 Gen.cs_0c0f8a50 5 ['S'] ('-' :: T) (by decide +kernel)
      (Or.inr ⟨IsWordOf.single 'S' (by decide), Or.inr (StopAt.cons (by decide))⟩))).cast rfl (fun _ _ => rfl)

theorem eats_optEW (ew : Option Char) (hew : ew = none ∨ ew = some 'E' ∨ ew = some 'W') :
    Eats (.rep ppEW 0 (some 1)) (optDir ew) [] (fun pos caps => optCap 7 ew pos ++ caps) := by
  rcases hew with rfl | rfl | rfl
  · refine (Eats.opt_none (FailsOn.of_first (r := ppEW) rfl ?_)).cast rfl (fun _ _ => rfl)
    intro x hx; cases hx
  · exact (Eats.opt_some (eats_dir 7 Gen.cs_ae876102 Gen.cs_ae3e3c7d Gen.cs_5f20f5ed Gen.cs_68819f8e 3 ['E'] [] (by decide +kernel)
      (Or.inr ⟨IsWordOf.single 'E' (by decide), Or.inr (StopAt.nil _)⟩))).cast rfl (fun _ _ => rfl)
  · exact (Eats.opt_some (eats_dir 7 Gen.cs_ae876102 Gen.cs_ae3e3c7d Gen.cs_5f20f5ed Gen.cs_68819f8e 3 ['W'] [] (by decide +kernel)
      (Or.inl ⟨IsWordOf.single 'W' (by decide), Or.inr (StopAt.nil _)⟩))).cast rfl (fun _ _ => rfl)

theorem optDir_stop (cs : CharSet) (o : Option Char) (T : Str) (h : ∀ c, o = some c → cs.mem c = false) (hT : StopAt cs T) :
    StopAt cs (optDir o ++ T) := by
  cases o with
  | none => exact hT
  | some c => exact StopAt.cons (h c rfl)

/-- the part of `pp_twprge_no_nswe` from the dead space between Twp and Rge on -/
def nsweRest : Rx :=
  .seq ppD3 (.seq (.chr Gen.cs_ecd0074f) (.seq (.rep (.grp 5 (.rep (.chr Gen.cs_25709165) 0 (some 6))) 0 (some 1)) (.seq twD (.seq ppN6
      (.seq twD (.rep ppEW 0 (some 1)))))))

theorem eats_nsweRest (r : Str) (ew : Option Char) (hr : IsDigits r) (hrl : 1 ≤ r.length ∧ r.length ≤ 3) (hrne : r ≠ [])
    (hew : ew = none ∨ ew = some 'E' ∨ ew = some 'W') :
    Eats nsweRest ('-' :: 'R' :: (r ++ optDir ew)) []
      (fun pos caps => optCap 7 ew (pos + 2 + r.length) ++ ((6, pos + 2, pos + 2 + r.length) :: (5, pos + 2, pos + 2) :: caps)) := by
  have hnd : ∀ c, ew = some c → Gen.cs_940665b9.mem c = false := by
    intro c hc; rcases hew with rfl | rfl | rfl <;> cases hc <;> decide +kernel
  have hnd2 : ∀ c, ew = some c → Gen.cs_6862e64c.mem c = false := by
    intro c hc; rcases hew with rfl | rfl | rfl <;> cases hc <;> decide +kernel
  have c7 := Eats.run Gen.cs_f3df237d 1 none ['-'] ('R' :: (r ++ (optDir ew ++ []))) (by decide) (Or.inr (StopAt.cons (by decide))) (by simp)
    (fun _ hh => by cases hh)
  have c8 := Eats.chr Gen.cs_ecd0074f 'R' (r ++ (optDir ew ++ [])) (by decide)
  have c9 := Eats.opt_some (Eats.grp 5 (Eats.run Gen.cs_25709165 0 (some 6) [] (r ++ (optDir ew ++ [])) (fun _ hc => by cases hc)
    (Or.inr (hr.head_stop hrne _ (by decide +kernel))) (Nat.zero_le _) (fun _ hh => by cases hh; simp)))
  have c10 := eats_dead Gen.cs_6862e64c [] (r ++ (optDir ew ++ [])) (fun _ hc => by cases hc) (hr.head_stop hrne _ (by decide +kernel))
  have c11 := eats_digits 6 r (optDir ew ++ []) hr hrl.1 hrl.2 (optDir_stop _ ew [] hnd (StopAt.nil _))
  have c12 := eats_dead Gen.cs_6862e64c [] (optDir ew ++ []) (fun _ hc => by cases hc) (optDir_stop _ ew [] hnd2 (StopAt.nil _))
  have c13 := eats_optEW ew hew
  have h12 := Eats.seq' c12 c13 (by simp)
  have h11 := Eats.seq' c11 h12 (by simp)
  have h10 := Eats.seq' c10 h11 (by simp)
  have h9 := Eats.seq' c9 h10 (by simp)
  have h8 := Eats.seq' c8 h9 (by simp)
  have h7 := Eats.seq' c7 h8 (by simp)
  refine h7.cast (by simp) (fun pos caps => ?_)
  simp [Nat.add_assoc]

theorem nsweRest_fails_R (T : Str) : FailsOn nsweRest ('R' :: T) := by
  refine FailsOn.seq_l (FailsOn.of_first (r := ppD3) rfl ?_)
  intro x hx cs hcs
  simp only [List.head?_cons, Option.some.injEq] at hx
  subst hx
  have hcs' : cs ∈ [Gen.cs_f3df237d] := hcs
  simp only [List.mem_singleton] at hcs'
  subst hcs'
  decide

/-- the dead space after the township number, the optional N/S and everything after it: when N/S is missing the dash is first
    taken by the dead space `[\.\-–—,\s]*` and given back to `[\.\-–—,;\|_~\s]+` -/
theorem eats_nsweMid (r : Str) (ns ew : Option Char) (hr : IsDigits r) (hrl : 1 ≤ r.length ∧ r.length ≤ 3) (hrne : r ≠ [])
    (hns : ns = none ∨ ns = some 'N' ∨ ns = some 'S') (hew : ew = none ∨ ew = some 'E' ∨ ew = some 'W') :
    Eats (.seq twD (.seq (.rep ppNS 0 (some 1)) nsweRest)) (optDir ns ++ '-' :: 'R' :: (r ++ optDir ew)) []
      (fun pos caps => optCap 7 ew (pos + (optDir ns).length + 2 + r.length) ++
        ((6, pos + (optDir ns).length + 2, pos + (optDir ns).length + 2 + r.length) ::
         (5, pos + (optDir ns).length + 2, pos + (optDir ns).length + 2) :: (optCap 4 ns pos ++ caps))) := by
  have hR := eats_nsweRest r ew hr hrl hrne hew
  by_cases hn : ns = none
  · subst hn
    have hb := Eats.seq' (eats_optNS none (Or.inl rfl) (('R' :: (r ++ optDir ew)) ++ [])) hR (by simp)
    have hfail : FailsOn (.seq (.rep ppNS 0 (some 1)) nsweRest) (('R' :: (r ++ optDir ew)) ++ []) :=
      FailsOn.seq_opt (ppNS_fails_nonletter 'R' _ (by decide) (by decide)) (nsweRest_fails_R _)
    have := Eats.seq_giveback (cs := Gen.cs_6862e64c) (c := '-') (seg := 'R' :: (r ++ optDir ew)) (tail := []) (by decide)
      (StopAt.cons (by decide)) hfail (hb.cast (by simp [optDir]) (fun _ _ => rfl))
    refine this.cast (by simp [optDir]) (fun pos caps => ?_)
    simp [optDir, optCap]
  · have hnc : ∃ nc, ns = some nc ∧ Gen.cs_6862e64c.mem nc = false := by
      rcases hns with h | rfl | rfl
      · exact absurd h hn
      · exact ⟨'N', rfl, by decide⟩
      · exact ⟨'S', rfl, by decide⟩
    obtain ⟨nc, rfl, hncd⟩ := hnc
    have c5 := eats_dead Gen.cs_6862e64c [] (nc :: '-' :: 'R' :: (r ++ optDir ew)) (fun _ hc => by cases hc) (StopAt.cons hncd)
    have c6 := eats_optNS (some nc) hns (('R' :: (r ++ optDir ew)) ++ [])
    have h6 := Eats.seq' c6 hR (by simp)
    have h5 := Eats.seq' c5 h6 (by simp [optDir])
    refine h5.cast (by simp [optDir]) (fun pos caps => ?_)
    simp [optDir, optCap, Nat.add_assoc]

theorem no_nswe_decomp' : ∃ A, Gen.pp_twprge_no_nswe =
    .seq twG1 (.seq (.chr Gen.cs_93b62202) (.seq (.rep (.grp 2 A) 0 (some 1)) (.seq twD (.seq ppN3 (.seq twD (.seq (.rep ppNS 0 (some 1))
      nsweRest)))))) ∧
    A.nullable = false ∧ A.firstSets.all (fun cs => asciiDigits.disj cs) = true :=
  ⟨_, rfl, by decide +kernel, by decide +kernel⟩

/-- what the scrubber needs to know about the match of `pp_twprge_no_nswe` on a compact text with optional letters -/
structure PartMatch (m : Match) (t r : Str) (ns ew : Option Char) : Prop where
  start : m.start = 0
  stop : m.stop = (partialText t ns r ew).length
  twp : m.span? 3 = some (1, 1 + t.length)
  nsS : m.span? 4 = ns.map (fun _ => (1 + t.length, 2 + t.length))
  rge : m.span? 6 = some (3 + t.length + (optDir ns).length, 3 + t.length + (optDir ns).length + r.length)
  ewS : m.span? 7 = ew.map (fun _ => (3 + t.length + (optDir ns).length + r.length, 4 + t.length + (optDir ns).length + r.length))

theorem no_nswe_partial (t r : Str) (ns ew : Option Char) (h : PartHyp t r ns ew) :
    ∃ m, matchHere Gen.pp_twprge_no_nswe ⟨none, partialText t ns r ew, 0, []⟩ false = some m ∧ PartMatch m t r ns ew := by
  obtain ⟨A, hdec, hAn, hAf⟩ := no_nswe_decomp'
  have hnd : ∀ c, ns = some c → Gen.cs_940665b9.mem c = false := by
    intro c hc; rcases h.ns with rfl | rfl | rfl <;> cases hc <;> decide +kernel
  have c1 := Eats.chr Gen.cs_93b62202 'T' (t ++ (optDir ns ++ '-' :: 'R' :: (r ++ optDir ew))) (by decide)
  have c2 : Eats (.rep (.grp 2 A) 0 (some 1)) [] (t ++ (optDir ns ++ '-' :: 'R' :: (r ++ optDir ew))) _ :=
    Eats.opt_none (FailsOn.grp 2 (failsOn_digit_first A hAn hAf _ (h.t_dig.head_digit h.tne _)))
  have c3 := eats_dead Gen.cs_6862e64c [] (t ++ (optDir ns ++ '-' :: 'R' :: (r ++ optDir ew))) (fun _ hc => by cases hc)
    (h.t_dig.head_stop h.tne _ (by decide +kernel))
  have c4 := eats_digits 3 t (optDir ns ++ '-' :: 'R' :: (r ++ optDir ew)) h.t_dig h.t_len.1 h.t_len.2
    (optDir_stop _ ns _ hnd (StopAt.cons (by decide +kernel)))
  have c5 := eats_nsweMid r ns ew h.r_dig h.r_len h.rne h.ns h.ew
  have h4 := Eats.seq' c4 c5 (by simp)
  have h3 := Eats.seq' c3 h4 (by simp)
  have h2 := Eats.seq' c2 h3 (by simp)
  have h1 := Eats.seq' c1 h2 (by simp)
  have e : partialText t ns r ew = (['T'] ++ ([] ++ ([] ++ (t ++ (optDir ns ++ '-' :: 'R' :: (r ++ optDir ew)))))) ++ [] := by
    simp [partialText]
  have hG : Leads twG1 ⟨none, partialText t ns r ew, 0, []⟩ ⟨none, partialText t ns r ew, 0, [(1, 0, 0)]⟩ :=
    leads_twG1 none 'T' _ 0 [] rfl (by decide +kernel)
  have hB := h1 none 0 [(1, 0, 0)]
  rw [← e] at hB
  have hL := Leads.seq hG hB
  have hL' := Leads.congr_rx hdec hL
  refine ⟨_, matchHere_of_leads false hL' (Or.inl rfl), ?_⟩
  rcases h.ns with rfl | rfl | rfl <;> rcases h.ew with rfl | rfl | rfl <;>
    (constructor <;> simp [Match.span?, List.find?, optDir, optCap, partialText] <;> omega)

/-- the letter a default direction stands for -/
def defLetter (d : Str) : Char := match pyUpper d with | c :: _ => c | [] => 'N'

theorem legal_ns_cases {d : Str} (h : isLegal Gen.LEGAL_NS d = true) : d = ['n'] ∨ d = ['s'] ∨ d = ['N'] ∨ d = ['S'] := by
  simp only [isLegal, Gen.LEGAL_NS, List.any_cons, List.any_nil, Bool.or_false, Bool.or_eq_true, beq_iff_eq] at h
  rcases h with h | h | h | h
  · exact Or.inl h.symm
  · exact Or.inr (Or.inl h.symm)
  · exact Or.inr (Or.inr (Or.inl h.symm))
  · exact Or.inr (Or.inr (Or.inr h.symm))

theorem legal_ew_cases {d : Str} (h : isLegal Gen.LEGAL_EW d = true) : d = ['e'] ∨ d = ['w'] ∨ d = ['E'] ∨ d = ['W'] := by
  simp only [isLegal, Gen.LEGAL_EW, List.any_cons, List.any_nil, Bool.or_false, Bool.or_eq_true, beq_iff_eq] at h
  rcases h with h | h | h | h
  · exact Or.inl h.symm
  · exact Or.inr (Or.inl h.symm)
  · exact Or.inr (Or.inr (Or.inl h.symm))
  · exact Or.inr (Or.inr (Or.inr h.symm))

/-- a legal N/S default stands for `N` or `S` … -/
theorem defLetter_ns {d : Str} (h : isLegal Gen.LEGAL_NS d = true) :
    pyUpper d = [defLetter d] ∧ (defLetter d = 'N' ∨ defLetter d = 'S') := by
  rcases legal_ns_cases h with rfl | rfl | rfl | rfl <;> decide

/-- … a legal E/W default for `E` or `W` -/
theorem defLetter_ew {d : Str} (h : isLegal Gen.LEGAL_EW d = true) :
    pyUpper d = [defLetter d] ∧ (defLetter d = 'E' ∨ defLetter d = 'W') := by
  rcases legal_ew_cases h with rfl | rfl | rfl | rfl <;> decide

theorem partialText_split (t : Str) (ns : Option Char) (r : Str) (ew : Option Char) :
    partialText t ns r ew = ['T'] ++ (t ++ (optDir ns ++ (['-', 'R'] ++ (r ++ (optDir ew ++ []))))) := by
  simp [partialText]

/-- the canonical rendering of the match of a `pp_twprge_no_*` pattern on a compact text: the written letters are kept, the
    missing ones come from the defaults -/
theorem canonTR_of_partMatch (p : Pat) (hidx : p.idx? "twpnum" = some 3 ∧ p.idx? "ns" = some 4 ∧ p.idx? "rgenum" = some 6 ∧ p.idx? "ew" = some 7)
    (m : Match) (t r : Str) (ns ew : Option Char) (hm : PartMatch m t r ns ew)
    (hns : ns = none ∨ ns = some 'N' ∨ ns = some 'S') (hew : ew = none ∨ ew = some 'E' ∨ ew = some 'W')
    (dn de : Str) (h1 : isLegal Gen.LEGAL_NS dn = true) (h2 : isLegal Gen.LEGAL_EW de = true) :
    canonTR p m (partialText t ns r ew) dn de false =
      canonText (stripLeadingZerosViaInt t) (ns.getD (defLetter dn)) (stripLeadingZerosViaInt r) (ew.getD (defLetter de)) := by
  have g1 : p.group m (partialText t ns r ew) "twpnum" = some t := by
    simp only [Pat.group, hidx.1, Match.group?, hm.twp]
    congr 1
    exact slice_at _ ['T'] t _ _ _ (partialText_split t ns r ew) rfl (by simp)
  have g3 : p.group m (partialText t ns r ew) "rgenum" = some r := by
    simp only [Pat.group, hidx.2.2.1, Match.group?, hm.rge]
    congr 1
    exact slice_at _ ('T' :: (t ++ (optDir ns ++ ['-', 'R']))) r (optDir ew) _ _ (by simp [partialText]) (by simp; omega) (by simp; omega)
  have g2 : dirPart p m (partialText t ns r ew) "ns" dn = [ns.getD (defLetter dn)] := by
    rcases hns with rfl | rfl | rfl
    · simp only [dirPart, Pat.group, hidx.2.1, Match.group?, hm.nsS, Option.map_none, Option.getD_none]
      exact (defLetter_ns h1).1
    · have : p.group m (partialText t (some 'N') r ew) "ns" = some ['N'] := by
        simp only [Pat.group, hidx.2.1, Match.group?, hm.nsS, Option.map_some]
        congr 1
        exact slice_at _ ('T' :: t) ['N'] ('-' :: 'R' :: (r ++ optDir ew)) _ _ (by simp [partialText, optDir]) (by simp; omega) (by simp; omega)
      simp only [dirPart, this, Option.getD_some]
      decide
    · have : p.group m (partialText t (some 'S') r ew) "ns" = some ['S'] := by
        simp only [Pat.group, hidx.2.1, Match.group?, hm.nsS, Option.map_some]
        congr 1
        exact slice_at _ ('T' :: t) ['S'] ('-' :: 'R' :: (r ++ optDir ew)) _ _ (by simp [partialText, optDir]) (by simp; omega) (by simp; omega)
      simp only [dirPart, this, Option.getD_some]
      decide
  have g4 : dirPart p m (partialText t ns r ew) "ew" de = [ew.getD (defLetter de)] := by
    rcases hew with rfl | rfl | rfl
    · simp only [dirPart, Pat.group, hidx.2.2.2, Match.group?, hm.ewS, Option.map_none, Option.getD_none]
      exact (defLetter_ew h2).1
    · have : p.group m (partialText t ns r (some 'E')) "ew" = some ['E'] := by
        simp only [Pat.group, hidx.2.2.2, Match.group?, hm.ewS, Option.map_some]
        congr 1
        exact slice_at _ ('T' :: (t ++ (optDir ns ++ '-' :: 'R' :: r))) ['E'] [] _ _ (by simp [partialText, optDir]) (by simp; omega) (by simp; omega)
      simp only [dirPart, this, Option.getD_some]
      decide
    · have : p.group m (partialText t ns r (some 'W')) "ew" = some ['W'] := by
        simp only [Pat.group, hidx.2.2.2, Match.group?, hm.ewS, Option.map_some]
        congr 1
        exact slice_at _ ('T' :: (t ++ (optDir ns ++ '-' :: 'R' :: r))) ['W'] [] _ _ (by simp [partialText, optDir]) (by simp; omega) (by simp; omega)
      simp only [dirPart, this, Option.getD_some]
      decide
  unfold canonTR twpPart rgePart
  rw [g1, g2, g3, g4]
  simp [canonText]

/-! ### `twprge_regex` itself sees nothing when a direction letter is missing -/

theorem twprge_mustHit_ns : Gen.twprge_regex.mustHitP (fun cs => cs == Gen.cs_38ea6e46 || cs == Gen.cs_faf00333) = true := by decide +kernel
theorem twprge_mustHit_ew : Gen.twprge_regex.mustHitP (fun cs => cs == Gen.cs_ae876102 || cs == Gen.cs_5f20f5ed) = true := by decide +kernel

/-- `-`, digits, `E R T W` -/
def charsNoNS : CharSet := [(45, 45), (48, 57), (69, 69), (82, 82), (84, 84), (87, 87)]
/-- `-`, digits, `N R S T` -/
def charsNoEW : CharSet := [(45, 45), (48, 57), (78, 78), (82, 84)]

theorem partialText_chars (X : CharSet) (hX : X.mem 'T' = true ∧ X.mem '-' = true ∧ X.mem 'R' = true ∧ asciiDigits.sub X = true)
    (t r : Str) (ns ew : Option Char) (ht : IsDigits t) (hr : IsDigits r) (hns : ∀ c, ns = some c → X.mem c = true)
    (hew : ∀ c, ew = some c → X.mem c = true) : ∀ c ∈ partialText t ns r ew, X.mem c = true := by
  intro c hc
  simp only [partialText, List.mem_cons, List.mem_append] at hc
  rcases hc with rfl | h | h | rfl | rfl | h | h
  · exact hX.1
  · exact CharSet.sub_mem hX.2.2.2 (ht c h)
  · cases ns with
    | none => cases h
    | some x => simp only [optDir, List.mem_singleton] at h; subst h; exact hns _ rfl
  · exact hX.2.1
  · exact hX.2.2.1
  · exact CharSet.sub_mem hX.2.2.2 (hr c h)
  · cases ew with
    | none => cases h
    | some x => simp only [optDir, List.mem_singleton] at h; subst h; exact hew _ rfl

/-- **`twprge_regex` has no match in a compact Twp/Rge with a missing direction letter** -/
theorem twprge_finditer_partial (t r : Str) (ns ew : Option Char) (h : PartHyp t r ns ew) (hmiss : ns = none ∨ ew = none) :
    Gen.twprge_regex.finditer (partialText t ns r ew) = [] := by
  rcases hmiss with rfl | rfl
  · refine finditer_nil_of_noHit twprge_mustHit_ns _ ?_
    intro c hc cs hcs
    have hm := partialText_chars charsNoNS (by decide) t r none ew h.t_dig h.r_dig (fun _ hx => by cases hx)
      (fun x hx => by rcases h.ew with h | h | h <;> rw [h] at hx <;> cases hx <;> decide) c hc
    simp only [Bool.or_eq_true, beq_iff_eq] at hcs
    rcases hcs with rfl | rfl
    · exact CharSet.disj_mem (by decide) hm
    · exact CharSet.disj_mem (by decide) hm
  · refine finditer_nil_of_noHit twprge_mustHit_ew _ ?_
    intro c hc cs hcs
    have hm := partialText_chars charsNoEW (by decide) t r ns none h.t_dig h.r_dig
      (fun x hx => by rcases h.ns with h | h | h <;> rw [h] at hx <;> cases hx <;> decide) (fun _ hx => by cases hx) c hc
    simp only [Bool.or_eq_true, beq_iff_eq] at hcs
    rcases hcs with rfl | rfl
    · exact CharSet.disj_mem (by decide) hm
    · exact CharSet.disj_mem (by decide) hm

/-- scrubbers 3–6 on a canonical text (numbers without leading zeros) followed by one blank: the text comes back unchanged -/
theorem canon_scrub_tail4 (t r : Str) (nc ec : Char) (ht : IsDigits t) (htl : 1 ≤ t.length ∧ t.length ≤ 3)
    (hnc : nc = 'N' ∨ nc = 'S') (hr : IsDigits r) (hrl : 1 ≤ r.length ∧ r.length ≤ 3) (hec : ec = 'E' ∨ ec = 'W')
    (hst : stripLeadingZerosViaInt t = t) (hsr : stripLeadingZerosViaInt r = r)
    (ns ew : Str) (h1 : isLegal Gen.LEGAL_NS ns = true) (h2 : isLegal Gen.LEGAL_EW ew = true) :
    ["pp_twprge_no_nsr", "pp_twprge_no_ewt", "pp_twprge_pm", "pp_twprge_comma_remove"].foldlM
      (fun txt n => subScrubber n txt ns ew) (canonText t nc r ec ++ List.replicate 1 ' ') = .ok (canonText t nc r ec ++ [' ']) := by
  have s3 := pp_scrub_step "pp_twprge_no_nsr" ppNsrPat rfl (by decide) (by decide) pp_mustHitP_digit.2.1
    (fun t r nc ec ctx h => no_nsr_canon t r nc ec ctx h) t r nc ec 1 ht htl hnc hr hrl hec ns ew h1 h2
  have s4 := pp_scrub_step "pp_twprge_no_ewt" ppEwtPat rfl (by decide) (by decide) pp_mustHitP_digit.2.2
    (fun t r nc ec ctx h => no_ewt_canon t r nc ec ctx h) t r nc ec 2 ht htl hnc hr hrl hec ns ew h1 h2
  have s5 := scrub_none "pp_twprge_pm" ppPmPat rfl (canonText t nc r ec ++ List.replicate 3 ' ') ns ew h1 h2
    (finditer_nil_of_noHit pm_mustHitP _ (canon_blanks_noHit t r nc ec ht hnc hr hec 3))
  have hv : (canonSp t nc r ec).Valid (List.replicate 3 ' ' ++ []) :=
    canonSp_valid t nc r ec _ (fun c hc => (isDigit_iff_mem c).2 (ht c hc)) htl hnc (fun c hc => (isDigit_iff_mem c).2 (hr c hc)) hrl hec
      (EndsTwprge.cons _ (by decide))
  have hfi := comma_finditer (canonSp t nc r ec) (List.replicate 3 ' ') hv (by decide)
  have hv' : (canonSp t nc r ec).Valid (List.replicate 3 ' ') := by rw [List.append_nil] at hv; exact hv
  have s6 := scrub_single "pp_twprge_comma_remove" commaPat rfl (by decide) _ ns ew h1 h2 _ hfi rfl
  rw [comma_canonTR _ _ hv', canonSp_canon t nc r ec hnc hec, hst, hsr, canonSp_text] at s6
  rw [hst, hsr] at s3 s4
  simp only [List.foldlM_cons, List.foldlM_nil, s3, s4, s5, s6, bind, Except.bind, pure, Except.pure]
  simp [Spelling.commaMatch, canonSp_text]

/-! ## C08 — a missing direction is filled from the default, and reported -/

/-- the six scrubbers on a compact Twp/Rge with a missing letter: `twprge_regex` sees nothing, `pp_twprge_no_nswe` rewrites it with
    the defaults, the remaining four leave the canonical text alone -/
theorem scrub_partial (t r : Str) (ns ew : Option Char) (h : PartHyp t r ns ew) (hmiss : ns = none ∨ ew = none)
    (dn de : Str) (h1 : isLegal Gen.LEGAL_NS dn = true) (h2 : isLegal Gen.LEGAL_EW de = true) :
    (scrubberNames false).foldlM (fun txt n => subScrubber n txt dn de) (partialText t ns r ew) =
      .ok (canonText (stripLeadingZerosViaInt t) (ns.getD (defLetter dn)) (stripLeadingZerosViaInt r) (ew.getD (defLetter de)) ++ [' ']) := by
  obtain ⟨pt1, pt2, pt3⟩ := strip_props t h.t_dig h.t_len.1 h.t_len.2
  obtain ⟨pr1, pr2, pr3⟩ := strip_props r h.r_dig h.r_len.1 h.r_len.2
  have hnc : ns.getD (defLetter dn) = 'N' ∨ ns.getD (defLetter dn) = 'S' := by
    rcases h.ns with rfl | rfl | rfl
    · exact (defLetter_ns h1).2
    · exact Or.inl rfl
    · exact Or.inr rfl
  have hec : ew.getD (defLetter de) = 'E' ∨ ew.getD (defLetter de) = 'W' := by
    rcases h.ew with rfl | rfl | rfl
    · exact (defLetter_ew h2).2
    · exact Or.inl rfl
    · exact Or.inr rfl
  have s1 := scrub_none "twprge_regex" twprge rfl (partialText t ns r ew) dn de h1 h2 (twprge_finditer_partial t r ns ew h hmiss)
  obtain ⟨m, hm, hpm⟩ := no_nswe_partial t r ns ew h
  have hfi : ppNswePat.rx.finditer (partialText t ns r ew) = [m] := by
    refine finditer_single pp_mustHitP_digit.1 _ m hm (by rw [hpm.start, hpm.stop]; simp [partialText]) ?_
    intro c hc
    rw [hpm.stop, List.drop_length] at hc
    cases hc
  have s2 := scrub_single "pp_twprge_no_nswe" ppNswePat rfl (by decide) _ dn de h1 h2 m hfi hpm.start
  rw [canonTR_of_partMatch ppNswePat (by decide) m t r ns ew hpm h.ns h.ew dn de h1 h2, hpm.stop, List.drop_length, List.append_nil] at s2
  have stail := canon_scrub_tail4 _ _ _ _ pt1 pt2 hnc pr1 pr2 hec pt3 pr3 dn de h1 h2
  have hnames : scrubberNames false = "twprge_regex" :: "pp_twprge_no_nswe" ::
      ["pp_twprge_no_nsr", "pp_twprge_no_ewt", "pp_twprge_pm", "pp_twprge_comma_remove"] := rfl
  rw [hnames, List.foldlM_cons]
  simp only [s1, bind, Except.bind]
  rw [List.foldlM_cons]
  simp only [s2, bind, Except.bind]
  exact stail

/-- **C08, missing directions come from the defaults.**  For all numbers of one to three digits, a compact Twp/Rge written
    without its N/S letter (`T154-R97W`), without its E/W letter (`T154N-R97`) or without both (`T154-R97`):
    `plss_preprocess` under the default directions `defNS`/`defEW` (`None` = MasterConfig's) turns it into the canonical text in which the
    missing letter is the default's and a written letter is kept; exactly that Twp/Rge is reported as fixed (so the
    `fixed_twprge<…>` warning is raised); the whitespace loop converges; and `find_twprge` on the result is what it is on the text
    with the letters written out. -/
theorem C08_missing_direction_filled (t r : Str) (ns ew : Option Char)
    (ht : ∀ c ∈ t, c.isDigit = true) (htl : 1 ≤ t.length ∧ t.length ≤ 3) (hns : ns = none ∨ ns = some 'N' ∨ ns = some 'S')
    (hr : ∀ c ∈ r, c.isDigit = true) (hrl : 1 ≤ r.length ∧ r.length ≤ 3) (hew : ew = none ∨ ew = some 'E' ∨ ew = some 'W')
    (hmiss : ns = none ∨ ew = none)
    (mc : MC) (defNS defEW : Option Str)
    (hm1 : isLegal Gen.LEGAL_NS mc.ns = true) (hm2 : isLegal Gen.LEGAL_EW mc.ew = true)
    (h1 : isLegal Gen.LEGAL_NS (resolve defNS mc.ns) = true) (h2 : isLegal Gen.LEGAL_EW (resolve defEW mc.ew) = true) :
    ∃ res, plssPreprocess mc (partialText t ns r ew) defNS defEW false = .ok res ∧
      res.text = canonText (stripLeadingZerosViaInt t) (ns.getD (defLetter (resolve defNS mc.ns)))
        (stripLeadingZerosViaInt r) (ew.getD (defLetter (resolve defEW mc.ew))) ∧
      res.fixed = [res.text] ∧ res.diverged = false ∧
      (∀ dn de, isLegal Gen.LEGAL_NS dn = true → isLegal Gen.LEGAL_EW de = true →
        findTwprgeRaw res.text dn de = .ok [res.text] ∧
        findTwprgeRaw res.text dn de =
          findTwprgeRaw (canonText t (ns.getD (defLetter (resolve defNS mc.ns))) r (ew.getD (defLetter (resolve defEW mc.ew)))) dn de) := by
  have h : PartHyp t r ns ew := ⟨isDigits_of_isDigit ht, htl, hns, isDigits_of_isDigit hr, hrl, hew⟩
  obtain ⟨pt1, pt2, pt3⟩ := strip_props t h.t_dig h.t_len.1 h.t_len.2
  obtain ⟨pr1, pr2, pr3⟩ := strip_props r h.r_dig h.r_len.1 h.r_len.2
  generalize hnC : ns.getD (defLetter (resolve defNS mc.ns)) = nC
  generalize heC : ew.getD (defLetter (resolve defEW mc.ew)) = eC
  have hnc : nC = 'N' ∨ nC = 'S' := by
    rw [← hnC]
    rcases hns with rfl | rfl | rfl
    · exact (defLetter_ns h1).2
    · exact Or.inl rfl
    · exact Or.inr rfl
  have hec : eC = 'E' ∨ eC = 'W' := by
    rw [← heC]
    rcases hew with rfl | rfl | rfl
    · exact (defLetter_ew h2).2
    · exact Or.inl rfl
    · exact Or.inr rfl
  have ho : findTwprgeRaw (partialText t ns r ew) mc.ns mc.ew = .ok [] := by
    rw [C08_findTwprgeRaw_order _ _ _ hm1 hm2]
    have : twprge.rx.finditer (partialText t ns r ew) = [] := twprge_finditer_partial t r ns ew h hmiss
    rw [this]; rfl
  have hscrub := scrub_partial t r ns ew h hmiss _ _ h1 h2
  rw [hnC, heC] at hscrub
  have hrw := reduceWhitespace_canon_blanks _ _ nC eC pt1 hnc pr1 hec 1
  have hrec := (C08_canonical_recognised (stripLeadingZerosViaInt t) (stripLeadingZerosViaInt r) nC eC
    (fun c hc => (isDigit_iff_mem c).2 (pt1 c hc)) pt2 hnc (fun c hc => (isDigit_iff_mem c).2 (pr1 c hc)) pr2 hec).2.2.2.2.2.2
  rw [pt3, pr3] at hrec
  have hrec0 := (C08_canonical_recognised t r nC eC ht htl hnc hr hrl hec).2.2.2.2.2.2
  refine ⟨⟨canonText (stripLeadingZerosViaInt t) nC (stripLeadingZerosViaInt r) eC,
    [canonText (stripLeadingZerosViaInt t) nC (stripLeadingZerosViaInt r) eC], false⟩, ?_, rfl, rfl, rfl, ?_⟩
  · unfold plssPreprocess
    simp only [ho, hscrub]
    have e1 : ([' '] : Str) = List.replicate 1 ' ' := rfl
    rw [e1, hrw]
    simp only [hrec mc.ns mc.ew hm1 hm2]
    rfl
  · intro dn de hd1 hd2
    exact ⟨hrec dn de hd1 hd2, by rw [hrec dn de hd1 hd2, hrec0 dn de hd1 hd2]⟩

/-! ## C08 — an explicit direction is never overridden -/

/-- **an explicit direction is kept**: for every valid spelling (both direction words written), neither the keyword defaults nor
    MasterConfig's have any influence on `plss_preprocess` or on `find_twprge` -/
theorem C08_explicit_direction_kept (sp : Spelling) (hv : sp.Valid []) (mc mc' : MC) (d1 e1 d2 e2 : Option Str)
    (hm1 : isLegal Gen.LEGAL_NS mc.ns = true) (hm2 : isLegal Gen.LEGAL_EW mc.ew = true)
    (hm1' : isLegal Gen.LEGAL_NS mc'.ns = true) (hm2' : isLegal Gen.LEGAL_EW mc'.ew = true)
    (h1 : isLegal Gen.LEGAL_NS (resolve d1 mc.ns) = true) (h2 : isLegal Gen.LEGAL_EW (resolve e1 mc.ew) = true)
    (h1' : isLegal Gen.LEGAL_NS (resolve d2 mc'.ns) = true) (h2' : isLegal Gen.LEGAL_EW (resolve e2 mc'.ew) = true) :
    plssPreprocess mc sp.text d1 e1 false = plssPreprocess mc' sp.text d2 e2 false ∧
    plssPreprocess mc sp.text d1 e1 false = .ok ⟨sp.canon, [], false⟩ ∧
    findTwprgeRaw sp.text (resolve d1 mc.ns) (resolve e1 mc.ew) = findTwprgeRaw sp.text (resolve d2 mc'.ns) (resolve e2 mc'.ew) := by
  obtain ⟨res, hr, ht, hf, hd⟩ := C08_spelling_preprocess sp hv mc d1 e1 hm1 hm2 h1 h2
  obtain ⟨res', hr', ht', hf', hd'⟩ := C08_spelling_preprocess sp hv mc' d2 e2 hm1' hm2' h1' h2'
  have e : res = ⟨sp.canon, [], false⟩ := by cases res; simp only at ht hf hd; rw [ht, hf, hd]
  have e' : res' = ⟨sp.canon, [], false⟩ := by cases res'; simp only at ht' hf' hd'; rw [ht', hf', hd']
  refine ⟨by rw [hr, hr', e, e'], by rw [hr, e], ?_⟩
  have a := C08_spelling_find sp [] hv (fun _ h => by cases h) _ _ h1 h2
  have b := C08_spelling_find sp [] hv (fun _ h => by cases h) _ _ h1' h2'
  rw [List.append_nil] at a b
  rw [a, b]

/-! ## C08 — abbreviated, spaced and dashed spellings -/

/-- the fixed parts of a written Twp/Rge (word for "Township", dead space, …) are ones `twprge_regex` accepts -/
def frameOK (tw d1 d2 d3 rw d4 d5 : Str) : Bool :=
  tw.head?.any Gen.cs_93b62202.mem && tw.tail.all Gen.cs_cbadb66d.mem && decide (tw.tail.length ≤ 9) &&
  d1.all Gen.cs_6862e64c.mem && d2.all Gen.cs_6862e64c.mem && d3.all Gen.cs_f3df237d.mem && !d3.isEmpty &&
  rw.head?.any Gen.cs_ecd0074f.mem && rw.tail.all Gen.cs_25709165.mem && decide (rw.tail.length ≤ 6) &&
  d4.all Gen.cs_6862e64c.mem && d5.all Gen.cs_6862e64c.mem

theorem isWordOf_of_bool {c0 cs : CharSet} {hi : Nat} {w : Str} (h1 : w.head?.any c0.mem = true) (h2 : w.tail.all cs.mem = true)
    (h3 : w.tail.length ≤ hi) : IsWordOf c0 cs hi w := by
  cases w with
  | nil => simp at h1
  | cons c t =>
    simp only [List.head?_cons, Option.any_some] at h1
    simp only [List.tail_cons, List.all_eq_true] at h2
    exact IsWordOf.mk' c t h1 h2 h3

/-- a Twp/Rge written inside a frame: `tw d1 <twp> d2 <N|S> d3 rw d4 <rge> d5 <E|W>` -/
def framedSp (tw d1 d2 d3 rw d4 d5 : Str) (t : Str) (ns : Char) (r : Str) (ew : Char) : Spelling :=
  ⟨tw, d1, t, d2, [ns], d3, rw, d4, r, d5, [ew]⟩

theorem framedSp_valid (tw d1 d2 d3 rw d4 d5 : Str) (hf : frameOK tw d1 d2 d3 rw d4 d5 = true) (t : Str) (ns : Char) (r : Str) (ew : Char)
    (ctx : Str) (ht : ∀ c ∈ t, c.isDigit = true) (htl : 1 ≤ t.length ∧ t.length ≤ 3) (hns : ns = 'N' ∨ ns = 'S')
    (hr : ∀ c ∈ r, c.isDigit = true) (hrl : 1 ≤ r.length ∧ r.length ≤ 3) (hew : ew = 'E' ∨ ew = 'W') (hctx : EndsTwprge ctx) :
    (framedSp tw d1 d2 d3 rw d4 d5 t ns r ew).Valid ctx := by
  simp only [frameOK, Bool.and_eq_true, decide_eq_true_eq, List.all_eq_true, Bool.not_eq_true', List.isEmpty_eq_false_iff] at hf
  obtain ⟨⟨⟨⟨⟨⟨⟨⟨⟨⟨⟨f1, f2⟩, f3⟩, f4⟩, f5⟩, f6⟩, f7⟩, f8⟩, f9⟩, f10⟩, f11⟩, f12⟩ := hf
  have hd3 : ∀ X : CharSet, Gen.cs_f3df237d.disj X = true → ∀ T, StopAt X ((framedSp tw d1 d2 d3 rw d4 d5 t ns r ew).afterNS T) := by
    intro X hX T
    simp only [Spelling.afterNS, framedSp]
    cases d3 with
    | nil => exact absurd rfl f7
    | cons c u => exact StopAt.cons (CharSet.disj_mem hX (f6 c (by simp)))
  exact {
    tw := Or.inr (isWordOf_of_bool f1 (List.all_eq_true.2 f2) f3)
    d1 := f4
    t_dig := isDigits_of_isDigit ht
    t_len := htl
    d2 := f5
    ns := by
      rcases hns with rfl | rfl
      · exact Or.inl ⟨IsWordOf.single 'N' (by decide), Or.inr (hd3 _ (by decide +kernel) ctx)⟩
      · exact Or.inr ⟨IsWordOf.single 'S' (by decide), Or.inr (hd3 _ (by decide +kernel) ctx)⟩
    d3 := f6
    rw := Or.inr (isWordOf_of_bool f8 (List.all_eq_true.2 f9) f10)
    d4 := f11
    r_dig := isDigits_of_isDigit hr
    r_len := hrl
    d5 := f12
    ew := by
      rcases hew with rfl | rfl
      · exact Or.inr ⟨IsWordOf.single 'E' (by decide), Or.inr hctx.2⟩
      · exact Or.inl ⟨IsWordOf.single 'W' (by decide), Or.inr hctx.1⟩ }

theorem framedSp_canon (tw d1 d2 d3 rw d4 d5 : Str) (t : Str) (ns : Char) (r : Str) (ew : Char) (hns : ns = 'N' ∨ ns = 'S')
    (hew : ew = 'E' ∨ ew = 'W') :
    (framedSp tw d1 d2 d3 rw d4 d5 t ns r ew).canon = canonText (stripLeadingZerosViaInt t) ns (stripLeadingZerosViaInt r) ew := by
  rcases hns with rfl | rfl <;> rcases hew with rfl | rfl <;>
    simp [Spelling.canon, framedSp, canonText, pyUpper, pyUpperChar]

/-- **any framed spelling is the same as the canonical one** — for all numbers, every accepted frame: recognised from start to end,
    reported by `find_twprge` and preprocessed exactly like `T<twp><N|S>-R<rge><E|W>` -/
theorem C08_framed_same (tw d1 d2 d3 rw d4 d5 : Str) (hf : frameOK tw d1 d2 d3 rw d4 d5 = true) (t r : Str) (ns ew : Char)
    (ht : ∀ c ∈ t, c.isDigit = true) (htl : 1 ≤ t.length ∧ t.length ≤ 3) (hns : ns = 'N' ∨ ns = 'S')
    (hr : ∀ c ∈ r, c.isDigit = true) (hrl : 1 ≤ r.length ∧ r.length ≤ 3) (hew : ew = 'E' ∨ ew = 'W') :
    SameAsCanonical (framedSp tw d1 d2 d3 rw d4 d5 t ns r ew).text t ns r ew :=
  sameAsCanonical_of_spelling _ (framedSp_valid tw d1 d2 d3 rw d4 d5 hf t ns r ew [] ht htl hns hr hrl hew EndsTwprge.nil) t ns r ew
    ht htl hns hr hrl hew (framedSp_canon tw d1 d2 d3 rw d4 d5 t ns r ew hns hew)

/-- "Twp. 154 N., Rge. 97 W" -/
def abbrText (t : Str) (ns : Char) (r : Str) (ew : Char) : Str :=
  S "Twp. " ++ t ++ S " " ++ [ns] ++ S "., Rge. " ++ r ++ S " " ++ [ew]
/-- "Twp 154 N, Rge 97 W" -/
def abbrNoDotText (t : Str) (ns : Char) (r : Str) (ew : Char) : Str :=
  S "Twp " ++ t ++ S " " ++ [ns] ++ S ", Rge " ++ r ++ S " " ++ [ew]
/-- "T154N R97W" -/
def spacedText (t : Str) (ns : Char) (r : Str) (ew : Char) : Str := S "T" ++ t ++ [ns] ++ S " R" ++ r ++ [ew]
/-- "T-154-N, R-97-W" -/
def dashedText (t : Str) (ns : Char) (r : Str) (ew : Char) : Str :=
  S "T-" ++ t ++ S "-" ++ [ns] ++ S ", R-" ++ r ++ S "-" ++ [ew]

/-- **C08, abbreviated / spaced / dashed spellings**: `Twp. 154 N., Rge. 97 W`, `Twp 154 N, Rge 97 W`, `T154N R97W`, `T-154-N, R-97-W`
    are the same as the canonical spelling, for all numbers (including range 2) -/
theorem C08_abbreviated_same (t r : Str) (ns ew : Char)
    (ht : ∀ c ∈ t, c.isDigit = true) (htl : 1 ≤ t.length ∧ t.length ≤ 3) (hns : ns = 'N' ∨ ns = 'S')
    (hr : ∀ c ∈ r, c.isDigit = true) (hrl : 1 ≤ r.length ∧ r.length ≤ 3) (hew : ew = 'E' ∨ ew = 'W') :
    SameAsCanonical (abbrText t ns r ew) t ns r ew ∧ SameAsCanonical (abbrNoDotText t ns r ew) t ns r ew ∧
    SameAsCanonical (spacedText t ns r ew) t ns r ew ∧ SameAsCanonical (dashedText t ns r ew) t ns r ew := by
  have a := C08_framed_same (S "Twp") (S ". ") (S " ") (S "., ") (S "Rge") (S ". ") (S " ") (by decide +kernel) t r ns ew ht htl hns hr hrl hew
  have b := C08_framed_same (S "Twp") (S " ") (S " ") (S ", ") (S "Rge") (S " ") (S " ") (by decide +kernel) t r ns ew ht htl hns hr hrl hew
  have c := C08_framed_same (S "T") [] [] (S " ") (S "R") [] [] (by decide +kernel) t r ns ew ht htl hns hr hrl hew
  have d := C08_framed_same (S "T") (S "-") (S "-") (S ", ") (S "R") (S "-") (S "-") (by decide +kernel) t r ns ew ht htl hns hr hrl hew
  refine ⟨?_, ?_, ?_, ?_⟩
  · have e : (framedSp (S "Twp") (S ". ") (S " ") (S "., ") (S "Rge") (S ". ") (S " ") t ns r ew).text = abbrText t ns r ew := by
      simp [Spelling.text, framedSp, abbrText, S]
    rwa [e] at a
  · have e : (framedSp (S "Twp") (S " ") (S " ") (S ", ") (S "Rge") (S " ") (S " ") t ns r ew).text = abbrNoDotText t ns r ew := by
      simp [Spelling.text, framedSp, abbrNoDotText, S]
    rwa [e] at b
  · have e : (framedSp (S "T") [] [] (S " ") (S "R") [] [] t ns r ew).text = spacedText t ns r ew := by
      simp [Spelling.text, framedSp, spacedText, S]
    rwa [e] at c
  · have e : (framedSp (S "T") (S "-") (S "-") (S ", ") (S "R") (S "-") (S "-") t ns r ew).text = dashedText t ns r ew := by
      simp [Spelling.text, framedSp, dashedText, S]
    rwa [e] at d

/-! ## C08 — OCR look-alikes in the numbers (`ocr_scrub=True`) -/

/-- the decimal digits and the look-alike letters of `OCR_REPLACEMENTS`: `I L O S l s` -/
def ocrChars : CharSet := [(48, 57), (73, 73), (76, 76), (79, 79), (83, 83), (108, 108), (115, 115)]
/-- the same without `2` -/
def ocrNot2 : CharSet := [(48, 49), (51, 57), (73, 73), (76, 76), (79, 79), (83, 83), (108, 108), (115, 115)]

/-- a number as OCR may have garbled it -/
def IsOcr (l : Str) : Prop := ∀ c ∈ l, ocrChars.mem c = true
instance (l : Str) : Decidable (IsOcr l) := inferInstanceAs (Decidable (∀ c ∈ l, ocrChars.mem c = true))

theorem ocr_cases (c : Char) (h : ocrChars.mem c = true) : c = '2' ∨ ocrNot2.mem c = true := by
  simp only [ocrChars, ocrNot2, CharSet.mem, List.any_cons, List.any_nil, Bool.or_false, Bool.and_eq_true,
    decide_eq_true_eq, Bool.or_eq_true] at h ⊢
  by_cases h2 : c.toNat = 50
  · left
    have : c = Char.ofNat c.toNat := (Char.ofNat_toNat c).symm
    rw [this, h2]
  · right; omega

theorem head_stop_of {X cs : CharSet} {l : Str} (hl : ∀ c ∈ l, X.mem c = true) (hne : l ≠ []) (tail : Str)
    (hd : X.disj cs = true) : StopAt cs (l ++ tail) := by
  cases l with
  | nil => exact absurd rfl hne
  | cons c t => exact StopAt.cons (CharSet.disj_mem hd (hl c (by simp)))

theorem ocr_decomp : ∃ A, Gen.pp_twprge_ocr_scrub =
    .seq twG1 (.seq (.chr Gen.cs_93b62202) (.seq (.rep (.grp 2 A) 0 (some 1)) (.seq twD (.seq (.grp 3 (.rep (.chr Gen.cs_687e3c3f) 1 (some 3))) (.seq twD (.seq ppNS
      (.seq twD3 (.seq (.rep (.grp 5 (.seq (.chr Gen.cs_ecd0074f) (.rep (.chr Gen.cs_25709165) 0 (some 6)))) 0 (some 1)) (.seq twD
      (.seq (.grp 6 (.alt (.rep (.chr Gen.cs_687e3c3f) 2 (some 3)) (.chr Gen.cs_6bd6344c))) (.seq twD ppEW))))))))))) ∧
    A.mustHitP (fun cs => cs == Gen.cs_ae876102 || cs == Gen.cs_d4a22649) = true ∧ A.chrSets.all (fun cs => !cs.mem '-') = true :=
  ⟨_, rfl, by decide +kernel, by decide +kernel⟩

/-- a pattern that needs a `w` or an `h` and cannot cross a dash fails before `pre ++ "-" …` when `pre` has neither -/
theorem failsOn_needs_wh (A : Rx) (hm : A.mustHitP (fun cs => cs == Gen.cs_ae876102 || cs == Gen.cs_d4a22649) = true)
    (hc : A.chrSets.all (fun cs => !cs.mem '-') = true) (pre rest : Str)
    (hpre : ∀ c ∈ pre, Gen.cs_ae876102.mem c = false ∧ Gen.cs_d4a22649.mem c = false) : FailsOn A (pre ++ '-' :: rest) := by
  intro prev pos caps
  unfold Fails
  rw [List.eq_nil_iff_forall_not_mem]
  intro s' hs'
  obtain ⟨seg, e, c1, m1, _, _⟩ := Rx.all_foot _ A _ s' hs'
  simp only [List.all_eq_true, Bool.not_eq_true'] at hc
  have hQ : ∀ a ∈ seg, (∃ cs ∈ A.chrSets, cs.mem a = true) := c1
  have hd : ¬ (∃ cs ∈ A.chrSets, cs.mem '-' = true) := by
    rintro ⟨cs, hcs, hmem⟩
    rw [hc cs hcs] at hmem
    cases hmem
  obtain ⟨mid, e1, _⟩ := prefix_of_avoid seg s'.rest pre '-' rest e.symm hQ hd
  obtain ⟨c, hcseg, cs, hP, hmem⟩ := m1 hm
  have hcp : c ∈ pre := by rw [e1]; exact List.mem_append_left _ hcseg
  have := hpre c hcp
  simp only [Bool.or_eq_true, beq_iff_eq] at hP
  rcases hP with rfl | rfl
  · rw [this.1] at hmem; cases hmem
  · rw [this.2] at hmem; cases hmem

/-- the OCR range group `[0-9SOIl\]\|]{2,3}|[013-9SOIl\]\|]` on one to three OCR digits other than a lone `2` -/
theorem eats_ocrR (r tail : Str) (hd : IsOcr r) (h1 : 1 ≤ r.length) (h3 : r.length ≤ 3) (h2 : r ≠ ['2'])
    (hstop : StopAt Gen.cs_687e3c3f tail) :
    Eats (.grp 6 (.alt (.rep (.chr Gen.cs_687e3c3f) 2 (some 3)) (.chr Gen.cs_6bd6344c))) r tail
      (fun pos caps => (6, pos, pos + r.length) :: caps) := by
  by_cases hlen : r.length = 1
  · cases r with
    | nil => simp at hlen
    | cons c t =>
      cases t with
      | cons _ _ => simp at hlen
      | nil =>
        have hc := hd c (by simp)
        rcases ocr_cases c hc with rfl | hn2
        · exact absurd rfl h2
        · exact Eats.grp 6 (Eats.alt_r (failsOn_rep2 Gen.cs_687e3c3f (some 3) c tail (CharSet.sub_mem (by decide +kernel) hc) hstop)
            (Eats.chr Gen.cs_6bd6344c c tail (CharSet.sub_mem (by decide +kernel) hn2)))
  · exact Eats.grp 6 (Eats.alt_l (Eats.run Gen.cs_687e3c3f 2 (some 3) r tail (fun c hc => CharSet.sub_mem (by decide +kernel) (hd c hc))
      (Or.inr hstop) (by omega) (fun h hh => by cases hh; exact h3)))


/-! ### giving back the last character of a greedy run -/

theorem repAll_chr_stop (cs : CharSet) (lo : Nat) (hi : Option Nat) (tail : List Char) (fuel count : Nat) (last : Option Nat)
    (prev : Option Char) (pos : Nat) (caps : Caps) (hstop : hi = some count ∨ StopAt cs tail) (hlo : lo ≤ count) :
    repAll (Rx.chr cs).all lo hi (fuel + 1) count last ⟨prev, tail, pos, caps⟩ = [⟨prev, tail, pos, caps⟩] := by
  have h1 : ¬ count < lo := by omega
  rw [repAll]
  simp only [h1, if_false]
  rcases hstop with h | h
  · simp [h, canMore]
  · have hb : (Rx.chr cs).all ⟨prev, tail, pos, caps⟩ = [] := Fails.chr cs _ h
    split
    · simp [hb]
    · rfl

/-- the two highest-priority paths of `[class]{lo,hi}` on a run: the whole run, and the run without its last character -/
theorem repAll_chr_run2 (cs : CharSet) (lo : Nat) (hi : Option Nat) (c0 : Char) (hc0 : cs.mem c0 = true) :
    ∀ (run tail : List Char) (fuel count : Nat) (last : Option Nat) (prev : Option Char) (pos : Nat) (caps : Caps),
      (∀ c ∈ run, cs.mem c = true) →
      (hi = some (count + run.length + 1) ∨ StopAt cs tail) →
      lo ≤ count + run.length → (∀ h, hi = some h → count + run.length + 1 ≤ h) → run.length + 1 < fuel →
      (∀ l, last = some l → l < pos) →
      ∃ rest, repAll (Rx.chr cs).all lo hi fuel count last ⟨prev, run ++ c0 :: tail, pos, caps⟩ =
        ⟨some c0, tail, pos + run.length + 1, caps⟩ :: ⟨lastOr prev run, c0 :: tail, pos + run.length, caps⟩ :: rest := by
  intro run
  induction run with
  | nil =>
    intro tail fuel count last prev pos caps _ hstop hlo hhi hfuel hlast
    obtain ⟨f, rfl⟩ : ∃ f, fuel = f + 1 + 1 := ⟨fuel - 2, by simp only [List.length_nil] at hfuel; omega⟩
    simp only [List.length_nil, Nat.add_zero] at hstop hlo hhi
    have h1 : ¬ count < lo := by omega
    have hcm : canMore hi count = true := by
      cases hi with
      | none => rfl
      | some h => have := hhi h rfl; simp only [canMore, decide_eq_true_eq]; omega
    have hl : (last != some pos) = true := by
      cases last with
      | none => rfl
      | some l => have := hlast l rfl; simp only [bne_iff_ne, ne_eq, Option.some.injEq]; omega
    have hb : (Rx.chr cs).all ⟨prev, c0 :: tail, pos, caps⟩ = [⟨some c0, tail, pos + 1, caps⟩] := by simp [Rx.all, hc0]
    rw [repAll]
    simp only [h1, if_false, hcm, hl, Bool.and_self, if_true, hb, List.flatMap_cons, List.flatMap_nil, List.append_nil, List.nil_append,
      lastOr, List.length_nil, Nat.add_zero]
    rw [repAll_chr_stop cs lo hi tail f (count + 1) (some pos) (some c0) (pos + 1) caps hstop (by omega)]
    exact ⟨[], rfl⟩
  | cons c run ih =>
    intro tail fuel count last prev pos caps hall hstop hlo hhi hfuel hlast
    obtain ⟨f, rfl⟩ : ∃ f, fuel = f + 1 := ⟨fuel - 1, by omega⟩
    have hc : cs.mem c = true := hall c (by simp)
    have hb : (Rx.chr cs).all ⟨prev, (c :: run) ++ c0 :: tail, pos, caps⟩ = [⟨some c, run ++ c0 :: tail, pos + 1, caps⟩] := by
      simp [Rx.all, hc]
    have hlen : count + (c :: run).length = (count + 1) + run.length := by simp only [List.length_cons]; omega
    have hpos : pos + (c :: run).length = (pos + 1) + run.length := by simp only [List.length_cons]; omega
    rw [hlen] at hstop hlo hhi
    rw [hpos]
    rw [repAll]
    by_cases h1 : count < lo
    · simp only [h1, if_true, hb, List.flatMap_cons, List.flatMap_nil, List.append_nil]
      exact ih tail f (count + 1) last (some c) (pos + 1) caps (fun x hx => hall x (by simp [hx])) hstop hlo hhi
        (by simp only [List.length_cons] at hfuel; omega) (fun l hl => by have := hlast l hl; omega)
    · have hcm : canMore hi count = true := by
        cases hi with
        | none => rfl
        | some h => have := hhi h rfl; simp only [canMore, decide_eq_true_eq]; omega
      have hl : (last != some pos) = true := by
        cases last with
        | none => rfl
        | some l => have := hlast l rfl; simp only [bne_iff_ne, ne_eq, Option.some.injEq]; omega
      simp only [h1, if_false, hcm, hl, Bool.and_self, if_true, hb, List.flatMap_cons, List.flatMap_nil, List.append_nil]
      obtain ⟨rest, hrest⟩ := ih tail f (count + 1) (some pos) (some c) (pos + 1) caps (fun x hx => hall x (by simp [hx])) hstop hlo hhi
        (by simp only [List.length_cons] at hfuel; omega) (fun l hl => by cases hl; omega)
      rw [hrest]
      exact ⟨rest ++ [⟨prev, c :: run ++ c0 :: tail, pos, caps⟩], rfl⟩

/-- a captured greedy run whose last character the rest of the pattern needs: the run gives it back -/
theorem Eats.run_giveback (i : Nat) (cs : CharSet) (lo : Nat) (hi : Option Nat) (run : Str) (c0 : Char) (segB tail : Str) (b : Rx)
    (fB : Nat → Caps → Caps) (hall : ∀ c ∈ run, cs.mem c = true) (hc0 : cs.mem c0 = true)
    (hstop : hi = some (run.length + 1) ∨ StopAt cs (segB ++ tail)) (hlo : lo ≤ run.length) (hhi : ∀ h, hi = some h → run.length + 1 ≤ h)
    (hfail : FailsOn b (segB ++ tail)) (hb : Eats b (c0 :: segB) tail fB) :
    Eats (.seq (.grp i (.rep (.chr cs) lo hi)) b) (run ++ c0 :: segB) tail
      (fun pos caps => fB (pos + run.length) ((i, pos, pos + run.length) :: caps)) := by
  intro prev pos caps
  obtain ⟨rest, hrest⟩ := repAll_chr_run2 cs lo hi c0 hc0 run (segB ++ tail) ((run ++ c0 :: (segB ++ tail)).length + lo + 2) 0 none prev pos caps
    hall (by simpa using hstop) (by simpa using hlo) (by simpa using hhi) (by simp only [List.length_append, List.length_cons]; omega)
    (fun l hl => by cases hl)
  have hf := hfail (some c0) (pos + run.length + 1) ((i, pos, pos + run.length + 1) :: caps)
  unfold Fails at hf
  obtain ⟨tl, htl⟩ := (hb (lastOr prev run) (pos + run.length) ((i, pos, pos + run.length) :: caps)).cons
  have e : (run ++ c0 :: segB) ++ tail = run ++ c0 :: (segB ++ tail) := by simp
  unfold Leads
  have hall_eq : (Rx.seq (.grp i (.rep (.chr cs) lo hi)) b).all ⟨prev, run ++ c0 :: (segB ++ tail), pos, caps⟩ =
      ((repAll (Rx.chr cs).all lo hi ((run ++ c0 :: (segB ++ tail)).length + lo + 2) 0 none ⟨prev, run ++ c0 :: (segB ++ tail), pos, caps⟩).map
        (fun s' => { s' with caps := (i, pos, s'.pos) :: s'.caps })).flatMap b.all := rfl
  have e2 : (c0 :: segB) ++ tail = c0 :: (segB ++ tail) := rfl
  rw [e2] at htl
  rw [e, hall_eq, hrest]
  simp only [List.map_cons, List.flatMap_cons, hf, List.nil_append, htl]
  simp only [List.cons_append, List.head?_cons, lastOr_append, lastOr, List.length_append, List.length_cons]
  congr 2
  omega

/-- after `…S` has been taken for part of the number, the rest `-R…` cannot start with the required N/S -/
theorem failsOn_D_NS (Y : Rx) (T : Str) : FailsOn (.seq twD (.seq ppNS Y)) ('-' :: 'R' :: T) := by
  intro prev pos caps
  apply Fails.seq_all
  intro s1 hs1
  have := star_all_one Gen.cs_6862e64c '-' ('R' :: T) prev pos caps (by decide) (StopAt.cons (by decide))
  unfold twD at hs1
  rw [this] at hs1
  simp only [List.mem_cons, List.not_mem_nil, or_false] at hs1
  rcases hs1 with rfl | rfl
  · exact Fails.seq_l (ppNS_fails_nonletter 'R' T (by decide) (by decide) _ _ _)
  · exact Fails.seq_l (ppNS_fails_nonletter '-' _ (by decide) (by decide) _ _ _)

/-- the hypotheses of the OCR theorem -/
structure OcrHyp (t r : Str) (nc ec : Char) : Prop where
  t_ocr : IsOcr t
  t_len : 1 ≤ t.length ∧ t.length ≤ 3
  nc : nc = 'N' ∨ nc = 'S'
  r_ocr : IsOcr r
  r_len : 1 ≤ r.length ∧ r.length ≤ 3
  r2 : r ≠ ['2']
  ec : ec = 'E' ∨ ec = 'W'

theorem OcrHyp.tne {t r : Str} {nc ec : Char} (h : OcrHyp t r nc ec) : t ≠ [] := by
  intro e; have := h.t_len.1; rw [e] at this; simp at this

theorem OcrHyp.rne {t r : Str} {nc ec : Char} (h : OcrHyp t r nc ec) : r ≠ [] := by
  intro e; have := h.r_len.1; rw [e] at this; simp at this

theorem ocr_match (t r : Str) (nc ec : Char) (h : OcrHyp t r nc ec) :
    ∃ m, matchHere Gen.pp_twprge_ocr_scrub ⟨none, canonText t nc r ec, 0, []⟩ false = some m ∧ CanonMatch m t r := by
  obtain ⟨A, hdec, hAm, hAc⟩ := ocr_decomp
  have hnc' : nc = 'N' ∨ nc = 'S' := h.nc
  have hncf : Gen.cs_6862e64c.mem nc = false ∧ Gen.cs_ae876102.mem nc = false ∧ Gen.cs_d4a22649.mem nc = false := by
    rcases hnc' with rfl | rfl <;> decide +kernel
  have hecf : Gen.cs_687e3c3f.mem ec = false ∧ Gen.cs_6862e64c.mem ec = false := by
    rcases h.ec with rfl | rfl <;> decide +kernel
  have c1 := Eats.chr Gen.cs_93b62202 'T' (t ++ (nc :: '-' :: 'R' :: (r ++ [ec]))) (by decide)
  have c2 : Eats (.rep (.grp 2 A) 0 (some 1)) [] (t ++ (nc :: '-' :: 'R' :: (r ++ [ec]))) (fun _ caps => caps) := by
    refine Eats.opt_none (FailsOn.grp 2 ?_)
    have := failsOn_needs_wh A hAm hAc (t ++ [nc]) ('R' :: (r ++ [ec])) (by
      intro c hc
      rcases List.mem_append.1 hc with hc | hc
      · exact ⟨CharSet.disj_mem (by decide +kernel) (h.t_ocr c hc), CharSet.disj_mem (by decide +kernel) (h.t_ocr c hc)⟩
      · simp only [List.mem_singleton] at hc; subst hc; exact ⟨hncf.2.1, hncf.2.2⟩)
    simpa using this
  have c3 := eats_dead Gen.cs_6862e64c [] (t ++ (nc :: '-' :: 'R' :: (r ++ [ec]))) (fun _ hc => by cases hc)
    (head_stop_of h.t_ocr h.tne _ (by decide +kernel))
  have c4 := fun (hs : some 3 = some t.length ∨ StopAt Gen.cs_687e3c3f (nc :: '-' :: 'R' :: (r ++ [ec]))) =>
    Eats.grp 3 (Eats.run Gen.cs_687e3c3f 1 (some 3) t (nc :: '-' :: 'R' :: (r ++ [ec]))
      (fun c hc => CharSet.sub_mem (by decide +kernel) (h.t_ocr c hc)) hs h.t_len.1 (fun _ hh => by cases hh; exact h.t_len.2))
  have c5 := eats_dead Gen.cs_6862e64c [] (nc :: '-' :: 'R' :: (r ++ [ec])) (fun _ hc => by cases hc) (StopAt.cons hncf.1)
  have c6 := eats_dir 4 Gen.cs_38ea6e46 Gen.cs_69521832 Gen.cs_faf00333 Gen.cs_0c0f8a50 5 [nc] ('-' :: 'R' :: (r ++ [ec])) (by decide +kernel)
    (by
      rcases hnc' with rfl | rfl
      · exact Or.inl ⟨IsWordOf.single 'N' (by decide), Or.inr (StopAt.cons (by decide))⟩
      · exact Or.inr ⟨IsWordOf.single 'S' (by decide), Or.inr (StopAt.cons (by decide))⟩)
  have c7 := eats_dead Gen.cs_f3df237d ['-'] ('R' :: (r ++ [ec])) (by decide) (StopAt.cons (by decide))
  have c8 := Eats.opt_some (Eats.grp 5 (eats_word (c0 := Gen.cs_ecd0074f) (cs := Gen.cs_25709165) (hi := 6) (w := ['R']) (tail := (r ++ [ec]))
    (IsWordOf.single 'R' (by decide)) (Or.inr (head_stop_of h.r_ocr h.rne _ (by decide +kernel)))))
  have c9 := eats_dead Gen.cs_6862e64c [] (r ++ [ec]) (fun _ hc => by cases hc) (head_stop_of h.r_ocr h.rne _ (by decide +kernel))
  have c10 := eats_ocrR r [ec] h.r_ocr h.r_len.1 h.r_len.2 h.r2 (StopAt.cons hecf.1)
  have c11 := eats_dead Gen.cs_6862e64c [] [ec] (fun _ hc => by cases hc) (StopAt.cons hecf.2)
  have c12 := eats_dir 7 Gen.cs_ae876102 Gen.cs_ae3e3c7d Gen.cs_5f20f5ed Gen.cs_68819f8e 3 [ec] [] (by decide +kernel)
    (by
      rcases h.ec with rfl | rfl
      · exact Or.inr ⟨IsWordOf.single 'E' (by decide), Or.inr (StopAt.nil _)⟩
      · exact Or.inl ⟨IsWordOf.single 'W' (by decide), Or.inr (StopAt.nil _)⟩)
  have h11 := Eats.seq' c11 c12 (by simp)
  have h10 := Eats.seq' c10 h11 (by simp)
  have h9 := Eats.seq' c9 h10 (by simp)
  have h8 := Eats.seq' c8 h9 (by simp)
  have h7 := Eats.seq' c7 h8 (by simp)
  have h6 := Eats.seq' c6 h7 (by simp)
  have h5 := Eats.seq' c5 h6 (by simp)
  -- `S` is itself a look-alike (of 5): after fewer than three characters the greedy number takes it first, and gives it back
  have h4 := Or.elim (Classical.em (nc = 'N' ∨ t.length = 3))
    (fun hc => Eats.seq' (c4 (by
      rcases hc with rfl | h3
      · exact Or.inr (StopAt.cons (by decide +kernel))
      · exact Or.inl (by rw [h3]))) h5 (by simp))
    (fun hc => by
      have hS : nc = 'S' := by
        rcases hnc' with h | h
        · exact absurd (Or.inl h) hc
        · exact h
      have hlt : t.length + 1 ≤ 3 := by
        have : t.length ≠ 3 := fun h => hc (Or.inr h)
        have := h.t_len.2
        omega
      subst hS
      exact (Eats.run_giveback 3 Gen.cs_687e3c3f 1 (some 3) t 'S' ('-' :: 'R' :: (r ++ [ec])) [] _ _
        (fun c hc => CharSet.sub_mem (by decide +kernel) (h.t_ocr c hc)) (by decide +kernel)
        (Or.inr (StopAt.cons (by decide +kernel))) h.t_len.1 (fun _ hh => by cases hh; exact hlt) (failsOn_D_NS _ _)
        (h5.cast (by simp) (fun _ _ => rfl))).cast (by simp) (fun _ _ => rfl))
  have h3 := Eats.seq' c3 h4 (by simp)
  have h2 := Eats.seq' c2 h3 (by simp)
  have h1 := Eats.seq' c1 h2 (by simp)
  have e : canonText t nc r ec = (['T'] ++ ([] ++ ([] ++ (t ++ ([] ++ ([nc] ++ (['-'] ++ (['R'] ++ ([] ++ (r ++ ([] ++ ([ec])))))))))))) ++ [] := by
    simp [canonText]
  have hG : Leads twG1 ⟨none, canonText t nc r ec, 0, []⟩ ⟨none, canonText t nc r ec, 0, [(1, 0, 0)]⟩ :=
    leads_twG1 none 'T' _ 0 [] rfl (by decide +kernel)
  have hB := h1 none 0 [(1, 0, 0)]
  rw [← e] at hB
  have hL := Leads.seq hG hB
  have hL' := Leads.congr_rx hdec hL
  refine ⟨_, matchHere_of_leads false hL' (Or.inl rfl), ?_⟩
  constructor <;> simp [Match.span?, List.find?] <;> omega

/-! ### `ocr_scrub_alpha_to_num` on a garbled number -/

theorem pyReplaceAux_char (a b : Char) : ∀ (s : Str) (fuel : Nat), s.length < fuel →
    pyReplaceAux [a] [b] fuel s = s.map (fun c => if c = a then b else c) := by
  intro s
  induction s with
  | nil =>
    intro fuel hf
    obtain ⟨f, rfl⟩ : ∃ f, fuel = f + 1 := ⟨fuel - 1, by omega⟩
    rfl
  | cons c t ih =>
    intro fuel hf
    obtain ⟨f, rfl⟩ : ∃ f, fuel = f + 1 := ⟨fuel - 1, by omega⟩
    have hl : t.length < f := by simp only [List.length_cons] at hf; omega
    by_cases hc : c = a
    · subst hc
      simp [pyReplaceAux, isPrefix, ih f hl]
    · have hc' : ¬ a = c := fun h => hc h.symm
      simp [pyReplaceAux, isPrefix, ih f hl, hc, hc']

theorem pyReplace_char (a b : Char) (s : Str) : pyReplace s [a] [b] = s.map (fun c => if c = a then b else c) :=
  pyReplaceAux_char a b s _ (Nat.lt_succ_self _)

/-- what the six replacements of `OCR_REPLACEMENTS` do to one character -/
def ocrMap (c : Char) : Char :=
  let c := if c = 'S' then '5' else c
  let c := if c = 's' then '5' else c
  let c := if c = 'O' then '0' else c
  let c := if c = 'I' then '1' else c
  let c := if c = 'l' then '1' else c
  if c = 'L' then '1' else c

theorem ocrScrub_eq_map (t : Str) : ocrScrubAlphaToNum t = t.map ocrMap := by
  have h : Gen.OCR_REPLACEMENTS.map (fun r => (r.1.toList, r.2.toList)) =
      [(['S'], ['5']), (['s'], ['5']), (['O'], ['0']), (['I'], ['1']), (['l'], ['1']), (['L'], ['1'])] := by decide
  have e : ocrScrubAlphaToNum t = (Gen.OCR_REPLACEMENTS.map (fun r => (r.1.toList, r.2.toList))).foldl (fun acc r => pyReplace acc r.1 r.2) t := by
    unfold ocrScrubAlphaToNum
    rw [List.foldl_map]
  rw [e, h]
  simp only [List.foldl_cons, List.foldl_nil, pyReplace_char, List.map_map]
  apply List.map_congr_left
  intro c _
  simp only [Function.comp, ocrMap]

theorem ocr_char_cases (c : Char) (h : ocrChars.mem c = true) :
    asciiDigits.mem c = true ∨ c = 'I' ∨ c = 'L' ∨ c = 'O' ∨ c = 'S' ∨ c = 'l' ∨ c = 's' := by
  simp only [ocrChars, asciiDigits, CharSet.mem, List.any_cons, List.any_nil, Bool.or_false, Bool.and_eq_true,
    decide_eq_true_eq, Bool.or_eq_true] at h ⊢
  by_cases hd : 48 ≤ c.toNat ∧ c.toNat ≤ 57
  · exact Or.inl hd
  · right
    have : c.toNat = 73 ∨ c.toNat = 76 ∨ c.toNat = 79 ∨ c.toNat = 83 ∨ c.toNat = 108 ∨ c.toNat = 115 := by omega
    rcases this with h | h | h | h | h | h
    · exact Or.inl (char_of_toNat c _ h)
    · exact Or.inr (Or.inl (char_of_toNat c _ h))
    · exact Or.inr (Or.inr (Or.inl (char_of_toNat c _ h)))
    · exact Or.inr (Or.inr (Or.inr (Or.inl (char_of_toNat c _ h))))
    · exact Or.inr (Or.inr (Or.inr (Or.inr (Or.inl (char_of_toNat c _ h)))))
    · exact Or.inr (Or.inr (Or.inr (Or.inr (Or.inr (char_of_toNat c _ h)))))

theorem ocrMap_digit (c : Char) (h : asciiDigits.mem c = true) : ocrMap c = c := by
  have hb := asciiDigit_bounds h
  have hne : ∀ x : Char, 58 ≤ x.toNat → c ≠ x := by
    intro x hx e; subst e; omega
  simp [ocrMap, hne 'S' (by decide), hne 's' (by decide), hne 'O' (by decide), hne 'I' (by decide), hne 'l' (by decide), hne 'L' (by decide)]

theorem ocrMap_isDigit (c : Char) (h : ocrChars.mem c = true) : asciiDigits.mem (ocrMap c) = true := by
  rcases ocr_char_cases c h with hd | rfl | rfl | rfl | rfl | rfl | rfl
  · rw [ocrMap_digit c hd]; exact hd
  all_goals decide

/-- the look-alikes read as digits: `I l L ↦ 1`, `O ↦ 0`, `S s ↦ 5`, position by position -/
def ocrRead (t : Str) : Str := t.map ocrMap

theorem ocrRead_isDigits {t : Str} (h : IsOcr t) : IsDigits (ocrRead t) := by
  intro c hc
  simp only [ocrRead, List.mem_map] at hc
  obtain ⟨x, hx, rfl⟩ := hc
  exact ocrMap_isDigit x (h x hx)

theorem ocrRead_digits {t : Str} (h : IsDigits t) : ocrRead t = t := by
  unfold ocrRead
  conv => rhs; rw [← List.map_id t]
  apply List.map_congr_left
  intro c hc
  exact ocrMap_digit c (h c hc)

/-- the canonical rendering of the match of the OCR scrubber -/
theorem canonTR_ocr (p : Pat) (hidx : p.idx? "twpnum" = some 3 ∧ p.idx? "ns" = some 4 ∧ p.idx? "rgenum" = some 6 ∧ p.idx? "ew" = some 7)
    (m : Match) (t r : Str) (nc ec : Char) (hm : CanonMatch m t r) (hnc : nc = 'N' ∨ nc = 'S') (hec : ec = 'E' ∨ ec = 'W')
    (ns ew : Str) :
    canonTR p m (canonText t nc r ec) ns ew true =
      canonText (stripLeadingZerosViaInt (ocrRead t)) nc (stripLeadingZerosViaInt (ocrRead r)) ec := by
  have g1 : p.group m (canonText t nc r ec) "twpnum" = some t := by
    simp only [Pat.group, hidx.1, Match.group?, hm.twp]
    congr 1
    exact slice_at _ ['T'] t (nc :: '-' :: 'R' :: (r ++ [ec])) _ _ (by simp [canonText]) rfl (by simp)
  have g2 : p.group m (canonText t nc r ec) "ns" = some [nc] := by
    simp only [Pat.group, hidx.2.1, Match.group?, hm.ns]
    congr 1
    exact slice_at _ ('T' :: t) [nc] ('-' :: 'R' :: (r ++ [ec])) _ _ (by simp [canonText]) (by simp; omega) (by simp; omega)
  have g3 : p.group m (canonText t nc r ec) "rgenum" = some r := by
    simp only [Pat.group, hidx.2.2.1, Match.group?, hm.rge]
    congr 1
    exact slice_at _ ('T' :: (t ++ [nc, '-', 'R'])) r [ec] _ _ (by simp [canonText]) (by simp; omega) (by simp; omega)
  have g4 : p.group m (canonText t nc r ec) "ew" = some [ec] := by
    simp only [Pat.group, hidx.2.2.2, Match.group?, hm.ew]
    congr 1
    exact slice_at _ ('T' :: (t ++ [nc, '-', 'R'] ++ r)) [ec] [] _ _ (by simp [canonText]) (by simp; omega) (by simp; omega)
  unfold canonTR twpPart rgePart dirPart
  rw [g1, g2, g3, g4]
  simp only [if_true, Option.getD_some, ocrScrub_eq_map]
  rcases hnc with rfl | rfl <;> rcases hec with rfl | rfl <;> simp [canonText, pyUpper, pyUpperChar, ocrRead]

def ocrPat : Pat := ⟨Gen.pp_twprge_ocr_scrub, Gen.pp_twprge_ocr_scrub_groups, Gen.pp_twprge_ocr_scrub_ngroups⟩

theorem ocr_mustHit_T : Gen.pp_twprge_ocr_scrub.mustHitP (fun cs => cs == Gen.cs_93b62202) = true := by decide +kernel

/-- the OCR scrubber on a garbled canonical Twp/Rge standing alone: the look-alikes are read as digits -/
theorem ocr_scrub_step (t r : Str) (nc ec : Char) (h : OcrHyp t r nc ec) (dn de : Str)
    (h1 : isLegal Gen.LEGAL_NS dn = true) (h2 : isLegal Gen.LEGAL_EW de = true) :
    subScrubber "pp_twprge_ocr_scrub" (canonText t nc r ec) dn de =
      .ok (canonText (stripLeadingZerosViaInt (ocrRead t)) nc (stripLeadingZerosViaInt (ocrRead r)) ec ++ List.replicate 1 ' ') := by
  have hnc' : nc = 'N' ∨ nc = 'S' := h.nc
  obtain ⟨m, hm, hcm⟩ := ocr_match t r nc ec h
  have hstop : m.stop = (canonText t nc r ec).length := by rw [hcm.stop, canonText_length]
  have hfi : ocrPat.rx.finditer (canonText t nc r ec) = [m] := by
    refine finditer_single ocr_mustHit_T _ m hm (by rw [hcm.start, hcm.stop]; omega) ?_
    intro c hc
    rw [hstop, List.drop_length] at hc
    cases hc
  have hp : findPat "pp_twprge_ocr_scrub" = ocrPat := rfl
  have hocr : ("pp_twprge_ocr_scrub" == Gen.PLSS_OCR_SCRUBBER) = true := by decide
  rw [C08_subScrubber_rewrites _ _ dn de h1 h2, hp, hfi, hocr]
  simp only [rewrite, hcm.start, slice_self, List.nil_append, hstop, List.drop_length, List.append_nil]
  rw [canonTR_ocr ocrPat (by decide) m t r nc ec hcm hnc' h.ec]
  rfl

/-- all six ordinary scrubbers on a canonical text (numbers without leading zeros) followed by one blank -/
theorem canon_scrub_all6 (t r : Str) (nc ec : Char) (ht : IsDigits t) (htl : 1 ≤ t.length ∧ t.length ≤ 3)
    (hnc : nc = 'N' ∨ nc = 'S') (hr : IsDigits r) (hrl : 1 ≤ r.length ∧ r.length ≤ 3) (hec : ec = 'E' ∨ ec = 'W')
    (hst : stripLeadingZerosViaInt t = t) (hsr : stripLeadingZerosViaInt r = r)
    (ns ew : Str) (h1 : isLegal Gen.LEGAL_NS ns = true) (h2 : isLegal Gen.LEGAL_EW ew = true) :
    (scrubberNames false).foldlM (fun txt n => subScrubber n txt ns ew) (canonText t nc r ec ++ List.replicate 1 ' ') =
      .ok (canonText t nc r ec ++ [' ']) := by
  have hv1 : (canonSp t nc r ec).Valid (List.replicate 1 ' ') :=
    canonSp_valid t nc r ec _ (fun c hc => (isDigit_iff_mem c).2 (ht c hc)) htl hnc (fun c hc => (isDigit_iff_mem c).2 (hr c hc)) hrl hec
      (EndsTwprge.cons _ (by decide))
  have s1 : subScrubber "twprge_regex" (canonText t nc r ec ++ List.replicate 1 ' ') ns ew =
      .ok (canonText t nc r ec ++ List.replicate 2 ' ') := by
    have hfi : twprge.rx.finditer ((canonSp t nc r ec).text ++ List.replicate 1 ' ') = [(canonSp t nc r ec).matchAt 0] :=
      C08_spelling_finditer _ _ hv1 (blanks_no_digit 1)
    have := scrub_single "twprge_regex" twprge rfl (by decide) _ ns ew h1 h2 _ hfi rfl
    rw [(canonSp t nc r ec).canonTR_eq _ hv1, canonSp_canon t nc r ec hnc hec, hst, hsr, canonSp_text] at this
    rw [this]
    simp [Spelling.matchAt, canonSp_text, List.replicate_succ]
  have s2 := pp_scrub_step "pp_twprge_no_nswe" ppNswePat rfl (by decide) (by decide) pp_mustHitP_digit.1
    (fun t r nc ec ctx h => no_nswe_canon t r nc ec ctx h) t r nc ec 2 ht htl hnc hr hrl hec ns ew h1 h2
  have s3 := pp_scrub_step "pp_twprge_no_nsr" ppNsrPat rfl (by decide) (by decide) pp_mustHitP_digit.2.1
    (fun t r nc ec ctx h => no_nsr_canon t r nc ec ctx h) t r nc ec 3 ht htl hnc hr hrl hec ns ew h1 h2
  have s4 := pp_scrub_step "pp_twprge_no_ewt" ppEwtPat rfl (by decide) (by decide) pp_mustHitP_digit.2.2
    (fun t r nc ec ctx h => no_ewt_canon t r nc ec ctx h) t r nc ec 4 ht htl hnc hr hrl hec ns ew h1 h2
  have s5 := scrub_none "pp_twprge_pm" ppPmPat rfl (canonText t nc r ec ++ List.replicate 5 ' ') ns ew h1 h2
    (finditer_nil_of_noHit pm_mustHitP _ (canon_blanks_noHit t r nc ec ht hnc hr hec 5))
  have hv : (canonSp t nc r ec).Valid (List.replicate 5 ' ' ++ []) :=
    canonSp_valid t nc r ec _ (fun c hc => (isDigit_iff_mem c).2 (ht c hc)) htl hnc (fun c hc => (isDigit_iff_mem c).2 (hr c hc)) hrl hec
      (EndsTwprge.cons _ (by decide))
  have hfi := comma_finditer (canonSp t nc r ec) (List.replicate 5 ' ') hv (by decide)
  have hv' : (canonSp t nc r ec).Valid (List.replicate 5 ' ') := by rw [List.append_nil] at hv; exact hv
  have s6 := scrub_single "pp_twprge_comma_remove" commaPat rfl (by decide) _ ns ew h1 h2 _ hfi rfl
  rw [comma_canonTR _ _ hv', canonSp_canon t nc r ec hnc hec, hst, hsr, canonSp_text] at s6
  rw [hst, hsr] at s2 s3 s4
  have hnames : scrubberNames false = ["twprge_regex", "pp_twprge_no_nswe", "pp_twprge_no_nsr", "pp_twprge_no_ewt", "pp_twprge_pm",
    "pp_twprge_comma_remove"] := rfl
  rw [hnames]
  simp only [List.foldlM_cons, List.foldlM_nil, s1, s2, s3, s4, s5, s6, bind, Except.bind, pure, Except.pure]
  simp [Spelling.commaMatch, canonSp_text]

/-- **C08, OCR look-alikes.**  With `ocr_scrub=True`, a canonical Twp/Rge whose numbers contain the look-alike letters of
    `OCR_REPLACEMENTS` at any positions (`I l L` for 1, `O` for 0, `S s` for 5; one to three characters each) is rewritten to the
    Twp/Rge with the letters read as digits (`TI54N-R9SW ↦ T154N-R95W`), leading zeros dropped; what `find_twprge` then reports is what
    it reports for the text with the digits written.  The only numbers excluded (`OcrHyp.r2`) are a range that is a lone `2`: the OCR
    pattern has no "Range 2" edge case (see `C08_ocr_range2_misread`).  A direction `S` — itself a look-alike — after fewer than
    three township characters is first taken for part of the number and given back (`Eats.run_giveback`).  `fixed` is the multiset difference against what `find_twprge` read in the garbled text. -/
theorem C08_ocr_lookalikes (t r : Str) (nc ec : Char) (h : OcrHyp t r nc ec) (mc : MC) (defNS defEW : Option Str)
    (hm1 : isLegal Gen.LEGAL_NS mc.ns = true) (hm2 : isLegal Gen.LEGAL_EW mc.ew = true)
    (h1 : isLegal Gen.LEGAL_NS (resolve defNS mc.ns) = true) (h2 : isLegal Gen.LEGAL_EW (resolve defEW mc.ew) = true) :
    ∃ res orig, plssPreprocess mc (canonText t nc r ec) defNS defEW true = .ok res ∧
      res.text = canonText (stripLeadingZerosViaInt (ocrRead t)) nc (stripLeadingZerosViaInt (ocrRead r)) ec ∧
      res.diverged = false ∧
      findTwprgeRaw (canonText t nc r ec) mc.ns mc.ew = .ok orig ∧ res.fixed = fixedTwprges orig [res.text] ∧
      (∀ dn de, isLegal Gen.LEGAL_NS dn = true → isLegal Gen.LEGAL_EW de = true →
        findTwprgeRaw res.text dn de = .ok [res.text] ∧
        findTwprgeRaw res.text dn de = findTwprgeRaw (canonText (ocrRead t) nc (ocrRead r) ec) dn de) := by
  have hnc : nc = 'N' ∨ nc = 'S' := h.nc
  have hdt := ocrRead_isDigits h.t_ocr
  have hdr := ocrRead_isDigits h.r_ocr
  have hlt : 1 ≤ (ocrRead t).length ∧ (ocrRead t).length ≤ 3 := by simp only [ocrRead, List.length_map]; exact h.t_len
  have hlr : 1 ≤ (ocrRead r).length ∧ (ocrRead r).length ≤ 3 := by simp only [ocrRead, List.length_map]; exact h.r_len
  obtain ⟨pt1, pt2, pt3⟩ := strip_props _ hdt hlt.1 hlt.2
  obtain ⟨pr1, pr2, pr3⟩ := strip_props _ hdr hlr.1 hlr.2
  have ho := C08_findTwprgeRaw_order (canonText t nc r ec) _ _ hm1 hm2
  have s0 := ocr_scrub_step t r nc ec h _ _ h1 h2
  have s16 := canon_scrub_all6 _ _ nc ec pt1 pt2 hnc pr1 pr2 h.ec pt3 pr3 _ _ h1 h2
  have hrw := reduceWhitespace_canon_blanks _ _ nc ec pt1 hnc pr1 h.ec 1
  have hrec := (C08_canonical_recognised (stripLeadingZerosViaInt (ocrRead t)) (stripLeadingZerosViaInt (ocrRead r)) nc ec
    (fun c hc => (isDigit_iff_mem c).2 (pt1 c hc)) pt2 hnc (fun c hc => (isDigit_iff_mem c).2 (pr1 c hc)) pr2 h.ec).2.2.2.2.2.2
  rw [pt3, pr3] at hrec
  have hrec0 := (C08_canonical_recognised (ocrRead t) (ocrRead r) nc ec
    (fun c hc => (isDigit_iff_mem c).2 (hdt c hc)) hlt hnc (fun c hc => (isDigit_iff_mem c).2 (hdr c hc)) hlr h.ec).2.2.2.2.2.2
  refine ⟨⟨canonText (stripLeadingZerosViaInt (ocrRead t)) nc (stripLeadingZerosViaInt (ocrRead r)) ec,
    fixedTwprges _ [canonText (stripLeadingZerosViaInt (ocrRead t)) nc (stripLeadingZerosViaInt (ocrRead r)) ec], false⟩, _,
    ?_, rfl, rfl, ho, rfl, ?_⟩
  · have hnames : scrubberNames true = "pp_twprge_ocr_scrub" :: scrubberNames false := rfl
    unfold plssPreprocess
    simp only [ho, hnames]
    rw [List.foldlM_cons]
    simp only [s0, bind, Except.bind, s16]
    have e1 : ([' '] : Str) = List.replicate 1 ' ' := rfl
    rw [e1, hrw]
    simp only [hrec mc.ns mc.ew hm1 hm2]
  · intro dn de hd1 hd2
    exact ⟨hrec dn de hd1 hd2, by rw [hrec dn de hd1 hd2, hrec0 dn de hd1 hd2]⟩

/-! ## the warning flag -/

/-- the `fixed_twprge<…>` warning raised for one fixed canonical Twp/Rge: `fixed_twprge<154s97w>` -/
theorem C08_fixed_flag (t r : Str) (ns ew : Char) (ht : ∀ c ∈ t, c.isDigit = true) (hns : ns = 'N' ∨ ns = 'S')
    (hr : ∀ c ∈ r, c.isDigit = true) (hew : ew = 'E' ∨ ew = 'W') :
    (Obj.fixedFlags [canonText t ns r ew]).w =
      [.str (S "fixed_twprge<" ++ (t ++ lowerChar ns :: (r ++ [lowerChar ew])) ++ S ">")] := by
  simp only [Obj.fixedFlags, List.isEmpty_cons, Bool.false_eq_true, if_false, List.map_cons, List.map_nil, pyJoin,
    C08_canonical_short t r ns ew ht hns hr hew]

/-! ## Non-vacuity: the documented examples -/

example : partialText (S "154") none (S "97") (some 'W') = S "T154-R97W" ∧ partialText (S "154") (some 'N') (S "97") none = S "T154N-R97" ∧
    partialText (S "154") none (S "97") none = S "T154-R97" := by decide
example : abbrText (S "154") 'N' (S "97") 'W' = S "Twp. 154 N., Rge. 97 W" ∧ abbrNoDotText (S "154") 'N' (S "97") 'W' = S "Twp 154 N, Rge 97 W" ∧
    spacedText (S "154") 'N' (S "97") 'W' = S "T154N R97W" ∧ dashedText (S "154") 'N' (S "97") 'W' = S "T-154-N, R-97-W" := by decide

/-- `T154-R97W` under the defaults south / east: the missing N/S becomes `S`, the written `W` is kept, and the Twp/Rge is reported as fixed -/
example : ∃ res, plssPreprocess {} (S "T154-R97W") (some (S "s")) (some (S "e")) false = .ok res ∧ res.text = S "T154S-R97W" ∧
    res.fixed = [S "T154S-R97W"] ∧ res.diverged = false := by
  obtain ⟨res, h1, h2, h3, h4, _⟩ := C08_missing_direction_filled (S "154") (S "97") none (some 'W') (by decide) (by decide) (Or.inl rfl)
    (by decide) (by decide) (Or.inr (Or.inr rfl)) (Or.inl rfl) {} (some (S "s")) (some (S "e")) (by decide) (by decide) (by decide) (by decide)
  exact ⟨res, h1, h2, by rw [h3, h2]; rfl, h4⟩
/-- `T154N-R97` with no keyword defaults: MasterConfig's `w` -/
example : ∃ res, plssPreprocess {} (S "T154N-R97") none none false = .ok res ∧ res.text = S "T154N-R97W" ∧
    res.fixed = [S "T154N-R97W"] ∧ res.diverged = false := by
  obtain ⟨res, h1, h2, h3, h4, _⟩ := C08_missing_direction_filled (S "154") (S "97") (some 'N') none (by decide) (by decide) (Or.inr (Or.inl rfl))
    (by decide) (by decide) (Or.inl rfl) (Or.inr rfl) {} none none (by decide) (by decide) (by decide) (by decide)
  exact ⟨res, h1, h2, by rw [h3, h2]; rfl, h4⟩
/-- `T2-R2`: both missing, range 2 -/
example : ∃ res, plssPreprocess {} (S "T2-R2") (some (S "S")) (some (S "E")) false = .ok res ∧ res.text = S "T2S-R2E" := by
  obtain ⟨res, h1, h2, _⟩ := C08_missing_direction_filled (S "2") (S "2") none none (by decide) (by decide) (Or.inl rfl)
    (by decide) (by decide) (Or.inl rfl) (Or.inl rfl) {} (some (S "S")) (some (S "E")) (by decide) (by decide) (by decide) (by decide)
  exact ⟨res, h1, h2⟩
example : (Obj.fixedFlags [S "T154S-R97W"]).w = [.str (S "fixed_twprge<154s97w>")] :=
  C08_fixed_flag (S "154") (S "97") 'S' 'W' (by decide) (Or.inr rfl) (by decide) (Or.inr rfl)
example : SameAsCanonical (S "Twp. 154 N., Rge. 97 W") (S "154") 'N' (S "97") 'W' :=
  (C08_abbreviated_same (S "154") (S "97") 'N' 'W' (by decide) (by decide) (Or.inl rfl) (by decide) (by decide) (Or.inr rfl)).1
example : SameAsCanonical (S "T-154-N, R-97-W") (S "154") 'N' (S "97") 'W' :=
  (C08_abbreviated_same (S "154") (S "97") 'N' 'W' (by decide) (by decide) (Or.inl rfl) (by decide) (by decide) (Or.inr rfl)).2.2.2
/-- OCR: `TI54N-R9SW ↦ T154N-R95W`, `TlOSN-RIlOW ↦ T105N-R110W` -/
example : OcrHyp (S "I54") (S "9S") 'N' 'W' := ⟨by decide, by decide, Or.inl rfl, by decide, by decide, by decide, Or.inr rfl⟩
example : ∃ res, plssPreprocess {} (S "TI54N-R9SW") none none true = .ok res ∧ res.text = S "T154N-R95W" := by
  obtain ⟨res, _, h1, h2, _⟩ := C08_ocr_lookalikes (S "I54") (S "9S") 'N' 'W'
    ⟨by decide, by decide, Or.inl rfl, by decide, by decide, by decide, Or.inr rfl⟩ {} none none (by decide) (by decide) (by decide) (by decide)
  exact ⟨res, h1, h2⟩
example : ∃ res, plssPreprocess {} (S "TlOSN-RIlOW") none none true = .ok res ∧ res.text = S "T105N-R110W" := by
  obtain ⟨res, _, h1, h2, _⟩ := C08_ocr_lookalikes (S "lOS") (S "IlO") 'N' 'W'
    ⟨by decide, by decide, Or.inl rfl, by decide, by decide, by decide, Or.inr rfl⟩ {} none none (by decide) (by decide) (by decide) (by decide)
  exact ⟨res, h1, h2⟩

/-- the S case: `T1SS-R97W` is Township 15 South (the second `S` is first taken for a third digit, then given back) -/
example : ∃ res, plssPreprocess {} (S "T1SS-R97W") none none true = .ok res ∧ res.text = S "T15S-R97W" := by
  obtain ⟨res, _, h1, h2, _⟩ := C08_ocr_lookalikes (S "1S") (S "97") 'S' 'W'
    ⟨by decide, by decide, Or.inr rfl, by decide, by decide, by decide, Or.inr rfl⟩ {} none none (by decide) (by decide) (by decide) (by decide)
  exact ⟨res, h1, h2⟩
/-- an explicit direction is kept: "Township 154 North, Range 97 West" under south / east defaults -/
example : plssPreprocess {} (S "Township 154 North, Range 97 West") (some (S "s")) (some (S "e")) false = .ok ⟨S "T154N-R97W", [], false⟩ :=
  (C08_explicit_direction_kept (spelledSp (S "154") 'N' (S "97") 'W')
    (spelledSp_valid (S "154") 'N' (S "97") 'W' [] (by decide) (by decide) (Or.inl rfl) (by decide) (by decide) (Or.inr rfl))
    {} {} (some (S "s")) (some (S "e")) none none (by decide) (by decide) (by decide) (by decide) (by decide) (by decide) (by decide) (by decide)).2.1

/-! ## The excluded numbers: a lone range `2` under `ocr_scrub` -/

def ppView (r : Except PyErr PPResult) : Option (Str × List Str × Bool) :=
  match r with | .ok r => some (r.text, r.fixed, r.diverged) | .error _ => none

set_option maxRecDepth 100000 in
/-- **the OCR clause fails for a lone range 2.**  `pp_twprge_ocr_scrub` has no "Range 2" edge case, so it finds nothing in
    `TI54N-R2W`; the text then reaches `twprge_regex`, whose `T[ownship]{0,9}` swallows the `I` as part of the word "Township":
    the result is `T54N-R2W` (not `T154N-R2W`), and nothing is reported as fixed.  (Same on the real library.) -/
theorem C08_ocr_range2_misread :
    Gen.pp_twprge_ocr_scrub.finditer (S "TI54N-R2W") = [] ∧
    ppView (plssPreprocess {} (S "TI54N-R2W") none none true) = some (S "T54N-R2W", [], false) ∧
    ppView (plssPreprocess {} (S "T154N-R2W") none none true) = some (S "T154N-R2W", [], false) := by decide +kernel

#print axioms C08_ocr_range2_misread
#print axioms Eats.run_giveback

#print axioms C08_missing_direction_filled
#print axioms C08_explicit_direction_kept
#print axioms C08_framed_same
#print axioms C08_abbreviated_same
#print axioms C08_ocr_lookalikes
#print axioms C08_fixed_flag

end PyTRS
