/-
C08 — Twp/Rge preprocessing: shape of the text rewritten by one scrubbing pass, reading order of `find_twprge`,
independence of the defaults when every match is fully written, and the `fixed_twprge` report as a multiset difference.
-/
import PyTRS.Props.C08
import PyTRS.Lemmas.Total
import PyTRS.Lemmas.Slices
namespace PyTRS
open PyTRS.Plss PyTRS.Unpack

/-- the canonical rendering of one match: `T<twp><NS>-R<rge><EW>` -/
def canonTR (p : Pat) (mo : Match) (text ns ew : Str) (ocr : Bool) : Str :=
  "T".toList ++ twpPart p mo text ocr ++ dirPart p mo text "ns" ns ++ "-R".toList ++ rgePart p mo text ocr ++ dirPart p mo text "ew" ew

/-- the text one scrubbing pass produces from a list of matches: the gaps between matches verbatim, each match replaced by its
    canonical rendering followed by one blank -/
def rewrite (p : Pat) (text ns ew : Str) (ocr : Bool) : List Match → Nat → Str
  | [], i => text.drop i
  | m :: ms, i => slice text i m.start ++ canonTR p m text ns ew ocr ++ [' '] ++ rewrite p text ns ew ocr ms m.stop

/-! ### unpack_twprge under legal defaults -/

theorem unpackTwprge_canon (p : Pat) (mo : Match) (text ns ew : Str) (ocr : Bool)
    (h1 : isLegal Gen.LEGAL_NS ns = true) (h2 : isLegal Gen.LEGAL_EW ew = true) :
    unpackTwprge p mo text ns ew ocr = .ok (canonTR p mo text ns ew ocr) := by
  rw [C08_shape p mo text ns ew ocr h1 h2]; rfl

theorem subScrubStep_canon (p : Pat) (txt ns ew : Str) (ocr : Bool) (st : Str × Nat) (m : Match)
    (h1 : isLegal Gen.LEGAL_NS ns = true) (h2 : isLegal Gen.LEGAL_EW ew = true) :
    subScrubStep p txt ns ew ocr st m =
      .ok (st.1 ++ slice txt st.2 m.start ++ canonTR p m txt ns ew ocr ++ [' '], m.stop) := by
  unfold subScrubStep
  rw [unpackTwprge_canon p m txt ns ew ocr h1 h2]

/-- the fold invariant of `sub_scrubber`: folding the remaining matches from state `(acc, i)` ends in a state whose
    completion `st.1 ++ txt[st.2:]` is `acc ++ rewrite ms i` -/
theorem subScrub_fold (p : Pat) (txt ns ew : Str) (ocr : Bool)
    (h1 : isLegal Gen.LEGAL_NS ns = true) (h2 : isLegal Gen.LEGAL_EW ew = true) :
    ∀ (ms : List Match) (acc : Str) (i : Nat),
      ∃ st, ms.foldlM (subScrubStep p txt ns ew ocr) (acc, i) = .ok st ∧
        st.1 ++ txt.drop st.2 = acc ++ rewrite p txt ns ew ocr ms i := by
  intro ms
  induction ms with
  | nil =>
    intro acc i
    exact ⟨(acc, i), rfl, rfl⟩
  | cons m ms ih =>
    intro acc i
    obtain ⟨st, hst, heq⟩ := ih (acc ++ slice txt i m.start ++ canonTR p m txt ns ew ocr ++ [' ']) m.stop
    refine ⟨st, ?_, ?_⟩
    · rw [List.foldlM_cons, subScrubStep_canon p txt ns ew ocr (acc, i) m h1 h2]
      exact hst
    · rw [heq]
      simp only [rewrite, List.append_assoc]

/-- every Twp/Rge the pass recognises appears in the result as `T<twp><NS>-R<rge><EW>` followed by a blank, everything else verbatim -/
theorem C08_subScrubber_rewrites (name : String) (txt ns ew : Str) (h1 : isLegal Gen.LEGAL_NS ns = true) (h2 : isLegal Gen.LEGAL_EW ew = true) :
    subScrubber name txt ns ew =
      .ok (rewrite (findPat name) txt ns ew (name == Gen.PLSS_OCR_SCRUBBER) ((findPat name).rx.finditer txt) 0) := by
  obtain ⟨st, hst, heq⟩ := subScrub_fold (findPat name) txt ns ew (name == Gen.PLSS_OCR_SCRUBBER) h1 h2
    ((findPat name).rx.finditer txt) [] 0
  unfold subScrubber
  simp only []
  rw [hst]
  simp only [List.nil_append] at heq
  simp only [heq]

/-! ### find_twprge -/

theorem mapM_ok_map {α β ε : Type} (f : α → Except ε β) (g : α → β) :
    ∀ (l : List α), (∀ a ∈ l, f a = .ok (g a)) → l.mapM f = .ok (l.map g) := by
  intro l
  induction l with
  | nil => intro _; rfl
  | cons a t ih =>
    intro h
    rw [List.mapM_cons, h a (by simp), ih (fun b hb => h b (by simp [hb]))]
    rfl

/-- find_twprge reports the Twp/Rges of the text in reading order, one per match of `twprge_regex` -/
theorem C08_findTwprgeRaw_order (text ns ew : Str) (h1 : isLegal Gen.LEGAL_NS ns = true) (h2 : isLegal Gen.LEGAL_EW ew = true) :
    findTwprgeRaw text ns ew = .ok ((twprge.rx.finditer text).map (fun m => canonTR twprge m text ns ew false)) := by
  unfold findTwprgeRaw
  exact mapM_ok_map _ _ _ (fun m _ => unpackTwprge_canon twprge m text ns ew false h1 h2)

/-- with both letters written, the canonical rendering does not mention the defaults -/
theorem canonTR_explicit (p : Pat) (mo : Match) (text n1 e1 n2 e2 : Str) (ocr : Bool)
    (hns : ∃ c r, p.group mo text "ns" = some (c :: r)) (hew : ∃ c r, p.group mo text "ew" = some (c :: r)) :
    canonTR p mo text n1 e1 ocr = canonTR p mo text n2 e2 ocr := by
  obtain ⟨cn, rn, hn⟩ := hns
  obtain ⟨ce, re, he⟩ := hew
  unfold canonTR
  rw [C08_explicit_letter p mo text "ns" n1 cn rn hn, C08_explicit_letter p mo text "ns" n2 cn rn hn,
    C08_explicit_letter p mo text "ew" e1 ce re he, C08_explicit_letter p mo text "ew" e2 ce re he]

/-- a default direction matters only for a Twp/Rge written without it: if every match has both letters, find_twprge does not
    depend on the (legal) defaults at all -/
theorem C08_find_independent_of_defaults (text n1 e1 n2 e2 : Str)
    (hall : ∀ m ∈ twprge.rx.finditer text, (∃ c r, twprge.group m text "ns" = some (c :: r)) ∧ (∃ c r, twprge.group m text "ew" = some (c :: r)))
    (h1 : isLegal Gen.LEGAL_NS n1 = true) (h2 : isLegal Gen.LEGAL_EW e1 = true)
    (h3 : isLegal Gen.LEGAL_NS n2 = true) (h4 : isLegal Gen.LEGAL_EW e2 = true) :
    findTwprgeRaw text n1 e1 = findTwprgeRaw text n2 e2 := by
  rw [C08_findTwprgeRaw_order text n1 e1 h1 h2, C08_findTwprgeRaw_order text n2 e2 h3 h4]
  congr 1
  apply List.map_congr_left
  intro m hm
  exact canonTR_explicit twprge m text n1 e1 n2 e2 false (hall m hm).1 (hall m hm).2

/-! ### fixed_twprge: a multiset difference, in order -/

/-- `listRemoveFirst` is core's `List.erase` -/
theorem listRemoveFirst_eq_erase (l : List Str) (x : Str) : listRemoveFirst l x = l.erase x := by
  induction l with
  | nil => rfl
  | cons y t ih =>
    unfold listRemoveFirst
    by_cases h : (y == x) = true
    · simp [h, List.erase_cons]
    · simp only [h]
      rw [ih, List.erase_cons]
      simp [h]

/-- the guard in `fixedTwprges` is redundant: the report is `processed` with the elements of `orig` erased one by one -/
theorem fixedTwprges_eq_foldl_erase (orig processed : List Str) :
    fixedTwprges orig processed = orig.foldl (fun acc tr => acc.erase tr) processed := by
  unfold fixedTwprges
  induction orig generalizing processed with
  | nil => rfl
  | cons a t ih =>
    simp only [List.foldl_cons]
    rw [ih]
    congr 1
    by_cases h : processed.contains a = true
    · simp only [h, if_true]; exact listRemoveFirst_eq_erase _ _
    · simp only [h]
      have : a ∉ processed := by simpa using h
      exact (List.erase_of_not_mem this).symm

/-- exact multiset-difference count: every Twp/Rge occurs in the report as often as it occurs after preprocessing
    minus as often as it occurred before (truncated at 0) -/
theorem C08_fixed_count (orig processed : List Str) (x : Str) :
    (fixedTwprges orig processed).count x = processed.count x - orig.count x := by
  rw [fixedTwprges_eq_foldl_erase]
  induction orig generalizing processed with
  | nil => simp
  | cons a t ih =>
    simp only [List.foldl_cons]
    rw [ih, List.count_erase, List.count_cons]
    by_cases h : (a == x) = true
    · simp only [h, if_true]; omega
    · simp only [h]; simp

/-- the report is a sublist of the processed list (order preserved) -/
theorem C08_fixed_sublist (orig processed : List Str) : (fixedTwprges orig processed).Sublist processed := by
  rw [fixedTwprges_eq_foldl_erase]
  induction orig generalizing processed with
  | nil => exact List.Sublist.refl _
  | cons a t ih =>
    simp only [List.foldl_cons]
    exact (ih (processed.erase a)).trans List.erase_sublist

theorem fixed_length_aux (P : List Str) :
    ∀ (orig acc : List Str), (∀ x ∈ acc, x ∈ P) →
      (orig.foldl (fun acc tr => acc.erase tr) acc).length + (orig.filter (fun x => P.contains x)).length ≥ acc.length := by
  intro orig
  induction orig with
  | nil => intro acc _; simp
  | cons a t ih =>
    intro acc hsub
    simp only [List.foldl_cons]
    have hsub' : ∀ x ∈ acc.erase a, x ∈ P := fun x hx => hsub x (List.mem_of_mem_erase hx)
    have := ih (acc.erase a) hsub'
    by_cases ha : a ∈ acc
    · have hP : P.contains a = true := by simpa using hsub a ha
      have hl := List.length_erase_of_mem ha
      rw [List.filter_cons_of_pos (by simpa using hP), List.length_cons]
      omega
    · rw [List.erase_of_not_mem ha] at this ⊢
      have hle : (t.filter (fun x => P.contains x)).length ≤ ((a :: t).filter (fun x => P.contains x)).length := by
        rw [List.filter_cons]; split <;> simp
      omega

/-- the `fixed_twprge` report: the Twp/Rges after preprocessing minus (as a multiset, in order) those present before -/
theorem C08_fixed_is_difference (orig processed : List Str) :
    (fixedTwprges orig processed).length + (orig.filter (fun x => processed.contains x)).length ≥ processed.length ∧
    ∀ x ∈ fixedTwprges orig processed, x ∈ processed := by
  refine ⟨?_, fun x hx => (C08_fixed_sublist orig processed).subset hx⟩
  rw [fixedTwprges_eq_foldl_erase]
  exact fixed_length_aux processed orig processed (fun _ h => h)

/-- nothing fixed when preprocessing changes no Twp/Rge -/
theorem C08_fixed_nil_of_same (l : List Str) : fixedTwprges l l = [] := by
  rw [fixedTwprges_eq_foldl_erase]
  induction l with
  | nil => rfl
  | cons a t ih =>
    simp only [List.foldl_cons, List.erase_cons_head]
    exact ih

#print axioms C08_subScrubber_rewrites
#print axioms C08_findTwprgeRaw_order
#print axioms C08_find_independent_of_defaults
#print axioms C08_fixed_is_difference
#print axioms C08_fixed_nil_of_same
#print axioms C08_fixed_count
#print axioms C08_fixed_sublist

end PyTRS
