/-
sec_within joins the leftover text in order and warns (C20); `cleanup_desc` never lengthens a text and a walk past
a section reference never stages the whole text (C11).
-/
import PyTRS.Props.C20
import PyTRS.Lemmas.Modes
import PyTRS.Lemmas.Walk
namespace PyTRS
open PyTRS.Obj PyTRS.Plss

/-! ## C20: `rebuild_sec_within` -/

/-- one step of the fold in `rebuild_sec_within` -/
def swFoldStep (n : Nat) (d : Str) (u : Nat × Str) : Str :=
  let cu := cleanupDesc u.2
  if cu.length ≥ n then (if u.1 == 0 then cu ++ S " " ++ d else d ++ S " " ++ cu) else d

theorem rebuildSecWithin_eq (t : Component) (unused : List (Nat × Str)) (n : Nat) :
    rebuildSecWithin [t] unused n =
      (if unused.foldl (swFoldStep n) t.desc != t.desc
        then [{ t with desc := unused.foldl (swFoldStep n) t.desc, secWithin := true }] else [t], []) := rfl

/-- with exactly one candidate tract, a leading leftover block (found before it: index 0) and a trailing one (index 1), both long enough after
    clean-up, the tract's description is lead, own text, trail joined by single blanks, in that order, and it is marked for a warning -/
theorem C20_secwithin_joins (t : Component) (lead trail : Str) (n : Nat)
    (hl : n ≤ (cleanupDesc lead).length) (ht : n ≤ (cleanupDesc trail).length) :
    rebuildSecWithin [t] [(0, lead), (1, trail)] n =
      ([{ t with desc := cleanupDesc lead ++ S " " ++ t.desc ++ S " " ++ cleanupDesc trail, secWithin := true }], []) := by
  rw [rebuildSecWithin_eq]
  have hd : [(0, lead), (1, trail)].foldl (swFoldStep n) t.desc =
      cleanupDesc lead ++ S " " ++ t.desc ++ S " " ++ cleanupDesc trail := by
    simp [swFoldStep, hl, ht]
  rw [hd]
  have hne : (cleanupDesc lead ++ S " " ++ t.desc ++ S " " ++ cleanupDesc trail != t.desc) = true := by
    rw [bne_iff_ne]
    intro h
    have := congrArg List.length h
    simp [S] at this
    omega
  rw [if_pos hne]

/-- the leading leftover blocks (found before the tract: index 0), cleaned up, those of reportable length, in order of appearance -/
def swLeads (unused : List (Nat × Str)) (n : Nat) : List Str :=
  ((unused.filter (fun u => u.1 == 0)).map (fun u => cleanupDesc u.2)).filter (fun s => n ≤ s.length)

/-- the later leftover blocks (index ≠ 0), cleaned up, those of reportable length, in order of appearance -/
def swTrails (unused : List (Nat × Str)) (n : Nat) : List Str :=
  ((unused.filter (fun u => !(u.1 == 0))).map (fun u => cleanupDesc u.2)).filter (fun s => n ≤ s.length)

/-- the fold in open form: every lead is put (with a blank) in front, every trail (with a blank) behind -/
theorem swFold_eq (n : Nat) (unused : List (Nat × Str)) (d : Str) :
    unused.foldl (swFoldStep n) d =
      (((swLeads unused n).reverse.map (· ++ S " ")).flatten ++ d) ++ ((swTrails unused n).map (S " " ++ ·)).flatten := by
  induction unused generalizing d with
  | nil => simp [swLeads, swTrails]
  | cons u us ih =>
    rw [List.foldl_cons, ih]
    unfold swFoldStep
    by_cases hlen : n ≤ (cleanupDesc u.2).length
    · by_cases h0 : u.1 = 0
      · simp [swLeads, swTrails, h0, hlen]
      · simp [swLeads, swTrails, h0, hlen]
    · by_cases h0 : u.1 = 0
      · simp [swLeads, swTrails, h0, hlen]
      · simp [swLeads, swTrails, h0, hlen]

theorem pyJoin_cons_ne (sep a : Str) (rest : List Str) (h : rest ≠ []) :
    pyJoin sep (a :: rest) = a ++ sep ++ pyJoin sep rest := by
  cases rest with
  | nil => exact absurd rfl h
  | cons b r => rfl

/-- `sep.join(a ++ [x] ++ b)` in open form -/
theorem pyJoin_mid (sep x : Str) (a b : List Str) :
    pyJoin sep (a ++ [x] ++ b) = ((a.map (· ++ sep)).flatten ++ x) ++ (b.map (sep ++ ·)).flatten := by
  induction a with
  | nil =>
    induction b generalizing x with
    | nil => simp [pyJoin]
    | cons y ys ih =>
      have := ih y
      simp only [List.nil_append, List.map_nil, List.flatten_nil, List.singleton_append] at this ⊢
      rw [pyJoin_cons_ne _ _ _ (by simp), this]
      simp
  | cons y ys ih =>
    cases hys : ys ++ [x] ++ b with
    | nil => simp at hys
    | cons z zs =>
      simp only [List.cons_append, hys] at ih ⊢
      rw [pyJoin_cons_ne _ _ _ (by simp), ih]
      simp

/-- general form: leading blocks (index 0) are prepended in reverse order of appearance, later blocks appended in order; short ones are
    dropped; the pieces are joined by single blanks, and the tract is marked iff at least one block was merged -/
theorem C20_secwithin_fold (t : Component) (unused : List (Nat × Str)) (n : Nat) :
    rebuildSecWithin [t] unused n =
      (if swLeads unused n = [] ∧ swTrails unused n = [] then [t]
       else [{ t with desc := pyJoin (S " ") ((swLeads unused n).reverse ++ [t.desc] ++ swTrails unused n), secWithin := true }], []) := by
  rw [rebuildSecWithin_eq, pyJoin_mid, ← swFold_eq]
  by_cases h : swLeads unused n = [] ∧ swTrails unused n = []
  · have hd : unused.foldl (swFoldStep n) t.desc = t.desc := by
      rw [swFold_eq, h.1, h.2]; simp
    simp [hd, h]
  · have hne : (unused.foldl (swFoldStep n) t.desc != t.desc) = true := by
      rw [bne_iff_ne]
      intro he
      have hlen := congrArg List.length he
      rw [swFold_eq] at hlen
      apply h
      simp only [List.length_append] at hlen
      constructor
      · cases hL : (swLeads unused n).reverse with
        | nil => simpa using hL
        | cons a as => rw [hL] at hlen; simp [S] at hlen; omega
      · cases hT : swTrails unused n with
        | nil => rfl
        | cons a as => rw [hT] at hlen; simp [S] at hlen; omega
    rw [if_pos hne, if_neg h]

/-- the loose form given in the task, as a corollary -/
theorem C20_secwithin_fold_loose (t : Component) (unused : List (Nat × Str)) (n : Nat) :
    ∃ d, rebuildSecWithin [t] unused n = ([{ t with desc := d, secWithin := decide (d ≠ t.desc) }], []) ∨
         (rebuildSecWithin [t] unused n = ([t], []) ∧ d = t.desc) := by
  rw [rebuildSecWithin_eq]
  by_cases h : unused.foldl (swFoldStep n) t.desc = t.desc
  · exact ⟨t.desc, Or.inr ⟨by simp [h], rfl⟩⟩
  · refine ⟨unused.foldl (swFoldStep n) t.desc, Or.inl ?_⟩
    simp [h]

/-! ## C20: the warning -/

theorem secWithinFlags_w (tracts : List TractObj) : ∀ (idxs : List Nat) (fl fl' : Tract.Flags),
    secWithinFlags tracts fl idxs = .ok fl' →
    fl.w <+: fl'.w ∧ ∀ i ∈ idxs, ∀ (ht : i < tracts.length),
      PyVal.str (S "sec_within<" ++ (tracts[i]).trs.trs ++ S ">") ∈ fl'.w := by
  intro idxs
  induction idxs with
  | nil =>
    intro fl fl' h
    simp only [secWithinFlags, Except.ok.injEq] at h
    subst h
    exact ⟨List.prefix_refl _, by simp⟩
  | cons i rest ih =>
    intro fl fl' h
    rw [secWithinFlags] at h
    cases hti : tracts[i]? with
    | none => rw [hti] at h; cases h
    | some t =>
      rw [hti] at h
      have ih' := ih _ _ h
      have hpre : fl.w <+: (addWFlag fl (S "sec_within<" ++ t.trs.trs ++ S ">") (quickDescShort t)).w := by
        simp [addWFlag]
      refine ⟨hpre.trans ih'.1, ?_⟩
      intro k hk hkt
      rcases List.mem_cons.mp hk with rfl | hk
      · have : tracts[k] = t := by
          rw [List.getElem?_eq_getElem hkt] at hti
          exact Option.some.inj hti
        rw [this]
        apply ih'.1.subset
        simp [addWFlag]
      · exact ih'.2 k hk hkt

set_option linter.unusedVariables false in
/-- every tract marked sec_within gets a `sec_within<trs>` warning (`hlen` is not needed) -/
theorem C20_secwithin_warning (tracts : List TractObj) (fl fl' : Tract.Flags) (specs : List (Str × Str × Bool))
    (hlen : tracts.length = specs.length) (h : secWithinFlags tracts fl (secWithinIndexes specs) = .ok fl') :
    fl.w <+: fl'.w ∧
    ∀ i (hi : i < specs.length) (ht : i < tracts.length), (specs[i]).2.2 = true →
      PyVal.str (S "sec_within<" ++ (tracts[i]).trs.trs ++ S ">") ∈ fl'.w := by
  have := secWithinFlags_w tracts _ _ _ h
  refine ⟨this.1, ?_⟩
  intro i hi ht hs
  apply this.2 i _ ht
  unfold secWithinIndexes
  rw [List.mem_filter]
  refine ⟨List.mem_range.mpr hi, ?_⟩
  rw [List.getElem?_eq_getElem hi]
  exact hs

/-! ## C11: `cleanup_desc` never lengthens -/

theorem lstripBy_length_le (p : Char → Bool) (s : Str) : (lstripBy p s).length ≤ s.length := by
  induction s with
  | nil => simp [lstripBy]
  | cons c t ih =>
    rw [lstripBy]
    split
    · simp only [List.length_cons]; omega
    · exact Nat.le_refl _

theorem rstripBy_length_le (p : Char → Bool) (s : Str) : (rstripBy p s).length ≤ s.length := by
  unfold rstripBy
  have := lstripBy_length_le p s.reverse
  simpa using this

theorem stripBy_length_le (p : Char → Bool) (s : Str) : (stripBy p s).length ≤ s.length := by
  unfold stripBy
  exact Nat.le_trans (rstripBy_length_le _ _) (lstripBy_length_le _ _)

theorem foldl_length_le {α : Type} (f : Str → α → Str) (hf : ∀ t a, (f t a).length ≤ t.length) (l : List α) (t : Str) :
    (l.foldl f t).length ≤ t.length := by
  induction l generalizing t with
  | nil => exact Nat.le_refl _
  | cons a as ih => exact Nat.le_trans (ih _) (hf t a)

theorem cleanupStep_length_le (t : Str) : (cleanupStep t).length ≤ t.length := by
  unfold cleanupStep
  refine Nat.le_trans (foldl_length_le _ ?_ _ _) (foldl_length_le _ ?_ _ _)
  · intro t cull
    split
    · simp only [List.length_take]; omega
    · exact Nat.le_refl _
  · intro t s
    split
    · exact lstripBy_length_le _ _
    · split
      · exact rstripBy_length_le _ _
      · exact stripBy_length_le _ _

theorem untilStable_length_le (f : Str → Str) (hf : ∀ t, (f t).length ≤ t.length) (n : Nat) (t r : Str)
    (h : Tract.untilStable f n t = some r) : r.length ≤ t.length := by
  induction n generalizing t with
  | zero => simp [Tract.untilStable] at h
  | succ k ih =>
    rw [Tract.untilStable] at h
    split at h
    · cases h; exact Nat.le_refl _
    · exact Nat.le_trans (ih _ h) (hf t)

/-- `cleanup_desc` never lengthens a text -/
theorem C11_cleanup_length_le (t : Str) : (cleanupDesc t).length ≤ t.length := by
  unfold cleanupDesc
  cases h : Tract.untilStable cleanupStep (t.length + 3) t with
  | none => exact Nat.le_refl _
  | some r => exact untilStable_length_le _ cleanupStep_length_le _ _ _ h

/-! ## C11: no staged block is the whole text -/

theorem slice_length_le (t : Str) (a b : Nat) : (slice t a b).length ≤ min b t.length - a := by
  unfold slice
  simp

theorem sorted_getElem_le (markers : List (Nat × Marker)) (hsorted : List.Pairwise (fun a b => a.1 ≤ b.1) markers)
    (i j : Nat) (hij : i ≤ j) (hj : j < markers.length) : (markers[i]!).1 ≤ (markers[j]!).1 := by
  rw [getElem!_pos markers i (by omega), getElem!_pos markers j hj]
  rcases Nat.lt_or_eq_of_le hij with h | h
  · exact (List.pairwise_iff_getElem.mp hsorted) i j (by omega) hj h
  · subst h; exact Nat.le_refl _

/-- the arithmetic core: a block between consecutive sorted markers is shorter than the text as soon as some marker pair of positive
    distance lies entirely before or entirely after it -/
theorem walk_block_shorter_core (txt : Str) (markers : List (Nat × Marker)) (i j k : Nat)
    (hsorted : List.Pairwise (fun a b => a.1 ≤ b.1) markers)
    (hin : ∀ m ∈ markers, m.1 ≤ txt.length)
    (hj : j < markers.length) (hk : k < markers.length) (hjk : (markers[j]!).1 < (markers[k]!).1) (hpos : k ≤ i ∨ i < j)
    (hi : i + 1 < markers.length) :
    (slice txt (markers[i]!).1 (markers[i+1]!).1).length < txt.length := by
  have hkin : (markers[k]!).1 ≤ txt.length := by
    rw [getElem!_pos markers k hk]; exact hin _ (List.getElem_mem hk)
  have hsl := slice_length_le txt (markers[i]!).1 (markers[i+1]!).1
  rcases hpos with h | h
  · have := sorted_getElem_le markers hsorted k i h (by omega)
    omega
  · have := sorted_getElem_le markers hsorted (i+1) j (by omega) hj
    omega

set_option linter.unusedVariables false in
/-- in a layout-specific walk a staged description is the clean-up of a block strictly inside the text as soon as the walk passed a
    section marker of positive width: no staged description can be the whole text -/
theorem C11_walk_block_shorter (txt layout : Str) (markers : List (Nat × Marker)) (i : Nat)
    (hsorted : List.Pairwise (fun a b => a.1 ≤ b.1) markers)
    (hin : ∀ m ∈ markers, m.1 ≤ txt.length)
    (hsec : ∃ j k, j < markers.length ∧ k < markers.length ∧ (markers[j]!).2 = .secStart ∧ (markers[k]!).2 = .secEnd ∧
                   (markers[j]!).1 < (markers[k]!).1 ∧ (k ≤ i ∨ i < j))
    (hi : i + 1 < markers.length) :
    (cleanupDesc (slice txt (markers[i]!).1 (markers[i+1]!).1)).length < txt.length := by
  obtain ⟨j, k, hj, hk, _, _, hjk, hpos⟩ := hsec
  exact Nat.lt_of_le_of_lt (C11_cleanup_length_le _)
    (walk_block_shorter_core txt markers i j k hsorted hin hj hk hjk hpos hi)

/-- in the walk's own terms (`blockAt`, as used by `C04_walk_partition`): the staged description of block `i` differs from the whole
    text, and from its clean-up only by being shorter than the text -/
theorem C11_walk_block_ne_text (txt layout : Str) (markers : List (Nat × Marker)) (i : Nat)
    (hsorted : List.Pairwise (fun a b => a.1 ≤ b.1) markers)
    (hin : ∀ m ∈ markers, m.1 ≤ txt.length)
    (hsec : ∃ j k, j < markers.length ∧ k < markers.length ∧ (markers[j]!).2 = .secStart ∧ (markers[k]!).2 = .secEnd ∧
                   (markers[j]!).1 < (markers[k]!).1 ∧ (k ≤ i ∨ i < j))
    (hi : i + 1 < markers.length) :
    cleanupDesc (blockAt txt markers i) ≠ txt := by
  intro h
  have := C11_walk_block_shorter txt layout markers i hsorted hin hsec hi
  unfold blockAt at h
  rw [Nat.min_eq_right (by omega : i + 1 ≤ markers.length - 1)] at h
  rw [h] at this
  exact Nat.lt_irrefl _ this

end PyTRS

#print axioms PyTRS.C20_secwithin_joins
#print axioms PyTRS.C20_secwithin_fold
#print axioms PyTRS.C20_secwithin_fold_loose
#print axioms PyTRS.C20_secwithin_warning
#print axioms PyTRS.C11_cleanup_length_le
#print axioms PyTRS.C11_walk_block_shorter
#print axioms PyTRS.C11_walk_block_ne_text
