/-
C12 (strictness of `trs_to_dict`): a regex-free recogniser for the standard Twp/Rge/Sec form and the proof that
`TRS.trsToDict` is exactly "recognise, then fill in the dict".

* `recognise l` parses `l` deterministically (no backtracking): a Twp component, a Rge component, an optional
  section, end of input.  It never mentions `Rx`.
* `fullmatch_iff_recognise` : `unpacker.rx.fullmatch l` succeeds iff `recognise l` does (all `List Char`, all of
  Unicode `\d` - no ASCII hypothesis).
* `trsToDict_reject`        : unrecognised input gives `errDict`.
* `trsToDict_accept`        : recognised input gives the dict computed field by field from the components.

Proof route: `Rx.m_eq_findSome` turns `fullmatch` into `findSome?` over the list of successes `Rx.all`; for each
sub-pattern the list of successes is computed in closed form (`…_all` lemmas); determinism of the grammar shows up as
"the list has at most one element".
-/
import PyTRS.Model.TRS
import PyTRS.Lemmas.RxAll
namespace PyTRS
open TRS

/-! ## the recogniser (specification level; no regular expressions) -/

/-- `\d` of the pattern: every Unicode decimal digit (`Gen.cs_940665b9` is the translated character set) -/
def isDigit (c : Char) : Bool := Gen.cs_940665b9.mem c

/-- `[nsNS]` -/
def nsDirs : List Char := ['N', 'S', 'n', 's']
/-- `[ewEW]` -/
def ewDirs : List Char := ['E', 'W', 'e', 'w']

/-- 1 to 3 digits (greedy) followed by a direction letter: (digits, letter, rest) -/
def parseNum (dirs : List Char) : List Char → Option (List Char × Char × List Char)
  | c1 :: c2 :: t2 =>
    if isDigit c1 then
      if isDigit c2 then
        match t2 with
        | c3 :: t3 =>
          if isDigit c3 then
            match t3 with
            | c4 :: t4 => if dirs.contains c4 then some ([c1, c2, c3], c4, t4) else none
            | [] => none
          else if dirs.contains c3 then some ([c1, c2], c3, t3) else none
        | [] => none
      else if dirs.contains c2 then some ([c1], c2, t2) else none
    else none
  | _ => none

/-- strip the literal prefix `p` -/
def stripLit : List Char → List Char → Option (List Char)
  | [], l => some l
  | _ :: _, [] => none
  | a :: p, c :: l => if c = a then stripLit p l else none

/-- parse one Twp or Rge component at the head of `l`: (component text, number digits and direction?, rest):
    1 to 3 digits followed by a direction letter from `dirs`, or the literal "xxxz", or "___z" -/
def parseTR (dirs : List Char) (l : List Char) : Option (List Char × Option (List Char × Char) × List Char) :=
  match parseNum dirs l with
  | some (d, c, t) => some (d ++ [c], some (d, c), t)
  | none =>
    match stripLit ['x', 'x', 'x', 'z'] l with
    | some t => some (['x', 'x', 'x', 'z'], none, t)
    | none =>
      match stripLit ['_', '_', '_', 'z'] l with
      | some t => some (['_', '_', '_', 'z'], none, t)
      | none => none

/-- `\d{2}|xx|__` -/
def isSecText (c1 c2 : Char) : Bool :=
  (isDigit c1 && isDigit c2) || (c1 == 'x' && c2 == 'x') || (c1 == '_' && c2 == '_')

/-- the section: (text, rest) -/
def parseSec : List Char → Option (List Char × List Char)
  | c1 :: c2 :: t => if isSecText c1 c2 then some ([c1, c2], t) else none
  | _ => none

/-- the recognised components -/
structure TrsParts where
  twp : List Char                          -- text of the Twp component
  twpNum : Option (List Char × Char)       -- its digits and N/S letter, when it is a number
  rge : List Char
  rgeNum : Option (List Char × Char)
  sec : Option (List Char)                 -- `none`: no section present
  deriving DecidableEq, Repr

/-- the whole standard form: Twp, Rge, optional two-digit / "xx" / "__" section, then end of input -/
def recognise (l : List Char) : Option TrsParts :=
  match parseTR nsDirs l with
  | none => none
  | some (tw, ti, r1) =>
    match parseTR ewDirs r1 with
    | none => none
    | some (rg, ri, r2) =>
      match r2 with
      | [] => some ⟨tw, ti, rg, ri, none⟩
      | _ :: _ =>
        match parseSec r2 with
        | some (sc, []) => some ⟨tw, ti, rg, ri, some sc⟩
        | _ => none

/-- the text the components were read from -/
def TrsParts.text (c : TrsParts) : List Char := c.twp ++ c.rge ++ c.sec.getD []

/-- "___z" -/
def undefTR : List Char := ['_', '_', '_', 'z']

/-- the `twp` / `rge` entry: the component text when it is a number or "___z"; `err` ("XXXz") for "xxxz" -/
def trText (err : Str) (w : List Char) (info : Option (List Char × Char)) : Str :=
  if info.isSome || w == undefTR then w else err

/-- the `sec` entry: the two-character text, except that "xx" and a missing section give `ERR_SEC` ("XX") -/
def secText : Option (List Char) → Str
  | none => S Gen.ERR_SEC
  | some s => if s == ['x', 'x'] then S Gen.ERR_SEC else s

/-- the dict `trs_to_dict` returns for recognised components -/
def dictOf (c : TrsParts) : TrsDict :=
  { trs := trText (S Gen.ERR_TWP) c.twp c.twpNum ++ trText (S Gen.ERR_RGE) c.rge c.rgeNum ++ secText c.sec,
    twp := trText (S Gen.ERR_TWP) c.twp c.twpNum,
    twpNum := c.twpNum.bind (fun x => pyInt? x.1),
    twpNs := c.twpNum.map (fun x => [x.2]),
    twpUndef := c.twpNum.isNone && c.twp == undefTR,
    rge := trText (S Gen.ERR_RGE) c.rge c.rgeNum,
    rgeNum := c.rgeNum.bind (fun x => pyInt? x.1),
    rgeEw := c.rgeNum.map (fun x => [x.2]),
    rgeUndef := c.rgeNum.isNone && c.rge == undefTR,
    sec := some (secText c.sec),
    secNum := c.sec.bind pyInt?,
    secUndef := c.sec == some ['_', '_'] }

/-- what `recognise` guarantees about its result (a declarative reading of the grammar) -/
structure TrsParts.Good (c : TrsParts) : Prop where
  twpNum : ∀ d ch, c.twpNum = some (d, ch) →
    c.twp = d ++ [ch] ∧ d ≠ [] ∧ d.length ≤ 3 ∧ (∀ x ∈ d, isDigit x = true) ∧ ch ∈ nsDirs
  twpLit : c.twpNum = none → c.twp = ['x', 'x', 'x', 'z'] ∨ c.twp = undefTR
  rgeNum : ∀ d ch, c.rgeNum = some (d, ch) →
    c.rge = d ++ [ch] ∧ d ≠ [] ∧ d.length ≤ 3 ∧ (∀ x ∈ d, isDigit x = true) ∧ ch ∈ ewDirs
  rgeLit : c.rgeNum = none → c.rge = ['x', 'x', 'x', 'z'] ∨ c.rge = undefTR
  sec : ∀ s, c.sec = some s → ∃ a b, s = [a, b] ∧ isSecText a b = true

namespace TrsRecog

/-! ## facts about the concrete character sets -/

theorem single_mem (a : Nat) (d : Char) (hd : d.toNat = a) (c : Char) :
    CharSet.mem [(a, a)] c = decide (c = d) := by
  subst hd
  simp only [CharSet.mem, List.any_cons, List.any_nil, Bool.or_false]
  rw [Bool.eq_iff_iff]
  simp only [Bool.and_eq_true, decide_eq_true_eq]
  rw [← Char.toNat_inj]
  omega

theorem cs77_mem (c : Char) : Gen.cs_06d53754.mem c = decide (c = 'x') := single_mem 120 'x' rfl c
theorem cs78_mem (c : Char) : Gen.cs_f89663f3.mem c = decide (c = 'z') := single_mem 122 'z' rfl c
theorem cs79_mem (c : Char) : Gen.cs_cb51335d.mem c = decide (c = '_') := single_mem 95 '_' rfl c

theorem four_mem (a1 a2 a3 a4 : Nat) (d1 d2 d3 d4 : Char) (h1 : d1.toNat = a1) (h2 : d2.toNat = a2)
    (h3 : d3.toNat = a3) (h4 : d4.toNat = a4) (c : Char) :
    CharSet.mem [(a1, a1), (a2, a2), (a3, a3), (a4, a4)] c = decide (c ∈ [d1, d2, d3, d4]) := by
  subst h1 h2 h3 h4
  simp only [CharSet.mem, List.any_cons, List.any_nil, Bool.or_false]
  rw [Bool.eq_iff_iff]
  simp only [Bool.and_eq_true, Bool.or_eq_true, decide_eq_true_eq, List.mem_cons, List.not_mem_nil, or_false]
  rw [← Char.toNat_inj, ← Char.toNat_inj, ← Char.toNat_inj, ← Char.toNat_inj]
  omega

theorem cs76_mem (c : Char) : Gen.cs_acfaf790.mem c = decide (c ∈ nsDirs) :=
  four_mem 78 83 110 115 _ _ _ _ rfl rfl rfl rfl c
theorem cs80_mem (c : Char) : Gen.cs_4dcd5a8d.mem c = decide (c ∈ ewDirs) :=
  four_mem 69 87 101 119 _ _ _ _ rfl rfl rfl rfl c

theorem isDigit_x : isDigit 'x' = false := by decide
theorem isDigit_us : isDigit '_' = false := by decide
theorem isDigit_minus : isDigit '-' = false := by decide
theorem isDigit_plus : isDigit '+' = false := by decide

theorem ns_not_digit (c : Char) (h : isDigit c = true) : c ∉ nsDirs := by
  intro hc
  simp only [nsDirs, List.mem_cons, List.not_mem_nil, or_false] at hc
  rcases hc with rfl | rfl | rfl | rfl <;> revert h <;> decide

theorem ew_not_digit (c : Char) (h : isDigit c = true) : c ∉ ewDirs := by
  intro hc
  simp only [ewDirs, List.mem_cons, List.not_mem_nil, or_false] at hc
  rcases hc with rfl | rfl | rfl | rfl <;> revert h <;> decide

/-! ### every `\d` character is accepted by `int()` and is not white space -/

def okDigitNat (n : Nat) : Bool :=
  (Nat.ble 48 n && Nat.ble n 57) ||
    (Nat.ble 128 n && Gen.PY_DIGIT_ZEROS.any (fun z => Nat.ble z n && Nat.ble n (z + 9)))

theorem ble_dec (a b : Nat) : Nat.ble a b = decide (a ≤ b) := by
  rw [Bool.eq_iff_iff]; simp

def okRange (r : Nat × Nat) : Bool := (List.range' r.1 (r.2 + 1 - r.1)).all okDigitNat

theorem cs1_okRange : Gen.cs_940665b9.all okRange = true := by decide +kernel

theorem cs1_not_space :
    Gen.cs_940665b9.all (fun r => Gen.PY_SPACE.all (fun q => decide (r.2 < q.1) || decide (q.2 < r.1))) = true := by
  decide +kernel

theorem isDigit_ok {c : Char} (h : isDigit c = true) : okDigitNat c.toNat = true := by
  unfold isDigit CharSet.mem at h
  rw [List.any_eq_true] at h
  obtain ⟨r, hr, hb⟩ := h
  have h1 := List.all_eq_true.mp cs1_okRange r hr
  unfold okRange at h1
  rw [List.all_eq_true] at h1
  apply h1
  simp only [Bool.and_eq_true, decide_eq_true_eq] at hb
  rw [List.mem_range'_1]
  omega

theorem isDigit_not_space {c : Char} (h : isDigit c = true) : pyIsSpace c = false := by
  unfold isDigit CharSet.mem at h
  rw [List.any_eq_true] at h
  obtain ⟨r, hr, hb⟩ := h
  have h1 := List.all_eq_true.mp cs1_not_space r hr
  rw [List.all_eq_true] at h1
  cases hs : pyIsSpace c with
  | false => rfl
  | true =>
    unfold pyIsSpace at hs
    rw [List.any_eq_true] at hs
    obtain ⟨q, hq, hqb⟩ := hs
    have h2 := h1 q hq
    simp only [Bool.and_eq_true, Bool.or_eq_true, decide_eq_true_eq] at hb hqb h2
    omega

theorem isDigit_decimal {c : Char} (h : isDigit c = true) : (decimalValue? c).isSome = true := by
  have h1 := isDigit_ok h
  unfold okDigitNat at h1
  simp only [ble_dec] at h1
  unfold decimalValue?
  simp only []
  by_cases ha : (48 ≤ c.toNat && c.toNat ≤ 57) = true
  · simp [ha]
  · simp only [ha, Bool.false_or, Bool.and_eq_true, decide_eq_true_eq] at h1
    have hlt : ¬ c.toNat < 128 := by omega
    simp only [ha, hlt]
    have : (Gen.PY_DIGIT_ZEROS.find? (fun z => decide (z ≤ c.toNat) && decide (c.toNat ≤ z + 9))).isSome = true := by
      rw [List.find?_isSome]
      have := h1.2
      rw [List.any_eq_true] at this
      exact this
    cases hf : Gen.PY_DIGIT_ZEROS.find? (fun z => decide (z ≤ c.toNat) && decide (c.toNat ≤ z + 9)) with
    | none => rw [hf] at this; cases this
    | some z => simp

theorem pyStrip_two {c1 c2 : Char} (h1 : pyIsSpace c1 = false) (h2 : pyIsSpace c2 = false) :
    pyStrip [c1, c2] = [c1, c2] := by
  simp [pyStrip, stripBy, rstripBy, lstripBy, h1, h2]

/-- `int()` accepts every two-`\d` string -/
theorem pyInt_two_digits {c1 c2 : Char} (h1 : isDigit c1 = true) (h2 : isDigit c2 = true) :
    (pyInt? [c1, c2]).isSome = true := by
  have hm : c1 ≠ '-' := by rintro rfl; rw [isDigit_minus] at h1; cases h1
  have hp : c1 ≠ '+' := by rintro rfl; rw [isDigit_plus] at h1; cases h1
  have hu : c2 ≠ '_' := by rintro rfl; rw [isDigit_us] at h2; cases h2
  obtain ⟨d1, hd1⟩ := Option.isSome_iff_exists.mp (isDigit_decimal h1)
  obtain ⟨d2, hd2⟩ := Option.isSome_iff_exists.mp (isDigit_decimal h2)
  have hdv : digitsVal? [c1, c2] = some (d1 * 10 + d2) := by
    simp [digitsVal?, digitsVal?.go, hd1, hd2, hu]
  unfold pyInt?
  rw [pyStrip_two (isDigit_not_space h1) (isDigit_not_space h2)]
  dsimp only
  split
  · rename_i r heq; simp at heq; exact absurd heq.1 hm
  · rename_i r heq; simp at heq; exact absurd heq.1 hp
  · simp [hdv]

theorem pyInt_xx : pyInt? ['x', 'x'] = none := by decide
theorem pyInt_uu : pyInt? ['_', '_'] = none := by decide

/-! ## lists of successes of the sub-patterns -/

theorem all_grp (i r s) :
    (Rx.grp i r).all s = (r.all s).map (fun s' => { s' with caps := (i, s.pos, s'.pos) :: s'.caps }) := rfl
theorem all_seq (a b s) : (Rx.seq a b).all s = (a.all s).flatMap b.all := rfl
theorem all_alt (a b s) : (Rx.alt a b).all s = a.all s ++ b.all s := rfl
theorem all_chr (cs p l n c) : (Rx.chr cs).all ⟨p, l, n, c⟩ =
    match l with
    | x :: t => if cs.mem x then [⟨some x, t, n + 1, c⟩] else []
    | [] => [] := rfl

/-- `(r)?` -/
theorem rep01_all (r : Rx) (s : St) : (Rx.rep r 0 (some 1)).all s = r.all s ++ [s] := by
  simp [Rx.all, repAll, canMore]

/-- states reachable by consuming 3, 2, 1 digits (the backtracking order of `\d{1,3}`) -/
def digStates (l : List Char) (n : Nat) (cs : List (Nat × Nat × Nat)) : List St :=
  match l with
  | [] => []
  | c1 :: t1 => if isDigit c1 then
      (match t1 with
       | [] => []
       | c2 :: t2 => if isDigit c2 then
          (match t2 with
           | [] => []
           | c3 :: t3 => if isDigit c3 then [⟨some c3, t3, n+3, cs⟩] else []) ++ [⟨some c2, t2, n+2, cs⟩]
          else []) ++ [⟨some c1, t1, n+1, cs⟩]
      else []

/-- `\d{1,3}` -/
theorem digits13_all (p l n cs) :
    (Rx.rep (.chr Gen.cs_940665b9) 1 (some 3)).all ⟨p, l, n, cs⟩ = digStates l n cs := by
  unfold digStates isDigit
  rcases l with _ | ⟨c1, t1⟩
  · simp [Rx.all, repAll]
  cases h1 : Gen.cs_940665b9.mem c1
  · simp [Rx.all, repAll, h1]
  rcases t1 with _ | ⟨c2, t2⟩
  · simp [Rx.all, repAll, h1, canMore]
  cases h2 : Gen.cs_940665b9.mem c2
  · simp [Rx.all, repAll, h1, h2, canMore]
  rcases t2 with _ | ⟨c3, t3⟩
  · simp [Rx.all, repAll, h1, h2, canMore]
  cases h3 : Gen.cs_940665b9.mem c3
  · simp [Rx.all, repAll, h1, h2, h3, canMore]
  simp [Rx.all, repAll, h1, h2, h3, canMore]

/-- `\d{2}` -/
theorem digits22_all (p l n cs) :
    (Rx.rep (.chr Gen.cs_940665b9) 2 (some 2)).all ⟨p, l, n, cs⟩ =
      match l with
      | c1 :: c2 :: t => if isDigit c1 && isDigit c2 then [⟨some c2, t, n + 2, cs⟩] else []
      | _ => [] := by
  unfold isDigit
  rcases l with _ | ⟨c1, _ | ⟨c2, t⟩⟩
  · simp [Rx.all, repAll]
  · cases h1 : Gen.cs_940665b9.mem c1 <;> simp [Rx.all, repAll, h1]
  · cases h1 : Gen.cs_940665b9.mem c1 <;> cases h2 : Gen.cs_940665b9.mem c2 <;> simp [Rx.all, repAll, h1, h2, canMore]

/-- a pattern for exactly two digits: `\d{2}` or any equivalent spelling (e.g. `\d\d`).  The theorems below depend on the
section part of the regenerated pattern only through this property, so that a behaviour-preserving respelling of
`TRS._SEC_RGX` does not break them. -/
def TwoDigits (dd : Rx) : Prop :=
  ∀ p l n cs, dd.all ⟨p, l, n, cs⟩ =
    match l with
    | c1 :: c2 :: t => if isDigit c1 && isDigit c2 then [⟨some c2, t, n + 2, cs⟩] else []
    | _ => []

theorem twoDigits_rep : TwoDigits (.rep (.chr Gen.cs_940665b9) 2 (some 2)) := digits22_all

/-- `\d\d` -/
theorem twoDigits_seq : TwoDigits (.seq (.chr Gen.cs_940665b9) (.chr Gen.cs_940665b9)) := by
  intro p l n cs
  unfold isDigit
  rcases l with _ | ⟨c1, _ | ⟨c2, t⟩⟩
  · simp [Rx.all]
  · cases h1 : Gen.cs_940665b9.mem c1 <;> simp [Rx.all, h1]
  · cases h1 : Gen.cs_940665b9.mem c1 <;> cases h2 : Gen.cs_940665b9.mem c2 <;> simp [Rx.all, h1, h2]

/-- `(?P<g2>(?P<g3>\d{1,3})(?P<g4>[dirs]))` -/
def numRx (g2 g3 g4 : Nat) (dcs : CharSet) : Rx :=
  .grp g2 (.seq (.grp g3 (.rep (.chr Gen.cs_940665b9) 1 (some 3))) (.grp g4 (.chr dcs)))

theorem numRx_all (g2 g3 g4 : Nat) (dcs : CharSet) (dirs : List Char)
    (hd : ∀ c, dcs.mem c = decide (c ∈ dirs)) (hdis : ∀ c, isDigit c = true → c ∉ dirs)
    (p l n cs) :
    (numRx g2 g3 g4 dcs).all ⟨p, l, n, cs⟩ =
      match parseNum dirs l with
      | none => []
      | some (d, c, t) => [⟨some c, t, n + d.length + 1,
          (g2, n, n + d.length + 1) :: (g4, n + d.length, n + d.length + 1) :: (g3, n, n + d.length) :: cs⟩] := by
  simp only [numRx, all_grp, all_seq, digits13_all]
  unfold digStates parseNum
  rcases l with _ | ⟨c1, t1⟩
  · simp
  cases h1 : isDigit c1
  · rcases t1 with _ | ⟨c2, t2⟩ <;> simp [h1]
  rcases t1 with _ | ⟨c2, t2⟩
  · simp [all_grp, all_chr, h1]
  cases h2 : isDigit c2
  · by_cases h2' : c2 ∈ dirs <;> simp [all_grp, all_chr, h1, h2, hd, h2']
  have hn2 := hdis _ h2
  rcases t2 with _ | ⟨c3, t3⟩
  · simp [all_grp, all_chr, h1, h2, hd, hn2]
  cases h3 : isDigit c3
  · by_cases h3' : c3 ∈ dirs <;> simp [all_grp, all_chr, h1, h2, h3, hd, h3', hn2]
  have hn3 := hdis _ h3
  rcases t3 with _ | ⟨c4, t4⟩
  · simp [all_grp, all_chr, h1, h2, h3, hd, hn2, hn3]
  by_cases h4' : c4 ∈ dirs <;> simp [all_grp, all_chr, h1, h2, h3, hd, hn2, hn3, h4']

/-- a four-character literal `aaab` -/
def lit4Rx (A B : CharSet) : Rx := .seq (.chr A) (.seq (.chr A) (.seq (.chr A) (.chr B)))

theorem lit4_all (A B : CharSet) (a b : Char) (hA : ∀ c, A.mem c = decide (c = a))
    (hB : ∀ c, B.mem c = decide (c = b)) (p l n cs) :
    (lit4Rx A B).all ⟨p, l, n, cs⟩ =
      match stripLit [a, a, a, b] l with
      | some t => [⟨some b, t, n + 4, cs⟩]
      | none => [] := by
  simp only [lit4Rx, all_seq]
  rcases l with _ | ⟨c1, _ | ⟨c2, _ | ⟨c3, _ | ⟨c4, t⟩⟩⟩⟩
  · simp [all_chr, stripLit]
  · by_cases h1 : c1 = a <;> simp [all_chr, all_seq, stripLit, hA, h1]
  · by_cases h1 : c1 = a <;> by_cases h2 : c2 = a <;> simp [all_chr, all_seq, stripLit, hA, h1, h2]
  · by_cases h1 : c1 = a <;> by_cases h2 : c2 = a <;> by_cases h3 : c3 = a <;>
      simp [all_chr, all_seq, stripLit, hA, h1, h2, h3]
  · by_cases h1 : c1 = a <;> by_cases h2 : c2 = a <;> by_cases h3 : c3 = a <;> by_cases h4 : c4 = b <;>
      simp [all_chr, all_seq, stripLit, hA, hB, h1, h2, h3, h4]

theorem parseNum_head {dirs l r} (h : parseNum dirs l = some r) : ∃ c t, l = c :: t ∧ isDigit c = true := by
  unfold parseNum at h
  rcases l with _ | ⟨c1, _ | ⟨c2, t2⟩⟩
  · simp at h
  · simp at h
  · cases h1 : isDigit c1
    · simp [h1] at h
    · exact ⟨c1, _, rfl, h1⟩

theorem stripLit_head {a p l t} (h : stripLit (a :: p) l = some t) : ∃ t', l = a :: t' := by
  rcases l with _ | ⟨c, l⟩
  · simp [stripLit] at h
  · by_cases hc : c = a
    · exact ⟨l, by rw [hc]⟩
    · simp [stripLit, hc] at h

/-- the captures a Twp/Rge component leaves behind (newest first) -/
def trCaps (g1 g2 g3 g4 n : Nat) (w : List Char) (info : Option (List Char × Char)) : List (Nat × Nat × Nat) :=
  (g1, n, n + w.length) ::
    (match info with
     | some (d, _) => [(g2, n, n + w.length), (g4, n + d.length, n + d.length + 1), (g3, n, n + d.length)]
     | none => [])

/-- `(?P<g1>((?P<g3>\d{1,3})(?P<g4>[dirs]))|xxxz|___z)` -/
def trRx (g1 g2 g3 g4 : Nat) (dcs : CharSet) : Rx :=
  .grp g1 (.alt (numRx g2 g3 g4 dcs) (.alt (lit4Rx Gen.cs_06d53754 Gen.cs_f89663f3) (lit4Rx Gen.cs_cb51335d Gen.cs_f89663f3)))

theorem trRx_all (g1 g2 g3 g4 : Nat) (dcs : CharSet) (dirs : List Char)
    (hd : ∀ c, dcs.mem c = decide (c ∈ dirs)) (hdis : ∀ c, isDigit c = true → c ∉ dirs)
    (p l n cs) :
    (trRx g1 g2 g3 g4 dcs).all ⟨p, l, n, cs⟩ =
      match parseTR dirs l with
      | none => []
      | some (w, info, t) => [⟨w.getLast?, t, n + w.length, trCaps g1 g2 g3 g4 n w info ++ cs⟩] := by
  simp only [trRx, all_grp, all_alt, numRx_all g2 g3 g4 dcs dirs hd hdis,
    lit4_all _ _ 'x' 'z' cs77_mem cs78_mem, lit4_all _ _ '_' 'z' cs79_mem cs78_mem]
  unfold parseTR
  cases hnum : parseNum dirs l with
  | some r =>
    obtain ⟨d, c, t⟩ := r
    obtain ⟨c1, t1, rfl, h1⟩ := parseNum_head hnum
    have hx : c1 ≠ 'x' := by rintro rfl; rw [isDigit_x] at h1; cases h1
    have hu : c1 ≠ '_' := by rintro rfl; rw [isDigit_us] at h1; cases h1
    simp [stripLit, hx, hu, trCaps, Nat.add_assoc]
  | none =>
    cases hx : stripLit ['x', 'x', 'x', 'z'] l with
    | some t =>
      obtain ⟨t', rfl⟩ := stripLit_head hx
      simp [stripLit, trCaps]
    | none =>
      cases hu : stripLit ['_', '_', '_', 'z'] l with
      | some t => simp [trCaps]
      | none => simp

/-- `(?P<sec>\d{2}|xx|__)?` -/
def secRxOf (dd : Rx) : Rx :=
  .rep (.grp 9 (.alt dd
    (.alt (.seq (.chr Gen.cs_06d53754) (.chr Gen.cs_06d53754)) (.seq (.chr Gen.cs_cb51335d) (.chr Gen.cs_cb51335d))))) 0 (some 1)

def secRx : Rx := secRxOf (.rep (.chr Gen.cs_940665b9) 2 (some 2))

theorem secRxOf_all (dd : Rx) (hdd : TwoDigits dd) (p l n cs) :
    (secRxOf dd).all ⟨p, l, n, cs⟩ =
      (match parseSec l with
       | some (w, t) => [⟨w.getLast?, t, n + 2, (9, n, n + 2) :: cs⟩]
       | none => []) ++ [⟨p, l, n, cs⟩] := by
  simp only [secRxOf, rep01_all, all_grp, all_alt, hdd p l n cs]
  congr 1
  unfold parseSec isSecText
  rcases l with _ | ⟨c1, _ | ⟨c2, t⟩⟩
  · simp [all_seq, all_chr]
  · by_cases hx : c1 = 'x' <;> by_cases hu : c1 = '_' <;> simp [all_seq, all_chr, cs77_mem, cs79_mem, hx, hu]
  · cases h1 : isDigit c1
    · by_cases hx1 : c1 = 'x'
      · subst hx1
        by_cases hx2 : c2 = 'x'
        · subst hx2; simp [all_seq, all_chr, cs77_mem, cs79_mem, isDigit_x]
        · simp [all_seq, all_chr, cs77_mem, cs79_mem, isDigit_x, hx2]
      · by_cases hu1 : c1 = '_'
        · subst hu1
          by_cases hu2 : c2 = '_'
          · subst hu2; simp [all_seq, all_chr, cs77_mem, cs79_mem, isDigit_us]
          · simp [all_seq, all_chr, cs77_mem, cs79_mem, isDigit_us, hu2]
        · simp [all_seq, all_chr, cs77_mem, cs79_mem, h1, hx1, hu1]
    · have hx : c1 ≠ 'x' := by rintro rfl; rw [isDigit_x] at h1; cases h1
      have hu : c1 ≠ '_' := by rintro rfl; rw [isDigit_us] at h1; cases h1
      cases h2 : isDigit c2 <;> simp [all_seq, all_chr, cs77_mem, cs79_mem, h1, h2, hx, hu]

/-- the translated pattern is the three components in sequence -/
theorem secRx_all (p l n cs) :
    secRx.all ⟨p, l, n, cs⟩ =
      (match parseSec l with
       | some (w, t) => [⟨w.getLast?, t, n + 2, (9, n, n + 2) :: cs⟩]
       | none => []) ++ [⟨p, l, n, cs⟩] := secRxOf_all _ twoDigits_rep p l n cs

/-- the translated pattern is the three components in sequence; the two-digit section may be spelled `\d{2}` or `\d\d` -/
theorem regex_eq : ∃ dd, TwoDigits dd ∧ Gen.trs_unpacker_regex =
    .seq (trRx 1 2 3 4 Gen.cs_acfaf790) (.seq (trRx 5 6 7 8 Gen.cs_4dcd5a8d) (secRxOf dd)) := by
  first
  | exact ⟨_, twoDigits_rep, rfl⟩
  | exact ⟨_, twoDigits_seq, rfl⟩

/-! ## `fullmatch` in closed form -/

/-- the match object `fullmatch` returns for recognised components -/
def matchOf (c : TrsParts) : Match :=
  ⟨0, c.twp.length + c.rge.length + (match c.sec with | some _ => 2 | none => 0),
    (match c.sec with
     | some _ => [(9, c.twp.length + c.rge.length, c.twp.length + c.rge.length + 2)]
     | none => []) ++ trCaps 5 6 7 8 c.twp.length c.rge c.rgeNum ++ trCaps 1 2 3 4 0 c.twp c.twpNum⟩

theorem fullmatch_eq (l : List Char) : unpacker.rx.fullmatch l = (recognise l).map matchOf := by
  unfold Rx.fullmatch recognise
  rw [Rx.m_eq_findSome]
  show List.findSome? _ (Gen.trs_unpacker_regex.all _) = _
  obtain ⟨dd, hdd, hrx⟩ := regex_eq
  rw [hrx, all_seq, trRx_all 1 2 3 4 Gen.cs_acfaf790 nsDirs cs76_mem ns_not_digit]
  cases h1 : parseTR nsDirs l with
  | none => simp
  | some r1 =>
    obtain ⟨tw, ti, l1⟩ := r1
    simp only [List.flatMap_cons, List.flatMap_nil, List.append_nil]
    rw [all_seq, trRx_all 5 6 7 8 Gen.cs_4dcd5a8d ewDirs cs80_mem ew_not_digit]
    cases h2 : parseTR ewDirs l1 with
    | none => simp
    | some r2 =>
      obtain ⟨rg, ri, l2⟩ := r2
      simp only [List.flatMap_cons, List.flatMap_nil, List.append_nil]
      rw [secRxOf_all dd hdd]
      rcases l2 with _ | ⟨c, l2'⟩
      · simp [parseSec, matchOf]
      · cases h3 : parseSec (c :: l2') with
        | none => simp
        | some r3 =>
          obtain ⟨sc, l3⟩ := r3
          rcases l3 with _ | ⟨c', l3'⟩
          · simp [matchOf]
          · simp

/-! ## soundness of the recogniser: the shape of what it returns -/

theorem stripLit_sound {p l t} (h : stripLit p l = some t) : l = p ++ t := by
  induction p generalizing l with
  | nil => simp [stripLit] at h; simp [h]
  | cons a p ih =>
    rcases l with _ | ⟨c, l⟩
    · simp [stripLit] at h
    · by_cases hc : c = a
      · simp [stripLit, hc] at h
        simp [hc, ih h]
      · simp [stripLit, hc] at h

theorem parseNum_sound {dirs l d ch t} (h : parseNum dirs l = some (d, ch, t)) :
    l = d ++ ch :: t ∧ d ≠ [] ∧ d.length ≤ 3 ∧ (∀ x ∈ d, isDigit x = true) ∧ ch ∈ dirs := by
  unfold parseNum at h
  rcases l with _ | ⟨c1, _ | ⟨c2, t2⟩⟩
  · simp at h
  · simp at h
  · cases h1 : isDigit c1
    · simp [h1] at h
    cases h2 : isDigit c2
    · by_cases hd : c2 ∈ dirs
      · simp [h1, h2, hd] at h
        obtain ⟨rfl, rfl, rfl⟩ := h
        simp [h1, hd]
      · simp [h1, h2, hd] at h
    rcases t2 with _ | ⟨c3, t3⟩
    · simp [h1, h2] at h
    cases h3 : isDigit c3
    · by_cases hd : c3 ∈ dirs
      · simp [h1, h2, h3, hd] at h
        obtain ⟨rfl, rfl, rfl⟩ := h
        simp [h1, h2, hd]
      · simp [h1, h2, h3, hd] at h
    rcases t3 with _ | ⟨c4, t4⟩
    · simp [h1, h2, h3] at h
    by_cases hd : c4 ∈ dirs
    · simp [h1, h2, h3, hd] at h
      obtain ⟨rfl, rfl, rfl⟩ := h
      simp [h1, h2, h3, hd]
    · simp [h1, h2, h3, hd] at h

theorem parseTR_sound {dirs l w info t} (h : parseTR dirs l = some (w, info, t)) :
    l = w ++ t ∧
    (∀ d ch, info = some (d, ch) →
      w = d ++ [ch] ∧ d ≠ [] ∧ d.length ≤ 3 ∧ (∀ x ∈ d, isDigit x = true) ∧ ch ∈ dirs) ∧
    (info = none → w = ['x', 'x', 'x', 'z'] ∨ w = undefTR) := by
  unfold parseTR at h
  cases hn : parseNum dirs l with
  | some r =>
    obtain ⟨d, ch, t'⟩ := r
    simp [hn] at h
    obtain ⟨rfl, rfl, rfl⟩ := h
    have := parseNum_sound hn
    refine ⟨by simp [this.1], ?_, by simp⟩
    intro d' ch' he
    simp at he
    obtain ⟨rfl, rfl⟩ := he
    exact ⟨rfl, this.2⟩
  | none =>
    cases hx : stripLit ['x', 'x', 'x', 'z'] l with
    | some t' =>
      simp [hn, hx] at h
      obtain ⟨rfl, rfl, rfl⟩ := h
      exact ⟨stripLit_sound hx, by simp, by simp⟩
    | none =>
      cases hu : stripLit ['_', '_', '_', 'z'] l with
      | some t' =>
        simp [hn, hx, hu] at h
        obtain ⟨rfl, rfl, rfl⟩ := h
        exact ⟨stripLit_sound hu, by simp, by simp [undefTR]⟩
      | none => simp [hn, hx, hu] at h

theorem parseSec_sound {l w t} (h : parseSec l = some (w, t)) :
    ∃ a b, w = [a, b] ∧ l = a :: b :: t ∧ isSecText a b = true := by
  unfold parseSec at h
  rcases l with _ | ⟨c1, _ | ⟨c2, t'⟩⟩
  · simp at h
  · simp at h
  · by_cases hs : isSecText c1 c2 = true
    · simp [hs] at h
      exact ⟨c1, c2, h.1.symm, by rw [h.2], hs⟩
    · simp [hs] at h

theorem isSecText_cases {a b : Char} (h : isSecText a b = true) :
    (isDigit a = true ∧ isDigit b = true) ∨ (a = 'x' ∧ b = 'x') ∨ (a = '_' ∧ b = '_') := by
  simpa [isSecText, or_assoc] using h

end TrsRecog

open TrsRecog

/-- `recognise` returns components of the advertised shape, and they spell the input -/
theorem recognise_sound {l c} (h : recognise l = some c) : l = c.text ∧ c.Good := by
  unfold recognise at h
  cases h1 : parseTR nsDirs l with
  | none => simp [h1] at h
  | some r1 =>
    obtain ⟨tw, ti, l1⟩ := r1
    cases h2 : parseTR ewDirs l1 with
    | none => simp [h1, h2] at h
    | some r2 =>
      obtain ⟨rg, ri, l2⟩ := r2
      obtain ⟨e1, n1, t1⟩ := parseTR_sound h1
      obtain ⟨e2, n2, t2⟩ := parseTR_sound h2
      rcases l2 with _ | ⟨x, l2'⟩
      · simp [h1, h2] at h
        subst h
        exact ⟨by simp [TrsParts.text, e1, e2], ⟨n1, t1, n2, t2, by simp⟩⟩
      · cases h3 : parseSec (x :: l2') with
        | none => simp [h1, h2, h3] at h
        | some r3 =>
          obtain ⟨sc, l3⟩ := r3
          rcases l3 with _ | ⟨y, l3'⟩
          · simp [h1, h2, h3] at h
            subst h
            obtain ⟨a, b, rfl, e3, hs⟩ := parseSec_sound h3
            refine ⟨by simp [TrsParts.text, e1, e2, e3], ⟨n1, t1, n2, t2, ?_⟩⟩
            intro s hs'
            simp at hs'
            exact ⟨a, b, hs'.symm, hs⟩
          · simp [h1, h2, h3] at h

/-! ### and conversely: every well-shaped component list is recognised -/

theorem parseNum_complete {dirs : List Char} (hdis : ∀ c, isDigit c = true → c ∉ dirs)
    {d : List Char} {ch : Char} (t : List Char)
    (h1 : d ≠ []) (h2 : d.length ≤ 3) (h3 : ∀ x ∈ d, isDigit x = true) (h4 : ch ∈ dirs) :
    parseNum dirs (d ++ ch :: t) = some (d, ch, t) := by
  have hch : isDigit ch = false := by
    cases h : isDigit ch with
    | false => rfl
    | true => exact absurd h4 (hdis ch h)
  rcases d with _ | ⟨c1, _ | ⟨c2, _ | ⟨c3, _ | ⟨c4, d'⟩⟩⟩⟩
  · exact absurd rfl h1
  · simp at h3; simp [parseNum, h3, hch, h4]
  · simp at h3; simp [parseNum, h3, hch, h4]
  · simp at h3; simp [parseNum, h3, h4]
  · simp at h2

theorem parseTR_complete_num {dirs : List Char} (hdis : ∀ c, isDigit c = true → c ∉ dirs)
    {d : List Char} {ch : Char} (t : List Char)
    (h1 : d ≠ []) (h2 : d.length ≤ 3) (h3 : ∀ x ∈ d, isDigit x = true) (h4 : ch ∈ dirs) :
    parseTR dirs (d ++ [ch] ++ t) = some (d ++ [ch], some (d, ch), t) := by
  have := parseNum_complete hdis t h1 h2 h3 h4
  simp only [List.append_assoc, List.singleton_append]
  simp [parseTR, this]

theorem parseTR_complete_lit (dirs : List Char) {w : List Char} (t : List Char)
    (h : w = ['x', 'x', 'x', 'z'] ∨ w = undefTR) :
    parseTR dirs (w ++ t) = some (w, none, t) := by
  rcases h with rfl | rfl
  · simp [parseTR, parseNum, isDigit_x, stripLit]
  · simp [parseTR, parseNum, isDigit_us, stripLit, undefTR]

theorem recognise_complete (c : TrsParts) (h : c.Good) : recognise c.text = some c := by
  obtain ⟨tw, ti, rg, ri, sc⟩ := c
  obtain ⟨a1, a2, a3, a4, a5⟩ := h
  simp only at a1 a2 a3 a4 a5
  have e1 : ∀ t, parseTR nsDirs (tw ++ t) = some (tw, ti, t) := by
    intro t
    rcases ti with _ | ⟨d, ch⟩
    · exact parseTR_complete_lit _ t (a2 rfl)
    · obtain ⟨rfl, b1, b2, b3, b4⟩ := a1 d ch rfl
      exact parseTR_complete_num ns_not_digit t b1 b2 b3 b4
  have e2 : ∀ t, parseTR ewDirs (rg ++ t) = some (rg, ri, t) := by
    intro t
    rcases ri with _ | ⟨d, ch⟩
    · exact parseTR_complete_lit _ t (a4 rfl)
    · obtain ⟨rfl, b1, b2, b3, b4⟩ := a3 d ch rfl
      exact parseTR_complete_num ew_not_digit t b1 b2 b3 b4
  unfold recognise TrsParts.text
  simp only [List.append_assoc, e1, e2]
  rcases sc with _ | s
  · simp
  · obtain ⟨a, b, rfl, hs⟩ := a5 s rfl
    simp [parseSec, hs]

/-- declarative reading of the recogniser: it succeeds exactly on the texts of well-shaped components
    (so the components are unique: the grammar is deterministic) -/
theorem recognise_iff (l : List Char) (c : TrsParts) : recognise l = some c ↔ l = c.text ∧ c.Good :=
  ⟨recognise_sound, fun ⟨e, g⟩ => e ▸ recognise_complete c g⟩

namespace TrsRecog

/-! ## the named groups of the match object -/

theorem idx_twp : unpacker.idx? "twp" = some 1 := by decide
theorem idx_twp_num : unpacker.idx? "twp_num" = some 3 := by decide
theorem idx_ns : unpacker.idx? "ns" = some 4 := by decide
theorem idx_rge : unpacker.idx? "rge" = some 5 := by decide
theorem idx_rge_num : unpacker.idx? "rge_num" = some 7 := by decide
theorem idx_ew : unpacker.idx? "ew" = some 8 := by decide
theorem idx_sec : unpacker.idx? "sec" = some 9 := by decide

theorem slice_of_eq {l u v w : List Char} {a b : Nat} (hl : l = u ++ v ++ w) (ha : a = u.length)
    (hb : b = u.length + v.length) : slice l a b = v := by
  subst hl ha hb
  unfold slice
  rw [← List.length_append, List.take_left', List.drop_left']
  all_goals rfl

section slices
variable (u v w d : List Char) (ch : Char)
theorem sl_a : slice (u ++ v ++ w) 0 u.length = u :=
  slice_of_eq (u := []) (v := u) (w := v ++ w) (by simp) rfl (by simp)
theorem sl_b (h : u = d ++ [ch]) : slice (u ++ v ++ w) 0 d.length = d :=
  slice_of_eq (u := []) (v := d) (w := [ch] ++ v ++ w) (by simp [h]) rfl (by simp)
theorem sl_c (h : u = d ++ [ch]) : slice (u ++ v ++ w) d.length (d.length + 1) = [ch] :=
  slice_of_eq (u := d) (v := [ch]) (w := v ++ w) (by simp [h]) rfl (by simp)
theorem sl_d : slice (u ++ v ++ w) u.length (u.length + v.length) = v :=
  slice_of_eq (u := u) (v := v) (w := w) rfl rfl rfl
theorem sl_e (h : v = d ++ [ch]) : slice (u ++ v ++ w) u.length (u.length + d.length) = d :=
  slice_of_eq (u := u) (v := d) (w := [ch] ++ w) (by simp [h]) rfl rfl
theorem sl_f (h : v = d ++ [ch]) :
    slice (u ++ v ++ w) (u.length + d.length) (u.length + d.length + 1) = [ch] :=
  slice_of_eq (u := u ++ d) (v := [ch]) (w := w) (by simp [h]) (by simp) (by simp)
theorem sl_g (h : w.length = 2) :
    slice (u ++ v ++ w) (u.length + v.length) (u.length + v.length + 2) = w :=
  slice_of_eq (u := u ++ v) (v := w) (w := []) (by simp) (by simp) (by simp [h])
end slices

local macro "grp_simp" "[" ts:Lean.Parser.Tactic.simpLemma,* "]" : tactic =>
  `(tactic| simp [Unpack.Pat.group, idx_twp, idx_twp_num, idx_ns, idx_rge, idx_rge_num, idx_ew, idx_sec,
      Match.group?, Match.span?, matchOf, trCaps, TrsParts.text, -List.append_assoc, -List.append_nil, sl_a, sl_d,
      $ts,*])

/-- the seven named groups, read off the recognised components -/
theorem groups_of (c : TrsParts) (h : c.Good) :
    unpacker.group (matchOf c) c.text "twp" = some c.twp ∧
    unpacker.group (matchOf c) c.text "twp_num" = c.twpNum.map (·.1) ∧
    unpacker.group (matchOf c) c.text "ns" = c.twpNum.map (fun x => [x.2]) ∧
    unpacker.group (matchOf c) c.text "rge" = some c.rge ∧
    unpacker.group (matchOf c) c.text "rge_num" = c.rgeNum.map (·.1) ∧
    unpacker.group (matchOf c) c.text "ew" = c.rgeNum.map (fun x => [x.2]) ∧
    unpacker.group (matchOf c) c.text "sec" = c.sec := by
  have h1 : ∀ d ch, c.twpNum = some (d, ch) → c.twp = d ++ [ch] := fun d ch e => (h.twpNum d ch e).1
  have h2 : ∀ d ch, c.rgeNum = some (d, ch) → c.rge = d ++ [ch] := fun d ch e => (h.rgeNum d ch e).1
  have h3 : ∀ s, c.sec = some s → s.length = 2 := fun s e => by
    obtain ⟨a, b, rfl, _⟩ := h.sec s e; rfl
  clear h
  obtain ⟨tw, ti, rg, ri, sc⟩ := c
  simp only at h1 h2 h3
  rcases sc with _ | s
  · rcases ti with _ | ⟨d, ch⟩
    · rcases ri with _ | ⟨e, ch'⟩
      · grp_simp [sl_a]
      · grp_simp [sl_e _ _ _ _ _ (h2 e ch' rfl), sl_f _ _ _ _ _ (h2 e ch' rfl)]
    · rcases ri with _ | ⟨e, ch'⟩
      · grp_simp [sl_b _ _ _ _ _ (h1 d ch rfl), sl_c _ _ _ _ _ (h1 d ch rfl)]
      · grp_simp [sl_b _ _ _ _ _ (h1 d ch rfl), sl_c _ _ _ _ _ (h1 d ch rfl),
          sl_e _ _ _ _ _ (h2 e ch' rfl), sl_f _ _ _ _ _ (h2 e ch' rfl)]
  · have hs := sl_g tw rg s (h3 s rfl)
    rcases ti with _ | ⟨d, ch⟩
    · rcases ri with _ | ⟨e, ch'⟩
      · grp_simp [hs]
      · grp_simp [hs, sl_e _ _ _ _ _ (h2 e ch' rfl), sl_f _ _ _ _ _ (h2 e ch' rfl)]
    · rcases ri with _ | ⟨e, ch'⟩
      · grp_simp [hs, sl_b _ _ _ _ _ (h1 d ch rfl), sl_c _ _ _ _ _ (h1 d ch rfl)]
      · grp_simp [hs, sl_b _ _ _ _ _ (h1 d ch rfl), sl_c _ _ _ _ _ (h1 d ch rfl),
          sl_e _ _ _ _ _ (h2 e ch' rfl), sl_f _ _ _ _ _ (h2 e ch' rfl)]

/-! ## `buildDict`, stage by stage -/

theorem S_undef_twp : S Gen.UNDEF_TWP = undefTR := by decide
theorem S_undef_rge : S Gen.UNDEF_RGE = undefTR := by decide
theorem S_undef_sec : S Gen.UNDEF_SEC = ['_', '_'] := by decide

/-- the three stages of `buildDict`, as functions of the group lookup -/
def twpStage (g : String → Option Str) (d : TrsDict) : TrsDict :=
  if truthy (g "twp_num") && truthy (g "ns") then
    { d with twp := (g "twp").getD [], twpNum := pyInt? ((g "twp_num").getD []), twpNs := g "ns" }
  else if g "twp" == some (S Gen.UNDEF_TWP) then { d with twp := (g "twp").getD [], twpUndef := true }
  else d

def rgeStage (g : String → Option Str) (d : TrsDict) : TrsDict :=
  if truthy (g "rge_num") && truthy (g "ew") then
    { d with rge := (g "rge").getD [], rgeNum := pyInt? ((g "rge_num").getD []), rgeEw := g "ew" }
  else if g "rge" == some (S Gen.UNDEF_RGE) then { d with rge := (g "rge").getD [], rgeUndef := true }
  else d

def secStage (g : String → Option Str) (d : TrsDict) : TrsDict :=
  match g "sec" with
  | none => { d with sec := some (S Gen.ERR_SEC) }
  | some s =>
    match pyInt? s with
    | some i => { d with secNum := some i, sec := some s }
    | none =>
      if s == S Gen.UNDEF_SEC then { d with secUndef := true, sec := some s }
      else { d with sec := some (S Gen.ERR_SEC) }

theorem buildDict_stages (mo : Match) (trs : Str) :
    buildDict mo trs =
      secStage (unpacker.group mo trs) (rgeStage (unpacker.group mo trs) (twpStage (unpacker.group mo trs) errDict)) :=
  rfl

theorem twpStage_eq (g : String → Option Str) (d : TrsDict) (tw : List Char) (ti : Option (List Char × Char))
    (h1 : g "twp" = some tw) (h2 : g "twp_num" = ti.map (·.1)) (h3 : g "ns" = ti.map (fun x => [x.2]))
    (a1 : ∀ d ch, ti = some (d, ch) → d ≠ [])
    (a2 : ti = none → tw = ['x', 'x', 'x', 'z'] ∨ tw = undefTR)
    (e1 : d.twp = S Gen.ERR_TWP) (e2 : d.twpNum = none) (e3 : d.twpNs = none) (e4 : d.twpUndef = false) :
    twpStage g d =
      { d with
        twp := trText (S Gen.ERR_TWP) tw ti,
        twpNum := ti.bind (fun x => pyInt? x.1),
        twpNs := ti.map (fun x => [x.2]),
        twpUndef := ti.isNone && tw == undefTR } := by
  obtain ⟨trs, twp, twpNum, twpNs, twpUndef, rge, rgeNum, rgeEw, rgeUndef, sec, secNum, secUndef⟩ := d
  simp only at e1 e2 e3 e4
  subst e1 e2 e3 e4
  unfold twpStage trText
  rw [h1, h2, h3, S_undef_twp]
  rcases ti with _ | ⟨dg, ch⟩
  · rcases a2 rfl with rfl | rfl
    · simp [truthy, undefTR]
    · simp [truthy, undefTR]
  · have := a1 dg ch rfl
    rcases dg with _ | ⟨x, xs⟩
    · exact absurd rfl this
    · simp [truthy]

theorem rgeStage_eq (g : String → Option Str) (d : TrsDict) (rg : List Char) (ri : Option (List Char × Char))
    (h1 : g "rge" = some rg) (h2 : g "rge_num" = ri.map (·.1)) (h3 : g "ew" = ri.map (fun x => [x.2]))
    (a1 : ∀ d ch, ri = some (d, ch) → d ≠ [])
    (a2 : ri = none → rg = ['x', 'x', 'x', 'z'] ∨ rg = undefTR)
    (e1 : d.rge = S Gen.ERR_RGE) (e2 : d.rgeNum = none) (e3 : d.rgeEw = none) (e4 : d.rgeUndef = false) :
    rgeStage g d =
      { d with
        rge := trText (S Gen.ERR_RGE) rg ri,
        rgeNum := ri.bind (fun x => pyInt? x.1),
        rgeEw := ri.map (fun x => [x.2]),
        rgeUndef := ri.isNone && rg == undefTR } := by
  obtain ⟨trs, twp, twpNum, twpNs, twpUndef, rge, rgeNum, rgeEw, rgeUndef, sec, secNum, secUndef⟩ := d
  simp only at e1 e2 e3 e4
  subst e1 e2 e3 e4
  unfold rgeStage trText
  rw [h1, h2, h3, S_undef_rge]
  rcases ri with _ | ⟨dg, ch⟩
  · rcases a2 rfl with rfl | rfl
    · simp [truthy, undefTR]
    · simp [truthy, undefTR]
  · have := a1 dg ch rfl
    rcases dg with _ | ⟨x, xs⟩
    · exact absurd rfl this
    · simp [truthy]

theorem secStage_eq (g : String → Option Str) (d : TrsDict) (sc : Option (List Char))
    (h1 : g "sec" = sc) (a : ∀ s, sc = some s → ∃ a b, s = [a, b] ∧ isSecText a b = true)
    (e1 : d.sec = some (S Gen.ERR_SEC)) (e2 : d.secNum = none) (e3 : d.secUndef = false) :
    secStage g d =
      { d with
        sec := some (secText sc),
        secNum := sc.bind pyInt?,
        secUndef := sc == some ['_', '_'] } := by
  obtain ⟨trs, twp, twpNum, twpNs, twpUndef, rge, rgeNum, rgeEw, rgeUndef, sec, secNum, secUndef⟩ := d
  simp only at e1 e2 e3
  subst e1 e2 e3
  unfold secStage
  rw [h1, S_undef_sec]
  rcases sc with _ | s
  · simp [secText]
  · obtain ⟨x, y, rfl, hs⟩ := a s rfl
    rcases isSecText_cases hs with ⟨hx, hy⟩ | ⟨rfl, rfl⟩ | ⟨rfl, rfl⟩
    · obtain ⟨i, hi⟩ := Option.isSome_iff_exists.mp (pyInt_two_digits hx hy)
      have hx' : x ≠ 'x' := by rintro rfl; rw [isDigit_x] at hx; cases hx
      have hu' : x ≠ '_' := by rintro rfl; rw [isDigit_us] at hx; cases hx
      simp [hi, hx', hu', secText]
    · simp [pyInt_xx, secText]
    · simp [pyInt_uu, secText]

theorem buildDict_eq (c : TrsParts) (h : c.Good) :
    finalize (buildDict (matchOf c) c.text) = dictOf c := by
  obtain ⟨g1, g2, g3, g4, g5, g6, g7⟩ := groups_of c h
  rw [buildDict_stages,
    twpStage_eq _ errDict c.twp c.twpNum g1 g2 g3 (fun d ch e => (h.twpNum d ch e).2.1) h.twpLit rfl rfl rfl rfl,
    rgeStage_eq _ _ c.rge c.rgeNum g4 g5 g6 (fun d ch e => (h.rgeNum d ch e).2.1) h.rgeLit rfl rfl rfl rfl,
    secStage_eq _ _ c.sec g7 h.sec rfl rfl rfl]
  simp [finalize, dictOf]

end TrsRecog

/-! ## main theorems -/

/-- the pattern matches exactly the recognised inputs -/
theorem fullmatch_iff_recognise (l : List Char) :
    (unpacker.rx.fullmatch l).isSome = (recognise l).isSome := by
  rw [fullmatch_eq, Option.isSome_map]

/-- strictness: anything that is not in the standard form gives the error dict -/
theorem trsToDict_reject (x : Option Str) (h : recognise (pyLower (normIn x)) = none) :
    trsToDict x = errDict := by
  unfold trsToDict
  simp only [fullmatch_eq, h, Option.map_none]

/-- on recognised input the result is the dict read off the components -/
theorem trsToDict_eq_dictOf (x : Option Str) (c : TrsParts) (h : recognise (pyLower (normIn x)) = some c) :
    trsToDict x = dictOf c := by
  obtain ⟨ht, hg⟩ := recognise_sound h
  unfold trsToDict
  simp only [fullmatch_eq, h, Option.map_some]
  rw [ht]
  exact buildDict_eq c hg

/-- every field of the dict, for recognised input -/
theorem trsToDict_accept (x : Option Str) (c : TrsParts) (h : recognise (pyLower (normIn x)) = some c) :
    (trsToDict x).twp = trText (S Gen.ERR_TWP) c.twp c.twpNum ∧
    (trsToDict x).rge = trText (S Gen.ERR_RGE) c.rge c.rgeNum ∧
    (trsToDict x).sec = some (secText c.sec) ∧
    (trsToDict x).twpNum = c.twpNum.bind (fun x => pyInt? x.1) ∧
    (trsToDict x).twpNs = c.twpNum.map (fun x => [x.2]) ∧
    (trsToDict x).twpUndef = (c.twpNum.isNone && c.twp == undefTR) ∧
    (trsToDict x).rgeNum = c.rgeNum.bind (fun x => pyInt? x.1) ∧
    (trsToDict x).rgeEw = c.rgeNum.map (fun x => [x.2]) ∧
    (trsToDict x).rgeUndef = (c.rgeNum.isNone && c.rge == undefTR) ∧
    (trsToDict x).secNum = c.sec.bind pyInt? ∧
    (trsToDict x).secUndef = (c.sec == some ['_', '_']) ∧
    (trsToDict x).trs =
      trText (S Gen.ERR_TWP) c.twp c.twpNum ++ trText (S Gen.ERR_RGE) c.rge c.rgeNum ++ secText c.sec := by
  rw [trsToDict_eq_dictOf x c h]
  exact ⟨rfl, rfl, rfl, rfl, rfl, rfl, rfl, rfl, rfl, rfl, rfl, rfl⟩

#print axioms fullmatch_iff_recognise
#print axioms trsToDict_reject
#print axioms trsToDict_accept
#print axioms trsToDict_eq_dictOf
#print axioms recognise_sound
#print axioms recognise_iff

end PyTRS
