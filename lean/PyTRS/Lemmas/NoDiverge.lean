/-
C03 (cited by C07, C16) — THE MODEL NEVER REPORTS DIVERGENCE: every fuel-bounded loop of the parsing pipeline terminates within
its fuel, for every input, so no `none` / `diverged = true` / `Out.diverged` outcome is ever produced.

The regex-driven loops were handled in `RxFuel`, `GlueFuel`, `ScrubFuel`; what those left open was the standardisation loop of
`parse_aliquot` (`while aliquot_components != aliquot_components_copy`), proved in `Tiling` only for chains of PROPER components.

* Part A: the loop terminates within `standardizeBudget` on EVERY list of strings (`C03_standardize_total`).  The measure of
  `Tiling` (length weight `wG` + number of (quarter, later half) inversions of the reversed list) is re-done on raw strings with
  three kinds — half, quarter, inert — because (Part B) the regex also captures improper components.  Inert strings are never
  read as half or quarter by either pass, are never created, and weigh nothing.  Hence `C03_parseComponents_total`,
  `C03_parseAliquot_total`: for all texts and ALL depth arguments (the depth arguments are only used after the loop).
* Part B: `C03_componentsOf_shape` — group `aliquot_no_frac` of `single_aliquot_unpacker_regex` (`[NESW]{1,2}|ALL`, case-sensitive)
  holds one of 21 strings: the 8 proper components, `ALL`, and the 12 improper two-letter combinations `NN NS EN EE ES EW SN SS WN
  WE WS WW`; `C03_componentsOf_not_always_proper` — so "componentsOf text = chain.map Comp.str" is FALSE in general (witness `NN`;
  real library: `parse_aliquot('NN')` returns 16 strings `NENENN …` that name no aliquot).  Generic tools: `cap_spans` /
  `finditer_cap` (a leading named group spans what its body ate), `Eats.maxWidth`, `Rx.shortStrs` (finite language of a short
  finite-class pattern, enumerated), all decided on the regenerated pattern (`unpacker_checks`).
* Part D: `C03_tract_never_diverges` (+ one theorem per entry point).   Part E: `C03_desc_never_diverges` (+ one per entry point,
  incl. `C03_plssPreprocess_never_diverges`).   Part F: `C03_world_never_diverges` — over every history from the initial world no
  `World.step` output is `Out.diverged` and no stored object carries the marker (`NoDivWorld`, kept by every operation).
* `C03_never_diverges_summary`: every outcome the differential driver renders as `?diverged`, in one statement.
-/
import PyTRS.Lemmas.Tiling
import PyTRS.Lemmas.ScrubFuel
import PyTRS.Props.C17
import PyTRS.Model.World
import PyTRS.Lemmas.Histories
import PyTRS.Props.C03Total
namespace PyTRS
open PyTRS.Aliquot PyTRS.Tiling

/-! ## Part A — the standardisation loop terminates on EVERY list of strings -/

/-- the string is one of the four halves `N S E W` -/
def sHalf (s : Str) : Bool := halves.contains s
/-- the string is one of the four quarters `NE NW SE SW` -/
def sQuarter (s : Str) : Bool := quarters.contains s

theorem sHalf_iff (s : Str) : sHalf s = true ↔ s = ['N'] ∨ s = ['S'] ∨ s = ['E'] ∨ s = ['W'] := by
  simp [sHalf, halves_eq]
theorem sQuarter_iff (s : Str) :
    sQuarter s = true ↔ s = ['N','E'] ∨ s = ['N','W'] ∨ s = ['S','E'] ∨ s = ['S','W'] := by
  simp [sQuarter, quarters_eq]

theorem sQuarter_of_sHalf {s : Str} (h : sHalf s = true) : sQuarter s = false := by
  rcases (sHalf_iff s).1 h with rfl | rfl | rfl | rfl <;> decide

/-- number of halves -/
def cntH (r : List Str) : Nat := r.countP sHalf
/-- inversions (on the reversed, smallest-first list): a quarter with a half somewhere after it.  Strings that are neither
(`NN`, `EW`, `ALL`, …) are inert: they count for nothing and are never touched by either pass. -/
def invS : List Str → Nat
  | [] => 0
  | c :: r => (if sQuarter c then cntH r else 0) + invS r

@[simp] theorem cntH_cons (c : Str) (r : List Str) : cntH (c :: r) = cntH r + (if sHalf c then 1 else 0) := by
  simp [cntH, List.countP_cons]
theorem cntH_le (r : List Str) : cntH r ≤ r.length := List.countP_le_length

theorem kinds_NS (c1 c2 : Char) (aq2 : Str) (h2 : sHalf aq2 = true) (h1 : sQuarter [c1, c2] = true)
    (h3 : qqNS.contains aq2 = true) : sHalf [c1] = true ∧ sQuarter (aq2 ++ [c2]) = true := by
  rcases (sHalf_iff _).1 h2 with rfl | rfl | rfl | rfl <;>
    rcases (sQuarter_iff _).1 h1 with h | h | h | h <;>
    simp only [List.cons.injEq, and_true] at h <;> obtain ⟨rfl, rfl⟩ := h <;> revert h3 <;> decide

theorem kinds_EW (c1 c2 : Char) (aq2 : Str) (h2 : sHalf aq2 = true) (h1 : sQuarter [c1, c2] = true)
    (h3 : ¬ qqNS.contains aq2 = true) : sHalf [c2] = true ∧ sQuarter ([c1] ++ aq2) = true := by
  rcases (sHalf_iff _).1 h2 with rfl | rfl | rfl | rfl <;>
    rcases (sQuarter_iff _).1 h1 with h | h | h | h <;>
    simp only [List.cons.injEq, and_true] at h <;> obtain ⟨rfl, rfl⟩ := h <;> revert h3 <;> decide

/-- one pass of `pass_back_halves`' loop: same length, same number of halves, and either nothing changed or an inversion
was removed -/
theorem passBackLoop_inv (r : List Str) :
    (passBackLoop r).length = r.length ∧ cntH (passBackLoop r) = cntH r ∧
      invS (passBackLoop r) ≤ invS r ∧ (passBackLoop r = r ∨ invS (passBackLoop r) < invS r) := by
  induction r using passBackLoop.induct with
  | case1 aq2 rest c1 c2 h3 h12 ih =>
    have h12' : sHalf aq2 = true ∧ sQuarter [c1, c2] = true := by simpa [sHalf, sQuarter] using h12
    obtain ⟨k1, k2⟩ := kinds_NS c1 c2 aq2 h12'.1 h12'.2 h3
    have q1 := sQuarter_of_sHalf k1
    have q2 := sQuarter_of_sHalf h12'.1
    rw [passBackLoop, if_pos h12]; simp only [h3, if_true]
    obtain ⟨i1, i2, i3, _⟩ := ih
    have hk2 : sHalf (aq2 ++ [c2]) = false := by
      cases hh : sHalf (aq2 ++ [c2]) with
      | false => rfl
      | true => rw [sQuarter_of_sHalf hh] at k2; cases k2
    have hk1 : sHalf [c1, c2] = false := by
      cases hh : sHalf [c1, c2] with
      | false => rfl
      | true => rw [sQuarter_of_sHalf hh] at h12'; cases h12'.2
    refine ⟨by simp [i1], ?_, ?_, ?_⟩
    · simp [i2, k1, hk2, hk1, h12'.1]
    · have e1 : invS ([c1] :: passBackLoop ((aq2 ++ [c2]) :: rest)) = invS (passBackLoop ((aq2 ++ [c2]) :: rest)) := by
        simp [invS, q1]
      have e2 : invS ((aq2 ++ [c2]) :: rest) = cntH rest + invS rest := by simp [invS, k2]
      have e3 : invS ([c1, c2] :: aq2 :: rest) = cntH rest + 1 + invS rest := by simp [invS, h12'.1, h12'.2, q2]
      rw [e1, e3]; rw [e2] at i3; omega
    · right
      have e1 : invS ([c1] :: passBackLoop ((aq2 ++ [c2]) :: rest)) = invS (passBackLoop ((aq2 ++ [c2]) :: rest)) := by
        simp [invS, q1]
      have e2 : invS ((aq2 ++ [c2]) :: rest) = cntH rest + invS rest := by simp [invS, k2]
      have e3 : invS ([c1, c2] :: aq2 :: rest) = cntH rest + 1 + invS rest := by simp [invS, h12'.1, h12'.2, q2]
      rw [e1, e3]; rw [e2] at i3; omega
  | case2 aq2 rest c1 c2 h3 h12 ih =>
    have h12' : sHalf aq2 = true ∧ sQuarter [c1, c2] = true := by simpa [sHalf, sQuarter] using h12
    obtain ⟨k1, k2⟩ := kinds_EW c1 c2 aq2 h12'.1 h12'.2 h3
    have q1 := sQuarter_of_sHalf k1
    have q2 := sQuarter_of_sHalf h12'.1
    rw [passBackLoop, if_pos h12]; simp only [h3, Bool.false_eq_true, if_false]
    simp only [List.cons_append, List.nil_append] at ih k2 ⊢
    obtain ⟨i1, i2, i3, _⟩ := ih
    have hk2 : sHalf (c1 :: aq2) = false := by
      cases hh : sHalf (c1 :: aq2) with
      | false => rfl
      | true => rw [sQuarter_of_sHalf hh] at k2; cases k2
    have hk1 : sHalf [c1, c2] = false := by
      cases hh : sHalf [c1, c2] with
      | false => rfl
      | true => rw [sQuarter_of_sHalf hh] at h12'; cases h12'.2
    refine ⟨by simp [i1], ?_, ?_, ?_⟩
    · simp [i2, k1, hk2, hk1, h12'.1]
    · have e1 : invS ([c2] :: passBackLoop ((c1 :: aq2) :: rest)) = invS (passBackLoop ((c1 :: aq2) :: rest)) := by
        simp [invS, q1]
      have e2 : invS ((c1 :: aq2) :: rest) = cntH rest + invS rest := by simp [invS, k2]
      have e3 : invS ([c1, c2] :: aq2 :: rest) = cntH rest + 1 + invS rest := by simp [invS, h12'.1, h12'.2, q2]
      rw [e1, e3]; rw [e2] at i3; omega
    · right
      have e1 : invS ([c2] :: passBackLoop ((c1 :: aq2) :: rest)) = invS (passBackLoop ((c1 :: aq2) :: rest)) := by
        simp [invS, q1]
      have e2 : invS ((c1 :: aq2) :: rest) = cntH rest + invS rest := by simp [invS, k2]
      have e3 : invS ([c1, c2] :: aq2 :: rest) = cntH rest + 1 + invS rest := by simp [invS, h12'.1, h12'.2, q2]
      rw [e1, e3]; rw [e2] at i3; omega
  | case3 aq1 aq2 rest h12 hno ih =>
    exfalso
    have h12' : sHalf aq2 = true ∧ sQuarter aq1 = true := by simpa [sHalf, sQuarter] using h12
    rcases (sQuarter_iff _).1 h12'.2 with rfl | rfl | rfl | rfl <;> exact hno _ _ rfl
  | case4 aq1 aq2 rest h12 ih =>
    have e : passBackLoop (aq1 :: aq2 :: rest) = aq1 :: passBackLoop (aq2 :: rest) := by
      rw [passBackLoop.eq_def]; simp only [h12]; rfl
    obtain ⟨i1, i2, i3, i4⟩ := ih
    rw [e]
    refine ⟨by simp [i1], by simp only [cntH_cons, i2], ?_, ?_⟩
    · simp only [invS, i2] at i3 ⊢; omega
    · rcases i4 with h | h
      · left; rw [h]
      · right; simp only [invS, i2] at h ⊢; omega
  | case5 l h =>
    match l, h with
    | [], _ => simp [passBackLoop]
    | [a], _ => simp [passBackLoop]
    | a :: b :: rest, h => exact absurd rfl (h a b rest)

theorem passBackHalves_length (l : List Str) : (passBackHalves l).length = l.length := by
  simp [passBackHalves, (passBackLoop_inv l.reverse).1]

theorem combine_length (l : List Str) :
    combineConsecutiveHalves l = l ∨ (combineConsecutiveHalves l).length < l.length := by
  induction l using combineConsecutiveHalves.induct with
  | case1 aq1 aq2 rest h ih =>
    rw [combineConsecutiveHalves, if_pos h]; right
    rcases ih with h | h
    · rw [h]; simp
    · simp; omega
  | case2 aq1 aq2 rest h ih =>
    rw [combineConsecutiveHalves, if_neg h]
    rcases ih with h | h
    · left; rw [h]
    · right; simpa using h
  | case3 l h =>
    match l, h with
    | [], _ => simp [combineConsecutiveHalves]
    | [a], _ => simp [combineConsecutiveHalves]
    | a :: b :: rest, h => exact absurd rfl (h a b rest)

theorem invS_le_sq (r : List Str) : invS r ≤ r.length * r.length := by
  induction r with
  | nil => simp [invS]
  | cons c r ih =>
    have := cntH_le r
    have e : (r.length + 1) * (r.length + 1) = r.length * r.length + 2 * r.length + 1 := by
      simp only [Nat.add_mul, Nat.mul_add]; omega
    simp only [invS, List.length_cons, e]
    split <;> omega

/-- the termination measure of `while aliquot_components != aliquot_components_copy`, on arbitrary strings -/
def muS (l : List Str) : Nat := wG l.length + invS l.reverse

theorem standardizeStep_fixed_iff (l : List Str) :
    standardizeStep l = l ↔ (passBackHalves l = l ∧ combineConsecutiveHalves l = l) := by
  constructor
  · intro h
    have hp : passBackHalves l = l := by
      rcases combine_length (passBackHalves l) with h1 | h1
      · unfold standardizeStep at h; rw [h1] at h; exact h
      · exfalso; unfold standardizeStep at h; rw [h, passBackHalves_length] at h1; omega
    refine ⟨hp, ?_⟩
    unfold standardizeStep at h; rw [hp] at h; exact h
  · rintro ⟨h1, h2⟩; unfold standardizeStep; rw [h1, h2]

/-- every pass that changes the list lowers the measure -/
theorem muS_step_lt (l : List Str) (h : standardizeStep l ≠ l) : muS (standardizeStep l) < muS l := by
  have hlen := passBackHalves_length l
  have hinv := passBackLoop_inv l.reverse
  have hinv' : invS (passBackHalves l).reverse = invS (passBackLoop l.reverse) := by simp [passBackHalves]
  rcases combine_length (passBackHalves l) with h1 | h1
  · have e : standardizeStep l = passBackHalves l := h1
    rw [e] at h ⊢
    have hne : passBackLoop l.reverse ≠ l.reverse := by
      intro hh; apply h; simp [passBackHalves, hh]
    unfold muS; rw [hlen, hinv']
    rcases hinv.2.2.2 with h2 | h2
    · exact absurd h2 hne
    · omega
  · have hk : (standardizeStep l).length + 1 ≤ l.length := by
      have : (standardizeStep l).length < (passBackHalves l).length := h1
      omega
    have h3 := invS_le_sq (standardizeStep l).reverse
    have h4 : wG ((standardizeStep l).length + 1) ≤ wG l.length := wG_mono hk
    unfold muS
    simp only [List.length_reverse, wG] at h3 h4
    omega

theorem muS_budget (l : List Str) : muS l + 2 ≤ standardizeBudget l.length := by
  have h1 := invS_le_sq l.reverse
  have h2 := wG_budget l.length
  simp only [List.length_reverse] at h1
  unfold muS standardizeBudget
  omega

theorem standardizeFuel_total : ∀ (N : Nat) (l copy : List Str) (fuel : Nat), muS l ≤ N → l ≠ copy → muS l + 2 ≤ fuel →
    ∃ r, standardizeFuel fuel l copy = some r ∧ standardizeStep r = r := by
  intro N
  induction N with
  | zero =>
    intro l copy fuel hN hne hf
    obtain ⟨f, rfl⟩ : ∃ f, fuel = f + 2 := ⟨fuel - 2, by omega⟩
    by_cases hs : standardizeStep l = l
    · refine ⟨l, ?_, hs⟩
      rw [standardizeFuel, if_neg (by simpa using hne), hs, standardizeFuel]; simp
    · have := muS_step_lt l hs; omega
  | succ N ih =>
    intro l copy fuel hN hne hf
    obtain ⟨f, rfl⟩ : ∃ f, fuel = f + 2 := ⟨fuel - 2, by omega⟩
    by_cases hs : standardizeStep l = l
    · refine ⟨l, ?_, hs⟩
      rw [standardizeFuel, if_neg (by simpa using hne), hs, standardizeFuel]; simp
    · have hlt := muS_step_lt l hs
      obtain ⟨r, h1, h2⟩ := ih (standardizeStep l) l (f + 1) (by omega) hs (by omega)
      refine ⟨r, ?_, h2⟩
      rw [standardizeFuel, if_neg (by simpa using hne)]; exact h1

/-- **the standardisation loop never runs out of the model's fuel**, whatever the strings in the list are (proper components,
the improper two-letter combinations `NN`, `EW`, `SN` … that `[NESW]{1,2}` also captures, `ALL`, or anything else);
the result is a fixed point of the loop body -/
theorem C03_standardize_total (l : List Str) : ∃ r, standardize l = some r ∧ standardizeStep r = r := by
  by_cases hl : l = []
  · subst hl; exact ⟨[], by decide, by simp [standardizeStep, passBackHalves, passBackLoop, combineConsecutiveHalves]⟩
  · exact standardizeFuel_total (muS l) l [] (standardizeBudget l.length) (Nat.le_refl _) hl (muS_budget l)

/-- `parse_aliquot` on an already extracted component list: total for EVERY list and EVERY depth arguments -/
theorem C03_parseComponents_total (comps : List Str) (a : DepthArgs) : parseComponents comps a ≠ none := by
  obtain ⟨r, hr, _⟩ := C03_standardize_total comps
  unfold parseComponents
  simp only [hr]
  split <;> simp

/-- **C03_parseAliquot_total**: `parse_aliquot(text, …)` never exhausts its fuel — for all texts and all depth arguments
(also outside the documented domain: `qq_depth` set, minimum ≤ 0, maximum below the minimum, maximum 0 or negative). -/
theorem C03_parseAliquot_total (text : Str) (a : DepthArgs) : parseAliquot text a ≠ none :=
  C03_parseComponents_total _ a

/-! ## Part B — what `componentsOf` (group `aliquot_no_frac` of `single_aliquot_unpacker_regex`) can capture -/

/-- the shape `( (?P<g>body) tail )` -/
def capCheck (g : Nat) : Rx → Bool
  | .grp i1 (.seq (.grp i2 _) b) => i2 == g && i1 != g && g != 0 && !(b.grpIdx.contains g)
  | _ => false

def capBody : Rx → Rx
  | .grp _ (.seq (.grp _ a) _) => a
  | _ => .fail

/-- in a run of a pattern of that shape the group `g` spans what its body consumed, at the start of the match -/
theorem cap_spans (g : Nat) (r : Rx) (hc : capCheck g r = true) (s s' : St) (h : Runs r s s') :
    ∃ v tail, s.rest = v ++ tail ∧ Eats (capBody r) v ∧
      (⟨s.pos, s'.pos, s'.caps⟩ : Match).span? g = some (s.pos, s.pos + v.length) := by
  unfold capCheck at hc
  split at hc
  · rename_i i1 i2 a b
    simp only [Bool.and_eq_true, beq_iff_eq, bne_iff_ne, ne_eq, Bool.not_eq_true'] at hc
    obtain ⟨⟨⟨e2, n1⟩, n0⟩, nb⟩ := hc
    subst e2
    cases h with
    | @grp _ _ _ s1 h1 =>
    cases h1 with
    | @seq _ _ _ sa _ ha hb =>
    cases ha with
    | @grp _ _ _ sa' ha' =>
    obtain ⟨v, hv, ev⟩ := ha'.eats
    obtain ⟨nB, hnB, gB⟩ := hb.frame
    refine ⟨v, sa'.rest, hv.1, ev, ?_⟩
    simp only [Match.span?]
    have : (i2 == 0) = false := by simpa using n0
    rw [this]
    simp only [Bool.false_eq_true, if_false]
    rw [List.find?_cons]
    have : (i1 == i2) = false := by simpa using n1
    simp only [this]
    rw [hnB, find_skip_new gB nb, List.find?_cons]
    simp only [beq_self_eq_true]
    rw [hv.2]
  · cases hc

theorem PChain.all {text : Str} {Q : Match → Prop} {i : Nat} {ms : List Match} (h : PChain text Q i ms) :
    ∀ m ∈ ms, Q m := by
  induction h with
  | nil i => intro m hm; cases hm
  | cons i m ms h1 h2 h3 hq hr ih =>
    intro m' hm'
    rcases List.mem_cons.1 hm' with rfl | hm'
    · exact hq
    · exact ih m' hm'

theorem slice_prefix (t v tail : Str) (a : Nat) (h : t.drop a = v ++ tail) : slice t a (a + v.length) = v := by
  unfold slice
  rw [List.drop_take, h]
  have : a + v.length - a = v.length := by omega
  rw [this, List.take_left]

/-- every capture of group `g` in `r.finditer text` is a text the body of the group can consume -/
theorem finditer_cap (g : Nat) (r : Rx) (hc : capCheck g r = true) (text : Str) :
    ∀ m ∈ r.finditer text, ∃ v, m.group? text g = some v ∧ Eats (capBody r) v := by
  apply PChain.all (finditer_pchain r text (fun m => ∃ v, m.group? text g = some v ∧ Eats (capBody r) v) ?_)
  intro m prev adv hm _
  obtain ⟨s', hr, hm'⟩ := matchHere_runs r _ adv m hm
  obtain ⟨v, tail, h1, h2, h3⟩ := cap_spans g r hc _ s' hr
  refine ⟨v, ?_, h2⟩
  simp only [] at h1 h3 hm'
  rw [← hm'] at h3
  simp only [Match.group?, h3]
  rw [slice_prefix text v tail _ h1]

/-- every code point -/
def anyChar : CharSet := [(0, 1114111)]

theorem anyChar_mem (c : Char) : anyChar.mem c = true := by
  have hv := c.valid
  simp only [anyChar, CharSet.mem, List.any_cons, List.any_nil, Bool.or_false, Bool.and_eq_true, decide_eq_true_eq]
  refine ⟨Nat.zero_le _, ?_⟩
  have : c.toNat = c.val.toNat := rfl
  rw [this]
  rcases hv with h | h
  · have : c.val.toNat < 55296 := h
    omega
  · have : c.val.toNat < 1114112 := h.2
    omega

theorem hits_anyChar (v : Str) : hits anyChar v = v.length := by
  unfold hits
  rw [List.countP_eq_length]
  intro c _; exact anyChar_mem c

/-- a bound on the width of a match, through `Rx.maxHits` for the class of all characters -/
theorem Eats.maxWidth {r : Rx} {v : Str} (h : Eats r v) (k : Nat) (hk : r.maxHits anyChar = some k) : v.length ≤ k := by
  rw [← hits_anyChar]; exact h.maxHits anyChar k hk

/-- the characters of a class, enumerated -/
def CharSet.chars (cs : CharSet) : List Char :=
  cs.flatMap (fun r => (List.range (r.2 + 1 - r.1)).map (fun i => Char.ofNat (r.1 + i)))

theorem CharSet.mem_chars {cs : CharSet} {c : Char} (h : cs.mem c = true) : c ∈ cs.chars := by
  simp only [CharSet.mem, List.any_eq_true, Bool.and_eq_true, decide_eq_true_eq] at h
  obtain ⟨r, hr, h1, h2⟩ := h
  simp only [CharSet.chars, List.mem_flatMap, List.mem_map, List.mem_range]
  refine ⟨r, hr, c.toNat - r.1, by omega, ?_⟩
  have : r.1 + (c.toNat - r.1) = c.toNat := by omega
  rw [this]
  exact Char.ofNat_toNat c

/-- the texts that fit a word of classes, enumerated -/
def wordStrs : Word → List Str
  | [] => [[]]
  | cs :: w => cs.chars.flatMap (fun c => (wordStrs w).map (c :: ·))

theorem Fits.mem_wordStrs : ∀ {w : Word} {v : Str}, Fits w v → v ∈ wordStrs w
  | [], [], _ => by simp [wordStrs]
  | cs :: w, c :: t, h => by
    simp only [wordStrs, List.mem_flatMap, List.mem_map]
    exact ⟨c, CharSet.mem_chars h.1, t, Fits.mem_wordStrs h.2, rfl⟩
  | [], _ :: _, h => by cases h
  | _ :: _, [], h => by cases h

/-- all texts of at most `n` characters that the pattern can consume (an over-approximation, finite when the classes are) -/
def Rx.shortStrs (n : Nat) (r : Rx) : List Str := (r.words n).flatMap wordStrs

theorem Eats.mem_shortStrs {r : Rx} {v : Str} (h : Eats r v) (n : Nat) (hn : r.maxHits anyChar = some n) :
    v ∈ r.shortStrs n := by
  obtain ⟨w, hw, hf⟩ := h.words n (h.maxWidth n hn)
  exact List.mem_flatMap.2 ⟨w, hw, hf.mem_wordStrs⟩

/-- the group index of `aliquot_no_frac` -/
def aliquotNoFracIdx : Nat :=
  (Gen.single_aliquot_unpacker_regex_groups.find? (fun g => g.1 == "aliquot_no_frac")).map (·.2) |>.getD 0

/-- everything `[NESW]{1,2}|ALL` can capture: the eight proper components, twelve improper two-letter combinations, `ALL` -/
def capturable : List Str :=
  [S "N", S "E", S "S", S "W",
   S "NN", S "NE", S "NS", S "NW", S "EN", S "EE", S "ES", S "EW", S "SN", S "SE", S "SS", S "SW", S "WN", S "WE", S "WS", S "WW",
   S "ALL"]

/-- decided on the regenerated pattern: its shape, the width of the named group, and the texts the group can hold -/
theorem unpacker_checks :
    capCheck aliquotNoFracIdx Gen.single_aliquot_unpacker_regex = true ∧
    (capBody Gen.single_aliquot_unpacker_regex).maxHits anyChar = some 3 ∧
    ((capBody Gen.single_aliquot_unpacker_regex).shortStrs 3).all (fun v => capturable.contains v) = true := by
  decide +kernel

theorem componentsOf_eq (text : Str) :
    componentsOf text =
      (Gen.single_aliquot_unpacker_regex.finditer text).filterMap (fun m => m.group? text aliquotNoFracIdx) := rfl

/-- **C03_componentsOf_shape**: every component `parse_aliquot` extracts from ANY text is one of the 21 strings `[NESW]{1,2}|ALL`
can hold (the pattern is case-sensitive: `ne¼` yields nothing). -/
theorem C03_componentsOf_shape (text : Str) : ∀ c ∈ componentsOf text, c ∈ capturable := by
  intro c hc
  rw [componentsOf_eq, List.mem_filterMap] at hc
  obtain ⟨m, hm, hg⟩ := hc
  obtain ⟨h1, h2, h3⟩ := unpacker_checks
  obtain ⟨v, hv, ev⟩ := finditer_cap _ _ h1 text m hm
  rw [hg] at hv
  cases hv
  have := List.all_eq_true.1 h3 _ (ev.mem_shortStrs 3 h2)
  simpa using this

/-- when every extracted component happens to be proper, the component list is a typed chain (the hypothesis of `C02_total`) -/
theorem componentsOf_proper_of (text : Str) (h : ∀ c ∈ componentsOf text, sHalf c = true ∨ sQuarter c = true) :
    ∃ chain : List Comp, componentsOf text = chain.map Comp.str := by
  generalize componentsOf text = l at h
  induction l with
  | nil => exact ⟨[], rfl⟩
  | cons c rest ih =>
    obtain ⟨chain, hc⟩ := ih (fun x hx => h x (List.mem_cons_of_mem _ hx))
    have : ∃ k : Comp, c = k.str := by
      rcases h c List.mem_cons_self with hh | hq
      · rcases (sHalf_iff c).1 hh with rfl | rfl | rfl | rfl
        · exact ⟨.N, rfl⟩
        · exact ⟨.S, rfl⟩
        · exact ⟨.E, rfl⟩
        · exact ⟨.W, rfl⟩
      · rcases (sQuarter_iff c).1 hq with rfl | rfl | rfl | rfl
        · exact ⟨.NE, rfl⟩
        · exact ⟨.NW, rfl⟩
        · exact ⟨.SE, rfl⟩
        · exact ⟨.SW, rfl⟩
    obtain ⟨k, rfl⟩ := this
    exact ⟨k :: chain, by rw [hc]; rfl⟩

/-- the regex does NOT only capture proper components: goal "`componentsOf text = chain.map Comp.str` for some chain" is false
(witness `NN`; the real `parse_aliquot('NN')` goes on to return `['NENENN', 'NWNENN', …]`, 16 strings that name no aliquot) -/
theorem C03_componentsOf_not_always_proper :
    ¬ ∀ text : Str, ∃ chain : List Comp, componentsOf text = chain.map Comp.str := by
  intro h
  obtain ⟨chain, hc⟩ := h (S "NN")
  have e : componentsOf (S "NN") = [S "NN"] := by decide +kernel
  rw [e] at hc
  match chain, hc with
  | [], hc => simp at hc
  | _ :: _ :: _, hc => simp at hc
  | [c], hc =>
    simp only [List.map_cons, List.map_nil, List.cons.injEq, and_true] at hc
    cases c <;> revert hc <;> decide

/-! ## Part D — the Tract pipeline never reports divergence -/

open PyTRS.Tract PyTRS.Obj

theorem C03_tractParseRaw_never_diverges (txt : Str) (a : ParseArgs) (inh : Flags) :
    ∃ r, tractParseRaw txt a inh = .ok r ∧ r.diverged = false := by
  obtain ⟨r, hr, hd⟩ := C03_tractParseRaw_terminates txt a inh
  refine ⟨r, hr, ?_⟩
  cases h : r.diverged with
  | false => rfl
  | true => obtain ⟨b, hb⟩ := hd h; exact absurd hb (C03_parseAliquot_total b a.depth)

theorem C03_tractParse_never_diverges (txt : Str) (a : ParseArgs) (inh : Flags) :
    ∃ r, tractParse txt a inh = .ok r ∧ r.diverged = false := by
  obtain ⟨r, hr, hd⟩ := C03_tractParse_terminates txt a inh
  refine ⟨r, hr, ?_⟩
  cases h : r.diverged with
  | false => rfl
  | true => obtain ⟨b, hb⟩ := hd h; exact absurd hb (C03_parseAliquot_total b a.depth)

/-- `Tract.parse(commit, **kw)` never raises and leaves the model's `diverged` marker as it found it -/
theorem C03_tractParseMethod_never_diverges (t : TractObj) (commit : Bool) (kw : TractKw) :
    ∃ r, tractParseMethod t commit kw = .ok r ∧ r.1.diverged = t.diverged := by
  unfold tractParseMethod
  obtain ⟨r, hr, hd⟩ := C03_tractParse_never_diverges t.desc (effectiveTract t.attrs kw) (inheritedFlags t)
  simp only [hr]
  split <;> exact ⟨_, rfl, by simp [hd]⟩

theorem C03_tractPreprocess_never_diverges (t : TractObj) (c : Option Bool) (commit : Bool) :
    (tractPreprocess t c commit).1.diverged = t.diverged := by
  obtain ⟨p, _, h⟩ := C03_tractPreprocess_terminates t c commit
  rw [h]; split <;> rfl

theorem tractInitCore_diverged (t t' : TractObj) (h : tractInitCore t = .ok t') : t'.diverged = t.diverged := by
  unfold tractInitCore at h
  split at h
  · obtain ⟨r, hr, hd⟩ := C03_tractParseMethod_never_diverges t true {}
    rw [hr] at h
    cases h; exact hd
  · cases h; exact C03_tractPreprocess_never_diverges t none true

/-- `Tract(desc, trs, config, parse_qq, …)`: whenever the constructor returns (it can only raise on a bad config), the new
object is not marked diverged -/
theorem C03_tractInit_never_diverges (uid : Nat) (desc : Str) (trs : Option Str) (config : CfgArg) (parseQQ : Option Bool)
    (source origDesc : OptStr) (origIndex : Int) (look : Option Str → TRS.TrsDict) (t : TractObj)
    (h : tractInit uid desc trs config parseQQ source origDesc origIndex look = .ok t) : t.diverged = false := by
  unfold tractInit at h
  split at h
  · cases h
  · rw [tractInitCore_diverged _ _ h]

/-- **C03_tract_never_diverges**: for every text, settings / keyword arguments and inherited flags, no result of the Tract
pipeline has `diverged = true` (and `Tract.parse` / `Tract.preprocess` on an existing object leave the marker as it was). -/
theorem C03_tract_never_diverges :
    (∀ (txt : Str) (a : ParseArgs) (inh : Flags), ∃ r, tractParseRaw txt a inh = .ok r ∧ r.diverged = false) ∧
    (∀ (txt : Str) (a : ParseArgs) (inh : Flags), ∃ r, tractParse txt a inh = .ok r ∧ r.diverged = false) ∧
    (∀ (t : TractObj) (commit : Bool) (kw : TractKw),
        ∃ r, tractParseMethod t commit kw = .ok r ∧ r.1.diverged = t.diverged) ∧
    (∀ (t : TractObj) (c : Option Bool) (commit : Bool), (tractPreprocess t c commit).1.diverged = t.diverged) ∧
    (∀ (uid : Nat) (desc : Str) (trs : Option Str) (config : CfgArg) (parseQQ : Option Bool) (source origDesc : OptStr)
        (origIndex : Int) (look : Option Str → TRS.TrsDict) (t : TractObj),
        tractInit uid desc trs config parseQQ source origDesc origIndex look = .ok t → t.diverged = false) :=
  ⟨C03_tractParseRaw_never_diverges, C03_tractParse_never_diverges, C03_tractParseMethod_never_diverges,
   C03_tractPreprocess_never_diverges, C03_tractInit_never_diverges⟩

/-! ## Part E — the PLSSDesc pipeline never reports divergence -/

open PyTRS.Plss

/-- `PLSSPreprocessor`: whenever it returns, `reduce_whitespace` has terminated within its fuel -/
theorem C03_plssPreprocess_never_diverges (mc : MC) (txt : Str) (ns ew : Option Str) (ocr : Bool) (r : PPResult)
    (h : plssPreprocess mc txt ns ew ocr = .ok r) : r.diverged = false := by
  unfold plssPreprocess at h
  simp only [] at h
  split at h
  · cases h
  · split at h
    · cases h
    · rename_i t _
      have hw := C03_reduceWhitespace_fuel t
      split at h
      · rename_i hn; rw [hn] at hw; cases hw
      · split at h
        · cases h
        · cases h; rfl

theorem buildTracts_diverged (uid0 : Nat) (handedDown : Str) (parseQQ : Bool) (source : OptStr) (text : Str)
    (look : Option Str → TRS.TrsDict) :
    ∀ (specs : List (Str × Str × Bool)) (idx : Nat) (ts : List TractObj),
      buildTracts uid0 handedDown parseQQ source text look idx specs = .ok ts → ∀ t ∈ ts, t.diverged = false := by
  intro specs
  induction specs with
  | nil => intro idx ts h; rw [buildTracts] at h; cases h; intro t ht; cases ht
  | cons sp rest ih =>
    intro idx ts h
    obtain ⟨desc, trs, sw⟩ := sp
    rw [buildTracts] at h
    split at h
    · cases h
    · rename_i t0 ht0
      split at h
      · cases h
      · rename_i ts0 hts0
        cases h
        intro t ht
        rcases List.mem_cons.1 ht with rfl | ht
        · exact C03_tractInit_never_diverges _ _ _ _ _ _ _ _ _ _ ht0
        · exact ih _ _ hts0 t ht

theorem handDownFlags_diverged (dfl : Tract.Flags) (ts : List TractObj) (h : ∀ t ∈ ts, t.diverged = false) :
    ∀ t ∈ handDownFlags dfl ts, t.diverged = false := by
  intro t ht
  unfold handDownFlags at ht
  obtain ⟨t0, ht0, rfl⟩ := List.mem_map.1 ht
  exact h t0 ht0

/-- `PLSSParser(text, …)`: whenever it returns, neither the preprocessor nor any of the tracts it built is marked diverged -/
theorem C03_plssParser_never_diverges (mc : MC) (uid0 : Nat) (text : Str) (a : ParserArgs)
    (look : Option Str → TRS.TrsDict) (out : ParserOut) (h : plssParser mc uid0 text a look = .ok out) :
    out.diverged = false ∧ ∀ t ∈ out.tracts, t.diverged = false := by
  unfold plssParser at h
  split at h
  · cases h
  · split at h
    · cases h
    · rename_i pp hpp
      simp only [] at h
      split at h
      · cases h
      · split at h
        · cases h
        · split at h
          · cases h
          · rename_i tracts htr
            split at h
            · cases h
            · cases h
              have hall := handDownFlags_diverged (errorTractFlag ‹_› tracts) tracts
                (buildTracts_diverged _ _ _ _ _ _ _ _ _ htr)
              refine ⟨?_, hall⟩
              simp only [C03_plssPreprocess_never_diverges _ _ _ _ _ _ hpp, Bool.false_or]
              rw [Bool.eq_false_iff]
              intro hany
              obtain ⟨t, ht, hd⟩ := List.any_eq_true.1 hany
              rw [hall t ht] at hd; cases hd

/-- `PLSSDesc.parse(commit, **kw)`: whenever it returns, nothing diverged, and the object's marker is as it was -/
theorem C03_descParse_never_diverges (mc : MC) (uid0 : Nat) (d : DescObj) (kw : DescKw) (commit : Bool)
    (look : Option Str → TRS.TrsDict) (r : DescObj × ParserOut) (h : descParse mc uid0 d kw commit look = .ok r) :
    r.2.diverged = false ∧ (∀ t ∈ r.2.tracts, t.diverged = false) ∧ r.1.diverged = d.diverged ∧
      (r.1.tracts = r.2.tracts ∨ r.1.tracts = d.tracts) := by
  unfold descParse at h
  split at h
  · cases h
  · rename_i out hout
    obtain ⟨h1, h2⟩ := C03_plssParser_never_diverges _ _ _ _ _ _ hout
    split at h
    · cases h; exact ⟨h1, h2, by simp [h1], Or.inl rfl⟩
    · cases h; exact ⟨h1, h2, by simp [h1], Or.inr rfl⟩

theorem C03_descPreprocess_never_diverges (mc : MC) (d : DescObj) (ns ew : Option Str) (ocr : Option Bool) (commit : Bool)
    (r : DescObj × Str) (h : descPreprocess mc d ns ew ocr commit = .ok r) :
    r.1.diverged = d.diverged ∧ r.1.tracts = d.tracts := by
  unfold descPreprocess at h
  simp only [] at h
  split at h
  · cases h
  · cases h; split <;> exact ⟨rfl, rfl⟩

/-- `PLSSDesc(raw, layout, config, parse_qq, …)`: whenever the constructor returns, neither the description nor any of its
tracts is marked diverged -/
theorem C03_descInit_never_diverges (mc : MC) (uid0 : Nat) (raw : Str) (layout : Option Str) (config : CfgArg)
    (parseQQ : Option Bool) (source : OptStr) (wait : Option Bool) (look : Option Str → TRS.TrsDict) (r : DescObj × Nat)
    (h : descInit mc uid0 raw layout config parseQQ source wait look = .ok r) :
    r.1.diverged = false ∧ ∀ t ∈ r.1.tracts, t.diverged = false := by
  unfold descInit at h
  split at h
  · cases h
  · simp only [] at h
    split at h
    · split at h
      · cases h
      · rename_i r0 hr0
        cases h
        obtain ⟨_, h2, h3, h4⟩ := C03_descParse_never_diverges _ _ _ _ _ _ _ hr0
        refine ⟨by rw [h3], ?_⟩
        rcases h4 with h4 | h4
        · rw [h4]; exact h2
        · rw [h4]; intro t ht; cases ht
    · split at h
      · cases h
      · rename_i r0 hr0
        cases h
        obtain ⟨h3, h4⟩ := C03_descPreprocess_never_diverges _ _ _ _ _ _ _ hr0
        refine ⟨by rw [h3], ?_⟩
        rw [h4]; intro t ht; cases ht

/-- **C03_desc_never_diverges**: whenever `plssParser` / `descParse` / `descInit` return `.ok`, nothing in the result is
marked diverged — no lexical hypothesis on the text, no hypothesis on the settings -/
theorem C03_desc_never_diverges :
    (∀ (mc : MC) (uid0 : Nat) (text : Str) (a : ParserArgs) (look : Option Str → TRS.TrsDict) (out : ParserOut),
        plssParser mc uid0 text a look = .ok out → out.diverged = false ∧ ∀ t ∈ out.tracts, t.diverged = false) ∧
    (∀ (mc : MC) (uid0 : Nat) (d : DescObj) (kw : DescKw) (commit : Bool) (look : Option Str → TRS.TrsDict)
        (r : DescObj × ParserOut), descParse mc uid0 d kw commit look = .ok r →
        r.2.diverged = false ∧ (∀ t ∈ r.2.tracts, t.diverged = false) ∧ r.1.diverged = d.diverged) ∧
    (∀ (mc : MC) (uid0 : Nat) (raw : Str) (layout : Option Str) (config : CfgArg) (parseQQ : Option Bool) (source : OptStr)
        (wait : Option Bool) (look : Option Str → TRS.TrsDict) (r : DescObj × Nat),
        descInit mc uid0 raw layout config parseQQ source wait look = .ok r →
        r.1.diverged = false ∧ ∀ t ∈ r.1.tracts, t.diverged = false) :=
  ⟨C03_plssParser_never_diverges,
   fun mc u d kw c look r h => let ⟨a, b, c', _⟩ := C03_descParse_never_diverges mc u d kw c look r h; ⟨a, b, c'⟩,
   C03_descInit_never_diverges⟩

/-! ## Part F — the driver: no `World.step` output is `.diverged`, over every history -/

open PyTRS.World

/-- no stored object carries the `diverged` marker -/
def NoDivWorld (w : World.World) : Prop :=
  (∀ e ∈ w.tracts, e.2.diverged = false) ∧
  (∀ e ∈ w.descs, e.2.diverged = false ∧ ∀ t ∈ e.2.tracts, t.diverged = false)

def DescClean (d : DescObj) : Prop := d.diverged = false ∧ ∀ t ∈ d.tracts, t.diverged = false

theorem nodiv_init : NoDivWorld {} := by
  constructor <;> intro e he <;> exact absurd he List.not_mem_nil

theorem nodiv_fill (w : World.World) (n : Nat) (ks : List Str) (h : NoDivWorld w) :
    NoDivWorld ({ w with nextUid := n }.fill ks) := by
  unfold NoDivWorld
  rw [(fill_fields _ ks).2.2.2.2, (fill_fields _ ks).2.2.2.1]
  exact h

theorem nodiv_putTract (w : World.World) (id : Nat) (t : TractObj) (hw : NoDivWorld w) (ht : t.diverged = false) :
    NoDivWorld (putTract w id t) := by
  refine ⟨?_, hw.2⟩
  intro e he
  unfold putTract at he
  simp only [List.mem_append, List.mem_filter, List.mem_singleton] at he
  rcases he with ⟨he, _⟩ | rfl
  · exact hw.1 e he
  · exact ht

theorem nodiv_putDesc (w : World.World) (id : Nat) (d : DescObj) (hw : NoDivWorld w) (hd : DescClean d) :
    NoDivWorld (putDesc w id d) := by
  refine ⟨hw.1, ?_⟩
  intro e he
  unfold putDesc at he
  simp only [List.mem_append, List.mem_filter, List.mem_singleton] at he
  rcases he with ⟨he, _⟩ | rfl
  · exact hw.2 e he
  · exact hd

theorem mem_of_getDesc (w : World.World) (id : Nat) (d : DescObj) (h : getDesc w id = some d) :
    ∃ e ∈ w.descs, e.2 = d := by
  unfold getDesc at h
  cases hf : w.descs.find? (fun e => e.1 == id) with
  | none => simp [hf] at h
  | some e =>
    simp only [hf, Option.map_some, Option.some.injEq] at h
    exact ⟨e, List.mem_of_find?_eq_some hf, h⟩

theorem tractSetConfig_diverged (t t' : TractObj) (cfg : CfgArg) (h : tractSetConfig t cfg = .ok t') :
    t'.diverged = t.diverged := by
  unfold tractSetConfig at h
  split at h
  · cases h
  · cases h; rfl

/-- `TractList.parse_tracts`: no tract comes out marked diverged -/
theorem parseTracts_diverged (ts ts' : List TractObj) (cfg : Option Str) (kw : TractKw)
    (h : parseTracts ts cfg kw = .ok ts') (hts : ∀ t ∈ ts, t.diverged = false) : ∀ t ∈ ts', t.diverged = false := by
  rw [parseTracts_eq] at h
  split at h
  · cases h
  · rename_i tsc hc
    have hcl : ∀ t ∈ tsc, t.diverged = false := by
      unfold configAll at hc
      cases cfg with
      | none => cases hc; exact hts
      | some c =>
        by_cases hc' : c.isEmpty = true
        · simp only [hc', if_true] at hc
          cases hc; exact hts
        · simp only [hc', Bool.false_eq_true, if_false] at hc
          intro t' ht'
          obtain ⟨t, ht, hs⟩ := mapM_mem _ _ _ hc t' ht'
          rw [tractSetConfig_diverged t t' _ hs]; exact hts t ht
    intro t' ht'
    obtain ⟨t, ht, hs⟩ := mapM_mem _ _ _ h t' ht'
    obtain ⟨r, hr, hd⟩ := C03_tractParseMethod_never_diverges t true kw
    rw [hr] at hs
    cases hs
    rw [hd]; exact hcl t ht

/-- one operation of the driver: the invariant is kept and the output is not the divergence marker -/
theorem step_nodiv (w : World.World) (op : Op) (h : NoDivWorld w) :
    NoDivWorld (step w op).1 ∧ (step w op).2 ≠ Out.diverged := by
  cases op <;> simp only [step]
  case setMC => exact ⟨h, by simp⟩
  case cacheOn => exact ⟨h, by simp⟩
  case cacheClear => exact ⟨h, by simp⟩
  case warm => exact ⟨nodiv_fill w w.nextUid _ h, by simp⟩
  case toDict => exact ⟨h, by simp⟩
  case toDictObj => exact ⟨nodiv_fill w w.nextUid _ h, by simp⟩
  case findTwprge => split <;> exact ⟨h, by simp⟩
  case fromTwprgesec =>
    split
    · exact ⟨h, by simp⟩
    · exact ⟨nodiv_fill w w.nextUid _ h, by simp⟩
  case newDesc id text layout cfg pq src wait =>
    split
    · exact ⟨h, by simp⟩
    · next d uid hd =>
      have hc : DescClean d := C03_descInit_never_diverges _ _ _ _ _ _ _ _ _ _ hd
      simp only [hc.1, Bool.false_eq_true, if_false]
      exact ⟨nodiv_putDesc _ _ _ (nodiv_fill _ _ _ h) hc, by simp⟩
  case descParse id kw commit =>
    split
    · exact ⟨h, by simp⟩
    · next d hg =>
      obtain ⟨e, he, rfl⟩ := mem_of_getDesc w id d hg
      split
      · exact ⟨h, by simp⟩
      · next d' out hp =>
        obtain ⟨h1, h2, h3, h4⟩ := C03_descParse_never_diverges _ _ _ _ _ _ _ hp
        simp only [] at h1 h2 h3 h4
        simp only [h1, Bool.false_eq_true, if_false]
        refine ⟨nodiv_putDesc _ _ _ (nodiv_fill _ _ _ h) ⟨by rw [h3]; exact (h.2 e he).1, ?_⟩, by simp⟩
        rcases h4 with h4 | h4
        · rw [h4]; exact h2
        · rw [h4]; exact (h.2 e he).2
  case descParseTracts id cfg kw =>
    split
    · exact ⟨h, by simp⟩
    · next d hg =>
      obtain ⟨e, he, rfl⟩ := mem_of_getDesc w id d hg
      split
      · exact ⟨h, by simp⟩
      · next ts hp =>
        exact ⟨nodiv_putDesc _ _ _ h ⟨(h.2 e he).1, parseTracts_diverged _ _ _ _ hp (h.2 e he).2⟩, by simp⟩
  case descPreprocess id commit =>
    split
    · exact ⟨h, by simp⟩
    · next d hg =>
      obtain ⟨e, he, rfl⟩ := mem_of_getDesc w id d hg
      split
      · exact ⟨h, by simp⟩
      · next d' s hp =>
        obtain ⟨h3, h4⟩ := C03_descPreprocess_never_diverges _ _ _ _ _ _ _ hp
        simp only [] at h3 h4
        exact ⟨nodiv_putDesc _ _ _ h ⟨by rw [h3]; exact (h.2 e he).1, by rw [h4]; exact (h.2 e he).2⟩, by simp⟩
  case descConfig id cfg =>
    split
    · exact ⟨h, by simp⟩
    · next d hg =>
      obtain ⟨e, he, rfl⟩ := mem_of_getDesc w id d hg
      split
      · exact ⟨h, by simp⟩
      · next d' hp =>
        refine ⟨nodiv_putDesc _ _ _ h ?_, by simp⟩
        unfold descSetConfig at hp
        split at hp
        · cases hp
        · cases hp; exact h.2 e he
  case descSort id key reverse =>
    split
    · exact ⟨h, by simp⟩
    · next d hg =>
      obtain ⟨e, he, rfl⟩ := mem_of_getDesc w id d hg
      have hperm := C17_custom_sort_perm (e.2.tracts.map Cont.Elem.tract) key reverse
      have hcl : ∀ t ∈ (Cont.customSort (e.2.tracts.map Cont.Elem.tract) key reverse).1.filterMap
          (fun x => match x with | .tract t => some t | _ => none), t.diverged = false := by
        intro t ht
        simp only [List.mem_filterMap] at ht
        obtain ⟨x, hx, hxt⟩ := ht
        have hx' := hperm.mem_iff.1 hx
        obtain ⟨t0, ht0, rfl⟩ := List.mem_map.1 hx'
        simp only [Option.some.injEq] at hxt
        subst hxt
        exact (h.2 e he).2 t0 ht0
      split
      · exact ⟨nodiv_putDesc _ _ _ h ⟨(h.2 e he).1, hcl⟩, by simp⟩
      · exact ⟨nodiv_putDesc _ _ _ h ⟨(h.2 e he).1, hcl⟩, by simp⟩
  case newTract id text trs cfg pq =>
    split
    · exact ⟨h, by simp⟩
    · next t ht =>
      have hd := C03_tractInit_never_diverges _ _ _ _ _ _ _ _ _ _ ht
      simp only [hd, Bool.false_eq_true, if_false]
      exact ⟨nodiv_putTract _ _ _ (nodiv_fill _ _ _ h) hd, by simp⟩
  case tractParse id kw commit =>
    split
    · exact ⟨h, by simp⟩
    · next t hg =>
      obtain ⟨e, he, rfl⟩ := mem_of_getTract w id t hg
      obtain ⟨r, hr, hd⟩ := C03_tractParseMethod_never_diverges e.2 commit kw
      rw [hr]
      have hd' : r.1.diverged = false := by rw [hd]; exact h.1 e he
      simp only [hd', Bool.false_eq_true, if_false]
      exact ⟨nodiv_putTract _ _ _ h hd', by simp⟩
  case tractPreprocess id c commit =>
    split
    · exact ⟨h, by simp⟩
    · next t hg =>
      obtain ⟨e, he, rfl⟩ := mem_of_getTract w id t hg
      refine ⟨nodiv_putTract _ _ _ h ?_, by simp⟩
      rw [C03_tractPreprocess_never_diverges]; exact h.1 e he
  case tractConfig id cfg =>
    split
    · exact ⟨h, by simp⟩
    · next t hg =>
      obtain ⟨e, he, rfl⟩ := mem_of_getTract w id t hg
      split
      · exact ⟨h, by simp⟩
      · next t' ht =>
        exact ⟨nodiv_putTract _ _ _ h (by rw [tractSetConfig_diverged _ _ _ ht]; exact h.1 e he), by simp⟩

theorem run_nodiv (ops : List Op) : ∀ (w : World.World), NoDivWorld w →
    NoDivWorld (run w ops).1 ∧ ∀ o ∈ (run w ops).2, o ≠ Out.diverged := by
  induction ops with
  | nil => intro w h; exact ⟨h, fun o ho => by cases ho⟩
  | cons op rest ih =>
    intro w h
    obtain ⟨h1, h2⟩ := step_nodiv w op h
    obtain ⟨h3, h4⟩ := ih _ h1
    simp only [run]
    refine ⟨h3, ?_⟩
    intro o ho
    rcases List.mem_cons.1 ho with rfl | ho
    · exact h2
    · exact h4 o ho

/-- **C03_world_never_diverges**: over EVERY history of driver operations from the initial world, no output is the model's
divergence marker, and no stored object ever carries it. -/
theorem C03_world_never_diverges (hist : List Op) :
    (∀ o ∈ (run {} hist).2, o ≠ Out.diverged) ∧ NoDivWorld (run {} hist).1 :=
  ⟨(run_nodiv hist {} nodiv_init).2, (run_nodiv hist {} nodiv_init).1⟩

/-- the same from any world in which no stored object carries the marker (the hypothesis is needed: `Tract.parse` on a stored
tract that is already marked reports the marker again) -/
theorem C03_world_step_never_diverges (w : World.World) (op : Op) (h : NoDivWorld w) :
    (step w op).2 ≠ Out.diverged ∧ NoDivWorld (step w op).1 :=
  ⟨(step_nodiv w op h).2, (step_nodiv w op h).1⟩

/-- **every outcome the differential driver can render as `?diverged`**, in one statement: none of them occurs -/
theorem C03_never_diverges_summary :
    (∀ (text : Str) (a : DepthArgs), parseAliquot text a ≠ none) ∧
    (∀ l : List Str, standardize l ≠ none) ∧
    (∀ txt : Str, (Unpack.unpackSections txt).diverged = false) ∧
    (∀ txt : Str, (Unpack.unpackLots txt).diverged = false) ∧
    (∀ (t : Str) (b : Bool), Tract.scrubAliquots t b ≠ none) ∧
    (∀ (txt : Str) (a : ParseArgs) (inh : Flags), ∃ r, tractParse txt a inh = .ok r ∧ r.diverged = false) ∧
    (∀ (mc : MC) (txt : Str) (ns ew : Option Str) (ocr : Bool) (r : PPResult),
        plssPreprocess mc txt ns ew ocr = .ok r → r.diverged = false) ∧
    (∀ (uid : Nat) (desc : Str) (trs : Option Str) (config : CfgArg) (parseQQ : Option Bool) (source origDesc : OptStr)
        (origIndex : Int) (look : Option Str → TRS.TrsDict) (t : TractObj),
        tractInit uid desc trs config parseQQ source origDesc origIndex look = .ok t →
          t.diverged = false ∧ ∀ commit kw, ∃ r, tractParseMethod t commit kw = .ok r ∧ r.1.diverged = false) ∧
    (∀ (mc : MC) (uid0 : Nat) (raw : Str) (layout : Option Str) (config : CfgArg) (parseQQ : Option Bool) (source : OptStr)
        (wait : Option Bool) (look : Option Str → TRS.TrsDict) (r : DescObj × Nat),
        descInit mc uid0 raw layout config parseQQ source wait look = .ok r →
          r.1.diverged = false ∧ ∀ mc' u kw commit look' r', descParse mc' u r.1 kw commit look' = .ok r' →
            r'.2.diverged = false ∧ r'.1.diverged = false) ∧
    (∀ hist : List Op, ∀ o ∈ (run {} hist).2, o ≠ Out.diverged) := by
  refine ⟨C03_parseAliquot_total, ?_, C03_unpackSections_fuel, C03_unpackLots_fuel, C03_scrubAliquots_total,
    C03_tractParse_never_diverges, C03_plssPreprocess_never_diverges, ?_, ?_, fun hist => (C03_world_never_diverges hist).1⟩
  · intro l h
    obtain ⟨r, hr, _⟩ := C03_standardize_total l
    rw [hr] at h; cases h
  · intro uid desc trs config parseQQ source origDesc origIndex look t h
    have hd := C03_tractInit_never_diverges _ _ _ _ _ _ _ _ _ _ h
    refine ⟨hd, fun commit kw => ?_⟩
    obtain ⟨r, hr, hr'⟩ := C03_tractParseMethod_never_diverges t commit kw
    exact ⟨r, hr, by rw [hr', hd]⟩
  · intro mc uid0 raw layout config parseQQ source wait look r h
    have hd := (C03_descInit_never_diverges _ _ _ _ _ _ _ _ _ _ h).1
    refine ⟨hd, fun mc' u kw commit look' r' h' => ?_⟩
    obtain ⟨h1, _, h3, _⟩ := C03_descParse_never_diverges _ _ _ _ _ _ _ h'
    exact ⟨h1, by rw [h3, hd]⟩

/-! ## examples (non-vacuity) and sanity checks — all replayed on the real library -/

-- the regex captures improper components, and the loop still terminates on them
example : componentsOf (S "N½NN¼NE¼") = [S "N", S "NN", S "NE"] := by decide +kernel
example : componentsOf (S "ENWS ne¼ ALLN½") = [S "EN", S "WS", S "ALL", S "N"] := by decide +kernel
example : ∀ c ∈ componentsOf (S "ENWS ne¼ ALLN½"), c ∈ capturable := C03_componentsOf_shape _
example : ∃ r, standardize [S "NN", S "N", S "NE", S "EW", S "E", S "SW", S "N", S "E"] = some r ∧ standardizeStep r = r :=
  C03_standardize_total _
-- the measure at work on a list with inert members (`NN`, `EW`): 3 inversions + the length weight
example : muS [S "NN", S "N", S "NE", S "EW", S "E", S "SW"] = wG 6 + 3 := by decide
-- with too little fuel the loop DOES run dry: the theorem is about the fuel actually supplied
example : standardizeFuel 2 [S "N", S "NE", S "E", S "SW"] [] = none := by
  simp [standardizeFuel, standardizeStep, passBackHalves, passBackLoop, combineConsecutiveHalves, halves_eq, quarters_eq,
    qqNS_eq, S]
-- depth arguments outside the documented domain
example : parseAliquot (S "N½NE¼") { qqMin := 2, qqMax := some (-1) } ≠ none := C03_parseAliquot_total _ _
example : parseAliquot (S "NNN½EWALLNE¼S½") { qqDepth := some 1, breakHalves := true } ≠ none := C03_parseAliquot_total _ _
example : parseAliquot (S "N½NE¼") { qqDepth := some (-2) } ≠ none := C03_parseAliquot_total _ _
example : parseAliquot (S "no component at all") {} = some [] := by decide +kernel
-- the Tract entry points return (and are then covered by the theorems)
example : ∃ r, tractParse (S "Lot 1, N½NE¼, ALL") { depth := { qqDepth := some 0 } } {} = .ok r ∧ r.diverged = false :=
  C03_tractParse_never_diverges _ _ _
def exIsOk {ε α : Type} : Except ε α → Bool | .ok _ => true | .error _ => false
theorem exTractInit_ok :
    exIsOk (tractInit 0 (S "Lot 1, N2NE/4") (some (S "154n97w14")) .none (some true) none none 0) = true := by
  decide +kernel
example : ∃ t, tractInit 0 (S "Lot 1, N2NE/4") (some (S "154n97w14")) .none (some true) none none 0 = .ok t ∧
    t.diverged = false := by
  cases h : tractInit 0 (S "Lot 1, N2NE/4") (some (S "154n97w14")) .none (some true) none none 0 with
  | error e => have := exTractInit_ok; rw [h] at this; cases this
  | ok t => exact ⟨t, rfl, C03_tractInit_never_diverges _ _ _ _ _ _ _ _ _ _ h⟩
-- the PLSSDesc entry points return: the preprocessor on EVERY text, the parser on every text under `copy_all`,
-- the constructor on a concrete description (kernel evaluation of the whole pipeline)
example (txt : Str) (ocr : Bool) : ∃ r, plssPreprocess {} txt none none ocr = .ok r ∧ r.diverged = false := by
  obtain ⟨r, hr⟩ := C03_preprocess_total {} txt none none ocr (by decide) (by decide) (by simp) (by simp)
  exact ⟨r, hr, C03_plssPreprocess_never_diverges _ _ _ _ _ _ hr⟩
theorem exHandedDown_ok : handedDownOK { layout := some COPY_ALL, parseQQ := true } = true := by decide +kernel
example (text : Str) : ∃ out, plssParser {} 0 text { layout := some COPY_ALL, parseQQ := true } TRS.trsToDict = .ok out ∧
    out.diverged = false ∧ ∀ t ∈ out.tracts, t.diverged = false := by
  obtain ⟨out, ho⟩ := C03_plssParser_never_raises_copyall {} 0 text { layout := some COPY_ALL, parseQQ := true }
    TRS.trsToDict (by decide) (by decide) (by simp) (by simp) (C03_handedDown_of_check _ exHandedDown_ok) rfl
  exact ⟨out, ho, C03_plssParser_never_diverges _ _ _ _ _ _ ho⟩
theorem exDescInit_ok :
    exIsOk (descInit {} 0 (S "T1N-R2W Sec 3: N2NE") none .none (some true) none none) = true := by
  decide +kernel
example : ∃ r, descInit {} 0 (S "T1N-R2W Sec 3: N2NE") none .none (some true) none none = .ok r ∧
    r.1.diverged = false ∧ ∀ t ∈ r.1.tracts, t.diverged = false := by
  cases h : descInit {} 0 (S "T1N-R2W Sec 3: N2NE") none .none (some true) none none with
  | error e => have := exDescInit_ok; rw [h] at this; cases this
  | ok r => exact ⟨r, rfl, C03_descInit_never_diverges _ _ _ _ _ _ _ _ _ _ h⟩
-- the driver
example : ∀ o ∈ (run {} [.newTract 1 (S "Lot 1, NN½EWNE/4") (some (S "154n97w14")) .none (some true),
      .tractParse 1 { qqDepth := some (-2) } true, .newDesc 2 (S "T154N-R97W Sec 14: NE/4") none .none (some true) none none,
      .descParseTracts 2 none { qqDepthMin := some 0 }]).2, o ≠ Out.diverged :=
  (C03_world_never_diverges _).1

#print axioms C03_standardize_total
#print axioms C03_parseComponents_total
#print axioms C03_parseAliquot_total
#print axioms C03_componentsOf_shape
#print axioms C03_componentsOf_not_always_proper
#print axioms C03_tractParseRaw_never_diverges
#print axioms C03_tractParse_never_diverges
#print axioms C03_tractParseMethod_never_diverges
#print axioms C03_tractPreprocess_never_diverges
#print axioms C03_tractInit_never_diverges
#print axioms C03_tract_never_diverges
#print axioms C03_plssPreprocess_never_diverges
#print axioms C03_plssParser_never_diverges
#print axioms C03_descParse_never_diverges
#print axioms C03_descPreprocess_never_diverges
#print axioms C03_descInit_never_diverges
#print axioms C03_desc_never_diverges
#print axioms C03_world_step_never_diverges
#print axioms C03_world_never_diverges
#print axioms C03_never_diverges_summary

end PyTRS
