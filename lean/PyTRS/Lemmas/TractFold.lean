/-
C06 — tract parsing is compositional at the level of its folds: lots / QQs are per-block concatenations,
lot divisions, acreage attribution, `ilots`, and the overall shape of `tractParseRaw`.
-/
import PyTRS.Props.C06
import PyTRS.Props.C03
import PyTRS.Lemmas.IntRepr
namespace PyTRS
open PyTRS.Tract PyTRS.Unpack

/-- the lots each lot block yields on its own (divisions applied), in order; `[]` for a block that would raise -/
def lotsOfBlocks (a : ParseArgs) (blocks : List (Str × Option Str)) : List Str :=
  blocks.flatMap (fun bl => match blockLots a (unpackLots bl.1) bl.2 with | .ok l => l | .error _ => [])

/-! ### the lot-block fold -/

theorem lotBlockStep_lots (a : ParseArgs) (st st' : LotAcc) (bl : Str × Option Str)
    (h : lotBlockStep a st bl = .ok st') :
    st'.lots = st.lots ++ (match blockLots a (unpackLots bl.1) bl.2 with | .ok l => l | .error _ => []) := by
  unfold lotBlockStep at h
  simp only at h
  split at h
  · cases h
  · next newLots hb =>
    rw [hb]
    cases h
    rfl

/-- lots: the fold over lot blocks reports the concatenation, in order, of what each block yields on its own -/
theorem C06_lots_concat (a : ParseArgs) (st st' : LotAcc) (blocks : List (Str × Option Str))
    (h : lotBlocksFold a st blocks = .ok st') : st'.lots = st.lots ++ lotsOfBlocks a blocks := by
  induction blocks generalizing st with
  | nil =>
    simp only [lotBlocksFold] at h
    cases h
    simp [lotsOfBlocks]
  | cons bl rest ih =>
    simp only [lotBlocksFold] at h
    split at h
    · cases h
    · next st1 h1 =>
      rw [ih st1 h, lotBlockStep_lots a st st1 bl h1]
      simp [lotsOfBlocks, List.append_assoc]

/-- the fold splits over concatenation of block lists (each element is recognised independently) -/
theorem C06_lotBlocksFold_append (a : ParseArgs) (st : LotAcc) (b1 b2 : List (Str × Option Str)) :
    lotBlocksFold a st (b1 ++ b2) = (lotBlocksFold a st b1).bind (fun st' => lotBlocksFold a st' b2) := by
  induction b1 generalizing st with
  | nil => simp [lotBlocksFold, Except.bind]
  | cons bl rest ih =>
    simp only [List.cons_append, lotBlocksFold]
    cases lotBlockStep a st bl with
    | error e => simp [Except.bind]
    | ok st1 => exact ih st1

/-! ### the QQ fold -/

private def qqStep (depth : Aliquot.DepthArgs) (st : List Str × Bool) (b : Str) : List Str × Bool :=
  match Aliquot.parseAliquot b depth with
  | some q => (st.1 ++ q, st.2)
  | none => (st.1, true)

private theorem qqsOf_eq (depth : Aliquot.DepthArgs) (blocks : List Str) :
    qqsOf depth blocks = blocks.foldl (qqStep depth) ([], false) := rfl

private theorem qqFold_fst (depth : Aliquot.DepthArgs) (blocks : List Str) (st : List Str × Bool) :
    (blocks.foldl (qqStep depth) st).1 =
      st.1 ++ blocks.flatMap (fun b => (Aliquot.parseAliquot b depth).getD []) := by
  induction blocks generalizing st with
  | nil => simp
  | cons b rest ih =>
    simp only [List.foldl_cons, List.flatMap_cons]
    rw [ih]
    unfold qqStep
    cases Aliquot.parseAliquot b depth <;> simp

theorem C06_qqs_flatMap (depth : Aliquot.DepthArgs) (blocks : List Str) :
    (qqsOf depth blocks).1 = blocks.flatMap (fun b => (Aliquot.parseAliquot b depth).getD []) := by
  rw [qqsOf_eq, qqFold_fst]
  simp

/-- aliquots: the QQs are the concatenation, in order, of what each aliquot block yields on its own -/
theorem C06_qqs_concat (depth : Aliquot.DepthArgs) (b1 b2 : List Str) :
    (qqsOf depth (b1 ++ b2)).1 = (qqsOf depth b1).1 ++ (qqsOf depth b2).1 := by
  simp only [C06_qqs_flatMap, List.flatMap_append]

/-! ### lot divisions -/

/-- a lot division: the aliquot written directly before a lot group qualifies exactly the first `through` lots -/
theorem C06_leading_applies (lead : Str) (lots : List Str) (through : Int) (r : List Str)
    (h : applyLeading lead lots through = .ok r) :
    r.length = lots.length ∧ ∀ i (hi : i < lots.length) (hr : i < r.length),
      r[i] = if i < through.toNat then lead ++ S " of " ++ lots[i] else lots[i] := by
  unfold applyLeading at h
  simp only at h
  split at h
  · cases h
  · cases h
    refine ⟨by simp, ?_⟩
    intro i hi hr
    simp [S]

/-- suppressed divisions leave the lots as they are -/
theorem C06_suppressed_divisions (a : ParseArgs) (u : LotResult) (lead : Option Str) (h : a.suppressLotDivs = true) :
    blockLots a u lead = .ok u.lotList := by
  unfold blockLots
  cases lead <;> simp [h]

/-! ### acreage -/

private theorem find_map_ne (d : List (Str × Str)) (k v k' : Str) (hkk : ¬ k' = k) :
    Option.map (·.2) (List.find? (fun e => e.1 == k') (d.map (fun e => if e.1 == k then (k, v) else e))) =
      Option.map (·.2) (List.find? (fun e => e.1 == k') d) := by
  induction d with
  | nil => rfl
  | cons e rest ih =>
    have hk : (k == k') = false := by simpa using fun h : k = k' => hkk h.symm
    by_cases he : e.1 = k
    · have he1 : (e.1 == k) = true := by simpa using he
      have he2 : (e.1 == k') = false := by rw [he]; exact hk
      simp only [List.map_cons, he1, if_true, List.find?_cons, hk, he2]
      exact ih
    · have he1 : (e.1 == k) = false := by simpa using he
      simp only [List.map_cons, he1, Bool.false_eq_true, if_false, List.find?_cons]
      cases (e.1 == k')
      · exact ih
      · rfl

theorem dictGet_dictSet (d : List (Str × Str)) (k v k' : Str) :
    dictGet? (dictSet d k v) k' = if k' == k then some v else dictGet? d k' := by
  unfold dictSet dictGet?
  by_cases hkk : k' = k
  · subst hkk
    simp only [beq_self_eq_true, if_true]
    induction d with
    | nil => simp
    | cons e rest ih =>
      by_cases he : e.1 = k'
      · simp [he]
      · have he' : (e.1 == k') = false := by simpa using he
        simp only [List.any_cons, he', Bool.false_or, List.map_cons, Bool.false_eq_true, if_false]
        split
        · next h => 
          rw [h] at ih
          simp only [if_true] at ih
          simp only [List.find?_cons, he']
          exact ih
        · next h =>
          rw [if_neg h] at ih
          simp only [List.cons_append, List.find?_cons, he']
          exact ih
  · have hkk' : (k' == k) = false := by simpa using hkk
    simp only [hkk', Bool.false_eq_true, if_false]
    split
    · exact find_map_ne d k v k' hkk
    · have : ¬ k = k' := fun h => hkk h.symm
      simp [List.find?_append, this]

/-- a stated acreage is attributed to its lot: after the fold the table maps every lot that had an acreage stated to the
    acreage stated LAST for it -/
theorem C06_acreage_last_wins (fl : Flags) (tbl : List (Str × Str)) (acres : List (Str × Str)) (lot : Str) :
    dictGet? (acres.foldl acreStep (fl, tbl)).2 lot =
      match (acres.reverse.find? (fun la => la.1 == lot)) with
      | some la => some la.2
      | none => dictGet? tbl lot := by
  induction acres generalizing fl tbl with
  | nil => simp
  | cons la rest ih =>
    simp only [List.foldl_cons, List.reverse_cons, List.find?_append]
    have hs : acreStep (fl, tbl) la = ((acreStep (fl, tbl) la).1, dictSet tbl la.1 la.2) := rfl
    rw [hs, ih]
    cases hf : rest.reverse.find? (fun la => la.1 == lot) with
    | some x => simp
    | none =>
      simp only [Option.none_or, dictGet_dictSet, List.find?_cons, List.find?_nil]
      by_cases hk : (la.1 == lot) = true
      · have : (lot == la.1) = true := by rw [BEq.comm]; exact hk
        simp [hk, this]
      · have hk' : (la.1 == lot) = false := by simpa using hk
        have : (lot == la.1) = false := by rw [BEq.comm]; exact hk'
        simp [hk', this]

/-! ### `ilots` -/

private theorem splitGo_noSep (sep : Char) (s cur : Str) (h : sep ∉ s) :
    pySplitChar.go sep s cur = [cur.reverse ++ s] := by
  induction s generalizing cur with
  | nil => simp [pySplitChar.go]
  | cons c t ih =>
    have hc : (c == sep) = false := by
      simp only [beq_eq_false_iff_ne, ne_eq]
      intro e; exact h (by simp [e])
    rw [pySplitChar.go]
    simp only [hc, Bool.false_eq_true, if_false]
    rw [ih _ (fun hm => h (List.mem_cons_of_mem _ hm))]
    simp

private theorem splitGo_last (sep : Char) (pre post cur : Str) (h : sep ∉ post) :
    (pySplitChar.go sep (pre ++ sep :: post) cur).getLast? = some post := by
  induction pre generalizing cur with
  | nil =>
    simp only [List.nil_append]
    rw [pySplitChar.go]
    simp only [beq_self_eq_true, if_true]
    rw [splitGo_noSep sep post [] h]
    simp
  | cons c t ih =>
    simp only [List.cons_append]
    rw [pySplitChar.go]
    split
    · rw [List.getLast?_cons, ih]; rfl
    · exact ih _

theorem split_last (sep : Char) (pre post : Str) (h : sep ∉ post) :
    (pySplitChar sep (pre ++ sep :: post)).getLast? = some post := splitGo_last sep pre post [] h

theorem intToStr_no_L (n : Int) : 'L' ∉ intToStr n := by
  intro hm
  cases n with
  | ofNat k =>
    rw [intToStr_ofNat] at hm
    have := natToStr_digits k _ hm
    revert this; decide
  | negSucc k =>
    rw [intToStr_negSucc] at hm
    rcases List.mem_cons.1 hm with h | h
    · revert h; decide
    · have := natToStr_digits _ _ h
      revert this; decide

theorem ilots_one (pre : Str) (n : Int) :
    pyInt? ((pySplitChar 'L' (pre ++ lotName n)).getLast?.getD []) = some n := by
  unfold lotName
  rw [split_last 'L' pre _ (intToStr_no_L n)]
  simp [pyInt_intToStr]

/-- `ilots` mirrors `lots`: the integer of every lot name `L<n>` is `n` -/
theorem C06_ilots_of_names (ns : List Int) : ilots (ns.map lotName) = .ok ns := by
  unfold ilots
  induction ns with
  | nil => rfl
  | cons n rest ih =>
    simp only [List.map_cons, List.mapM_cons, ih]
    have := ilots_one [] n
    simp only [List.nil_append] at this
    rw [this]
    rfl

/-- stronger than asked: whatever precedes the lot name (even text containing 'L'), the integer is `n`, because the
    split takes the piece after the LAST 'L' and `intToStr n` contains none -/
theorem ilots_prefixed (pre : Str) (n : Int) : ilots [pre ++ lotName n] = .ok [n] := by
  unfold ilots
  simp only [List.mapM_cons, List.mapM_nil, ilots_one]
  rfl

theorem C06_ilots_division (lead : Str) (n : Int) (hL : 'L' ∉ lead) :
    ilots [lead ++ S " of " ++ lotName n] = .ok [n] := by
  have _ := hL  -- (not needed: see `ilots_prefixed`)
  exact ilots_prefixed (lead ++ S " of ") n

/-! ### the shape of `tractParseRaw` -/

/-- a lot block of the extraction loop never raises (so the `[]` branch of `lotsOfBlocks` is never taken) -/
theorem blockLots_total (a : ParseArgs) (t : Str) (lead : Option Str) :
    ∃ l, blockLots a (unpackLots t) lead = .ok l := by
  unfold blockLots
  cases lead with
  | none => exact ⟨_, rfl⟩
  | some ld =>
    simp only
    split
    · exact C03_applyLeading_total _ _ _ (C03_aliquots_through_le t)
    · exact ⟨_, rfl⟩

/-- what `tractParseRaw` reports, as a function of the blocks its two extraction loops found: lots = per-block lots in
    order, qqs = per-block QQs in order (plus ALL) -/
theorem C06_tractParse_shape (txt : Str) (a : ParseArgs) (inh : Flags) (r : ParseResult)
    (h : tractParseRaw txt a inh = .ok r) (hd : r.diverged = false) :
    ∃ text rem1 lotBlocks rem2 aliquotBlocks,
      scrubAliquots txt a.cleanQQ = some text ∧
      extractLots (text.length + 2) text [] = some (rem1, lotBlocks) ∧
      extractAliquots (rem1.length + 2) rem1 [] = some (rem2, aliquotBlocks) ∧
      r.text = text ∧ r.lots = lotsOfBlocks a lotBlocks ∧
      r.qqs = (aliquotBlocksOf aliquotBlocks rem2).flatMap (fun b => (Aliquot.parseAliquot b a.depth).getD []) ∧
      r.aliquotsWhole = aliquotBlocks.map removeFractions := by
  unfold tractParseRaw at h
  split at h
  · cases h; cases hd
  · next text hs =>
    split at h
    · cases h; cases hd
    · next rem1 lotBlocks hl =>
      split at h
      · cases h
      · next st hst =>
        split at h
        · cases h; cases hd
        · next rem2 aliquotBlocks ha =>
          cases h
          refine ⟨text, rem1, lotBlocks, rem2, aliquotBlocks, hs, hl, ha, rfl, ?_, ?_, rfl⟩
          · have := C06_lots_concat a _ st lotBlocks hst
            simpa using this
          · exact C06_qqs_flatMap a.depth _

#print axioms C06_lots_concat
#print axioms C06_lotBlocksFold_append
#print axioms C06_qqs_concat
#print axioms C06_qqs_flatMap
#print axioms C06_leading_applies
#print axioms C06_suppressed_divisions
#print axioms C06_acreage_last_wins
#print axioms C06_ilots_of_names
#print axioms C06_ilots_division
#print axioms C06_tractParse_shape

end PyTRS
