import PyTRS.Rx
import PyTRS.PyStr
import PyTRS.Gen.Patterns
import PyTRS.Model.Aliquot
import PyTRS.Model.Unpack
import PyTRS.Model.Tract
import PyTRS.Model.TRS
import PyTRS.Model.Plss
import PyTRS.Model.Config
import PyTRS.Model.Objects
import PyTRS.Model.Containers
import PyTRS.Model.Export
import PyTRS.Model.World
import PyTRS.Model.WorldHeap
open PyTRS
namespace Driver

def hexVal? (s : String) : Option Nat :=
  if s.isEmpty then none else
  s.toList.foldl (fun acc c =>
    match acc with
    | none => none
    | some n =>
      let d := c.toNat
      if 48 ≤ d && d ≤ 57 then some (n * 16 + (d - 48))
      else if 97 ≤ d && d ≤ 102 then some (n * 16 + (d - 87))
      else none) (some 0)

def decText (f : String) : Str :=
  if f.isEmpty then [] else
  (f.splitOn ".").filterMap (fun h => (hexVal? h).map Char.ofNat)

def decOpt (f : String) : Option Str := if f == "~" then none else some (decText f)
def decNat (f : String) : Nat := f.toNat!
def decOptNat (f : String) : Option Nat := if f == "~" then none else some f.toNat!
def decBool (f : String) : Bool := f == "1"

def findPat (name : String) : Option (Rx × List (String × Nat) × Nat) :=
  match Gen.patterns.find? (fun p => p.1 == name) with
  | some p => some p.2
  | none => none

def renderMatch (ng : Nat) (m : Match) : String :=
  let gs := (List.range ng).map (fun i =>
    match m.span? (i+1) with
    | some (a, b) => s!"{a}:{b}"
    | none => "-1:-1")
  ";".intercalate (s!"{m.start}:{m.stop}" :: gs)

def decOptInt (f : String) : Option Int := if f == "~" then none else f.toInt?
def decInt (f : String) : Int := f.toInt?.getD 0

def decArg (f : String) : TRS.Arg :=
  if f == "~" then .none
  else if f.startsWith "i" then .int ((f.drop 1).toString.toInt?.getD 0)
  else .str (decText (f.drop 1).toString)

def depthArgs (mn mx d bh : String) : Aliquot.DepthArgs :=
  { qqMin := decInt mn, qqMax := decOptInt mx, qqDepth := decOptInt d, breakHalves := decBool bh }

def dictPy (d : List (Str × Str)) : PyVal := .dict (d.map (fun kv => (.str kv.1, .str kv.2)))

def flagsPy (f : Tract.Flags) : List (PyVal × PyVal) :=
  [(.str "w_flags".toList, .list f.w), (.str "w_flag_lines".toList, .list f.wl),
   (.str "e_flags".toList, .list f.e), (.str "e_flag_lines".toList, .list f.el)]

/-- generic keyword encoding: `k=v,k=v` with v one of `~ T F i<int> s<hex>` -/
inductive KV where
  | none | b (v : Bool) | i (v : Int) | s (v : Str)
  deriving Inhabited

def decKV (f : String) : KV :=
  if f == "~" then .none else if f == "T" then .b true else if f == "F" then .b false
  else if f.startsWith "i" then .i ((f.drop 1).toString.toInt?.getD 0)
  else if f.startsWith "s" then .s (decText (f.drop 1).toString)
  else .none

def decKwargs (f : String) : List (String × KV) :=
  if f.isEmpty then [] else
  (f.splitOn ",").filterMap (fun kv => match kv.splitOn "=" with
    | [k, v] => some (k, decKV v)
    | _ => Option.none)

def kwB (kw : List (String × KV)) (k : String) : Option Bool :=
  match kw.find? (fun e => e.1 == k) with | some (_, .b v) => some v | _ => none
def kwI (kw : List (String × KV)) (k : String) : Option Int :=
  match kw.find? (fun e => e.1 == k) with | some (_, .i v) => some v | _ => none
def kwS (kw : List (String × KV)) (k : String) : Option Str :=
  match kw.find? (fun e => e.1 == k) with | some (_, .s v) => some v | _ => none

def decMC (ns ew : String) : Plss.MC := { ns := decText ns, ew := decText ew }

def decCfgArg (f : String) : Obj.CfgArg :=
  if f == "~" then .none else if f == "?" then .other else .text (decText f)

def descKw (kw : List (String × KV)) : Obj.DescKw :=
  { layout := kwS kw "layout", defaultNS := kwS kw "default_ns", defaultEW := kwS kw "default_ew",
    cleanUp := kwB kw "clean_up", parseQQ := kwB kw "parse_qq", cleanQQ := kwB kw "clean_qq",
    secColonCautious := kwB kw "sec_colon_cautious", secColonRequired := kwB kw "sec_colon_required",
    segment := kwB kw "segment", ocrScrub := kwB kw "ocr_scrub", secWithin := kwB kw "sec_within",
    qqDepthMin := kwI kw "qq_depth_min", qqDepthMax := kwI kw "qq_depth_max", qqDepth := kwI kw "qq_depth",
    breakHalves := kwB kw "break_halves" }

def tractKw (kw : List (String × KV)) : Obj.TractKw :=
  { cleanQQ := kwB kw "clean_qq", suppressLotDivs := kwB kw "suppress_lot_divs",
    qqDepthMin := kwI kw "qq_depth_min", qqDepthMax := kwI kw "qq_depth_max", qqDepth := kwI kw "qq_depth",
    breakHalves := kwB kw "break_halves" }

def ps (s : String) : PyVal := .str s.toList
def optI (o : Option Int) : PyVal := match o with | some i => .int i | none => .none

def tractSnap (t : Obj.TractObj) : PyVal :=
  let d := t.trs
  let il := match Tract.ilots t.lots with
    | .ok l => PyVal.list (l.map .int)
    | .error e => .str ("!" ++ e.name).toList
  .dict ([(ps "trs", .str d.trs), (ps "twp", .str d.twp), (ps "rge", .str d.rge), (ps "sec", .ofOptStr d.sec),
    (ps "twp_num", optI d.twpNum), (ps "rge_num", optI d.rgeNum), (ps "sec_num", optI d.secNum),
    (ps "twp_ns", .ofOptStr d.twpNs), (ps "rge_ew", .ofOptStr d.rgeEw), (ps "twprge", .str (d.twp ++ d.rge)),
    (ps "desc", .str t.desc), (ps "orig_desc", .ofOptStr t.origDesc), (ps "orig_index", .int t.origIndex),
    (ps "source", .ofOptStr t.source), (ps "pp_desc", .str t.ppDesc), (ps "parse_complete", .bool t.parseComplete),
    (ps "lots", .strs t.lots), (ps "qqs", .strs t.qqs), (ps "lot_acres", dictPy t.lotAcres),
    (ps "aliquots_whole", .strs t.aliquotsWhole), (ps "ilots", il),
    (ps "config", .str (Config.toText t.config))] ++ flagsPy t.fl)

def descSnap (d : Obj.DescObj) : PyVal :=
  .dict ([(ps "current_layout", .ofOptStr d.currentLayout), (ps "pp_desc", .str d.ppDesc),
    (ps "desc_is_flawed", .bool (!d.fl.e.isEmpty)),
    (ps "tracts", .list (d.tracts.map tractSnap)),
    (ps "pretty_desc", .ofOptStr (Export.prettyDesc d.tracts)),
    (ps "pretty_desc_tab", .ofOptStr (Export.prettyDesc d.tracts (S "Section ") (some (S "\t"))))] ++ flagsPy d.fl)

def handleObj (fs : List String) : Option String :=
  match fs with
  | ["plss.pp", ns, ew, t, dns, dew, ocr] =>
    some (match Plss.plssPreprocess (decMC ns ew) (decText t) (decOpt dns) (decOpt dew) (decBool ocr) with
      | .ok r => if r.diverged then "?diverged" else (PyVal.tup [.str r.text, .strs r.fixed]).render
      | .error e => "!" ++ e.name)
  | ["plss.layout", t] => some (PyVal.str (Plss.deduceLayout (decText t))).render
  | ["plss.cleanup", t] => some (PyVal.str (Plss.cleanupDesc (decText t))).render
  | ["plss.find_twprge", ns, ew, t, dns, dew, pre, ocr] =>
    some (match Plss.findTwprge (decMC ns ew) (decText t) (decOpt dns) (decOpt dew) (decBool pre) (decBool ocr) with
      | .ok r => (PyVal.strs r).render
      | .error e => "!" ++ e.name)
  | ["plss.find_sec", t] => some (PyVal.strs (Plss.findSec (decText t))).render
  | ["config.text", t] =>
    some (match Config.ofText (decText t) with
      | .ok c => (PyVal.tup [Config.renderCfg c, .str (Config.toText c)]).render
      | .error e => "!" ++ e.name)
  | ["desc.init", ns, ew, t, layout, cfg, pq, src, wait, kwf] =>
    -- PLSSDesc(t, layout, config, parse_qq, source, wait_to_parse) then optionally .parse(commit=False, **kw)
    some (match Obj.descInit (decMC ns ew) 0 (decText t) (decOpt layout) (decCfgArg cfg)
              (match decKV pq with | .b v => some v | _ => none) (decOpt src)
              (match decKV wait with | .b v => some v | _ => none) with
      | .error e => "!" ++ e.name
      | .ok (d, uid) =>
        if d.diverged then "?diverged" else
        if kwf == "-" then (descSnap d).render else
        match Obj.descParse (decMC ns ew) uid d (descKw (decKwargs kwf)) false with
        | .error e => "!" ++ e.name
        | .ok (d2, out) =>
          if out.diverged then "?diverged" else
          (PyVal.tup [descSnap d2, .list (out.tracts.map tractSnap)]).render)
  | ["tract.init", t, trs, cfg, pq, kwf] =>
    some (match Obj.tractInit 0 (decText t) (decOpt trs) (decCfgArg cfg) (match decKV pq with | .b v => some v | _ => none) none none 0 with
      | .error e => "!" ++ e.name
      | .ok tr =>
        if tr.diverged then "?diverged" else
        if kwf == "-" then (tractSnap tr).render else
        match Obj.tractParseMethod tr true (tractKw (decKwargs kwf)) with
        | .error e => "!" ++ e.name
        | .ok (t2, ret) => if t2.diverged then "?diverged" else (PyVal.tup [tractSnap t2, .strs ret]).render)
  | _ => none


/-! ### containers / export -/

/-- element specs: `;`-separated, each `t:<uid>:<trs>:<desc>:<pq>:<cfg>` (Tract) or `r:<trs>` (TRS) -/
def decElems (f : String) : List Cont.Elem :=
  if f.isEmpty then [] else
  (f.splitOn ";").filterMap (fun e =>
    match e.splitOn ":" with
    | ["t", uid, trs, desc, pq, cfg] =>
      (match Obj.tractInit uid.toNat! (decText desc) (decOpt trs) (decCfgArg cfg) (some (decBool pq)) none none 0 with
       | .ok t => some (Cont.Elem.tract t)
       | .error _ => Option.none)
    | ["r", trs] => some (Cont.Elem.trs (TRS.trsToDict (decOpt trs)))
    | _ => Option.none)

def elemTag : Cont.Elem → PyVal
  | .tract t => .str t.desc
  | .trs d => .str d.trs

def tags (l : List Cont.Elem) : PyVal := .list (l.map elemTag)

def decPred (f : String) : Cont.Elem → Bool :=
  match f.splitOn ":" with
  | ["secnum_lt", n] => fun e => match e.d.secNum with | some k => k < (n.toInt?.getD 0) | none => false
  | ["twp_eq", t] => fun e => e.d.twp == decText t
  | ["sec_odd"] => fun e => match e.d.secNum with | some k => k % 2 == 1 | none => false
  | ["has_lots"] => fun e => match e with | .tract t => !t.lots.isEmpty | _ => false
  | ["true"] => fun _ => true
  | _ => fun _ => false

def renderGroup (keys : List String) (g : List (List PyVal × List Cont.Elem)) : PyVal :=
  .dict (g.map (fun kv => ((if keys.length == 1 then kv.1.headD .none else .tup kv.1), tags kv.2)))

/-- item specs for construction: element specs as in `decElems`, plus `s:<text>` (a str) and `o` (any other object) -/
def decItems (f : String) : List Cont.Item :=
  if f.isEmpty then [] else
  (f.splitOn ";").filterMap (fun e =>
    match e.splitOn ":" with
    | ["s", t] => some (Cont.Item.str (decText t))
    | ["o"] => some Cont.Item.other
    | _ => match decElems e with
      | [Cont.Elem.tract t] => some (Cont.Item.tract t)
      | [Cont.Elem.trs d] => some (Cont.Item.trs d)
      | _ => Option.none)

/-- a TRSList shows its elements' trs; a TractList their descriptions (with the trs, to see conversions) -/
def buildTag : Cont.Elem → PyVal
  | .tract t => .tup [.str (S "Tract"), .str t.trs.trs, .str t.desc]
  | .trs d => .tup [.str (S "TRS"), .str d.trs]

def renderBuild (r : Except PyErr (List Cont.Elem)) : String :=
  match r with
  | .ok l => (PyVal.list (l.map buildTag)).render
  | .error e => "!" ++ e.name

def handleCont (fs : List String) : Option String :=
  match fs with
  | ["cont.build", isTrs, how, self, items] =>
    let b := decBool isTrs
    let selfL := decElems self
    let its := decItems items
    some (match how.splitOn ":" with
      | ["construct"] => renderBuild (Cont.construct b its)
      | ["extend"] => renderBuild (Cont.extend b selfL its)
      | ["append"] => renderBuild (match its with | [x] => Cont.append b selfL x | _ => .error .typeError)
      | ["insert", i] => renderBuild (match its with | [x] => Cont.insert b selfL i.toNat! x | _ => .error .typeError)
      | _ => "!badop")
  | ["cont.sort", elems, key, rev] =>
    let (l, e) := Cont.customSort (decElems elems) (decText key) (decBool rev)
    some (match e with
      | some err => "!" ++ err.name ++ " " ++ (tags l).render
      | none => (tags l).render)
  | ["cont.filter", elems, pred, drop] =>
    let (a, b) := Cont.filterBy (decElems elems) (decPred pred) (decBool drop)
    some (PyVal.tup [tags a, tags b]).render
  | ["cont.filter_errors", elems, twp, rge, sec, undef, drop] =>
    let (a, b) := Cont.filterErrors (decElems elems) (decBool twp) (decBool rge) (decBool sec) (decBool undef) (decBool drop)
    some (PyVal.tup [tags a, tags b]).render
  | ["cont.filter_dups", elems, method, isTrs, drop] =>
    some (match Cont.filterDuplicates (decElems elems) method (decBool isTrs) (decBool drop) with
      | .ok (a, b) => (PyVal.tup [tags a, tags b]).render
      | .error e => "!" ++ e.name)
  | ["cont.group", elems, attrs] =>
    let keys := attrs.splitOn ","
    let l := decElems elems
    let g := Cont.groupByMulti l (keys.map (fun k => fun e => Export.elemAttr e k))
    some (PyVal.tup [renderGroup keys g, tags (Cont.unpackGroup g)]).render
  | ["export.rows", elems, attrs, nice, fileExists, mode] =>
    let ts := (decElems elems).filterMap (fun e => match e with | .tract t => some t | _ => Option.none)
    let atts := if attrs.isEmpty then [] else attrs.splitOn ","
    let rows := Export.tractsToCsvRows ts atts (decBool nice) (decBool fileExists) mode
    let text := (rows.map Export.writeRow).flatten
    some (PyVal.tup [.list (rows.map PyVal.strs), .str text, .list ((Export.readCsv text).map PyVal.strs),
                     .list (ts.map (fun t => Export.toDict t atts))]).render
  | ["csv.roundtrip", rowsF] =>
    -- rows: `|`-separated rows of `,`-separated hex fields
    let rows : List (List Str) := if rowsF.isEmpty then [] else
      (rowsF.splitOn "|").map (fun r => (r.splitOn ",").map (fun f => decText (f.drop 1).toString))
    let text := (rows.map Export.writeRow).flatten
    some (PyVal.tup [.str text, .list ((Export.readCsv text).map PyVal.strs)]).render
  | _ => Option.none

/-! ### histories -/

def renderOut : World.Out → String
  | .none => "N"
  | .err e => "!" ++ e.name
  | .diverged => "?diverged"
  | .dict d => d.toPy.render
  | .desc d => (descSnap d).render
  | .descAndTracts d ts => (PyVal.tup [descSnap d, .list (ts.map tractSnap)]).render
  | .descAndStr d s => (PyVal.tup [descSnap d, .str s]).render
  | .tract t => (tractSnap t).render
  | .tractAndRet t r => (PyVal.tup [tractSnap t, .strs r]).render
  | .tractAndStr t s => (PyVal.tup [tractSnap t, .str s]).render
  | .strs l => (PyVal.strs l).render

def optB (f : String) : Option Bool := match decKV f with | .b v => some v | _ => Option.none

def decOp (fs : List String) : Option World.Op :=
  match fs with
  | ["w.mc", ns, ew] => some (.setMC (decText ns) (decText ew))
  | ["w.cache", "on"] => some (.cacheOn true)
  | ["w.cache", "off"] => some (.cacheOn false)
  | ["w.cache", "clear"] => some .cacheClear
  | ["w.warm", t] => some (.warm (decText t))
  | ["w.todict", t] => some (.toDict (decOpt t))
  | ["w.todict_obj", t] => some (.toDictObj (decText t))
  | ["w.desc", id, t, layout, cfg, pq, src, wait] =>
    some (.newDesc id.toNat! (decText t) (decOpt layout) (decCfgArg cfg) (optB pq) (decOpt src) (optB wait))
  | ["w.desc.parse", id, commit, kw] => some (.descParse id.toNat! (descKw (decKwargs kw)) (decBool commit))
  | ["w.desc.parse_tracts", id, cfg, kw] => some (.descParseTracts id.toNat! (decOpt cfg) (tractKw (decKwargs kw)))
  | ["w.desc.preprocess", id, commit] => some (.descPreprocess id.toNat! (decBool commit))
  | ["w.desc.config", id, cfg] => some (.descConfig id.toNat! (decCfgArg cfg))
  | ["w.desc.sort", id, key, rev] => some (.descSort id.toNat! (decText key) (decBool rev))
  | ["w.tract", id, t, trs, cfg, pq] => some (.newTract id.toNat! (decText t) (decOpt trs) (decCfgArg cfg) (optB pq))
  | ["w.tract.parse", id, commit, kw] => some (.tractParse id.toNat! (tractKw (decKwargs kw)) (decBool commit))
  | ["w.tract.preprocess", id, c, commit] => some (.tractPreprocess id.toNat! (optB c) (decBool commit))
  | ["w.tract.config", id, cfg] => some (.tractConfig id.toNat! (decCfgArg cfg))
  | ["w.find_twprge", t, ns, ew, pre, ocr] => some (.findTwprge (decText t) (decOpt ns) (decOpt ew) (decBool pre) (decBool ocr))
  | ["w.from_twprgesec", a, b, c, ns, ew] => some (.fromTwprgesec (decArg a) (decArg b) (decArg c) (decOpt ns) (decOpt ew))
  | _ => Option.none

def handleModel (fs : List String) : Option String :=
  match handleCont fs with
  | some r => some r
  | none =>
  match handleObj fs with
  | some r => some r
  | none =>
  match fs with
  | ["aliquot.parse", t, mn, mx, d, bh] =>
    some (match Aliquot.parseAliquot (decText t) (depthArgs mn mx d bh) with
      | some l => (PyVal.strs l).render
      | none => "?diverged")
  | ["aliquot.std", t] =>
    some (match Aliquot.standardize ((decText t |> pySplitChar ',') |>.filter (· != [])) with
      | some l => (PyVal.strs l).render
      | none => "?diverged")
  | ["sec.unpack", t] =>
    let r := Unpack.unpackSections (decText t)
    some (if r.diverged then "?diverged" else (PyVal.tup [.strs r.secList, .list r.flags, .list r.flagLines]).render)
  | ["lot.unpack", t] =>
    let r := Unpack.unpackLots (decText t)
    some (if r.diverged then "?diverged" else
      (PyVal.tup [.strs r.lotList, dictPy r.lotAcres, .list r.flags, .list r.flagLines, .int r.aliquotsThrough]).render)
  | ["tract.pp", t, c] =>
    some (match Tract.scrubAliquots (decText t) (decBool c) with
      | some r => (PyVal.str r).render
      | none => "?diverged")
  | ["tract.parse", t, c, sup, mn, mx, d, bh] =>
    some (match Tract.tractParse (decText t) { cleanQQ := decBool c, suppressLotDivs := decBool sup, depth := depthArgs mn mx d bh } {} with
      | .error e => "!" ++ e.name
      | .ok r =>
        if r.diverged then "?diverged" else
        let il := match Tract.ilots r.lots with
          | .ok l => PyVal.list (l.map .int)
          | .error e => .str ("!" ++ e.name).toList
        (PyVal.dict ([(.str "pp_desc".toList, .str r.text), (.str "lots".toList, .strs r.lots),
          (.str "qqs".toList, .strs r.qqs), (.str "lot_acres".toList, dictPy r.lotAcres),
          (.str "aliquots_whole".toList, .strs r.aliquotsWhole), (.str "ilots".toList, il)] ++ flagsPy r.flags)).render)
  | ["trs.to_dict", t] => some (TRS.trsToDict (decOpt t)).toPy.render
  | ["trs.construct", a, b, c, ns, ew, ocr] =>
    some (match TRS.constructTrs (decArg a) (decArg b) (decArg c) (decText ns) (decText ew) (decBool ocr) with
      | .ok s => (PyVal.str s).render
      | .error e => "!" ++ e.name)
  | ["twprge.short", t] => some (PyVal.str (Unpack.twprgeNaturalToShort (decText t))).render
  | ["twprge.natural", t] => some (PyVal.str (Unpack.twprgeShortToNatural (decText t))).render
  | _ => none

def handle (fs : List String) : String :=
  match handleModel fs with
  | some r => r
  | none =>
  match fs with
  | ["search", p, t, pos, endpos] =>
    match findPat p with
    | none => "?nopattern"
    | some (r, _, ng) =>
      let text := decText t
      match r.search text (decNat pos) (decNat endpos) with
      | none => "-"
      | some m => renderMatch ng m
  | ["finditer", p, t, pos, endpos] =>
    match findPat p with
    | none => "?nopattern"
    | some (r, _, ng) =>
      let text := decText t
      "|".intercalate ((r.finditer text (decNat pos) (decNat endpos)).map (renderMatch ng))
  | ["fullmatch", p, t] =>
    match findPat p with
    | none => "?nopattern"
    | some (r, _, ng) =>
      match r.fullmatch (decText t) with
      | none => "-"
      | some m => renderMatch ng m
  | ["sub", p, repl, t] =>
    match findPat p with
    | none => "?nopattern"
    | some (r, _, _) => (PyVal.str (r.sub (decText repl) (decText t))).render
  | ["split", p, t] =>
    match findPat p with
    | none => "?nopattern"
    | some (r, _, _) => (PyVal.strs (r.split (decText t))).render
  | ["rx.safe"] =>
    "{" ++ ", ".intercalate (Gen.patterns.map (fun p => "\"" ++ p.1 ++ "\": " ++ (if p.2.1.safe then "true" else "false"))) ++ "}"
  | ["str.lower", t] => (PyVal.str (pyLower (decText t))).render
  | ["str.upper", t] => (PyVal.str (pyUpper (decText t))).render
  | ["str.strip", t] => (PyVal.str (pyStrip (decText t))).render
  | ["str.stripc", c, t] => (PyVal.str (pyStripChars (decText c) (decText t))).render
  | ["str.replace", t, a, b] => (PyVal.str (pyReplace (decText t) (decText a) (decText b))).render
  | ["str.int", t] =>
    match pyInt? (decText t) with
    | some i => (PyVal.int i).render
    | none => "!ValueError"
  | _ => "?badop"

/-! ### heap-level histories (`h.*`): the refinement `Model/WorldHeap` in which dict OBJECTS have identity -/

open WorldHeap in
/-- dicts handed to the caller are named by the order in which he received them (0, 1, …), on both sides of the wire -/
def handedRef (w : WorldHeap.HWorld) (k : Nat) : WorldHeap.Ref :=
  match w.handedOut.reverse[k]? with
  | some r => r
  | none => w.next          -- never handed out: the model answers `denied`

open WorldHeap in
def decHOp (w : WorldHeap.HWorld) (fs : List String) : Option WorldHeap.HOp :=
  match fs with
  | ["h.mc", ns, ew] => some (.setMC (decText ns) (decText ew))
  | ["h.cache", "on"] => some (.cacheOn true)
  | ["h.cache", "off"] => some (.cacheOn false)
  | ["h.cache", "clear"] => some .cacheClear
  | ["h.new", id, t] => some (.newTRS id.toNat! (decOpt t))
  | ["h.set", id, t] => some (.setTrs id.toNat! (decOpt t))
  | ["h.newfrom", id, src] => some (.newTRSFrom id.toNat! src.toNat!)
  | ["h.from_twprgesec", id, a, b, c, ns, ew, ocr] =>
    some (.fromTwprgesec id.toNat! (decArg a) (decArg b) (decArg c) (decOpt ns) (decOpt ew) (decBool ocr))
  | ["h.set_twprgesec", id, a, b, c, ns, ew, ocr] =>
    some (.setTwprgesec id.toNat! (decArg a) (decArg b) (decArg c) (decOpt ns) (decOpt ew) (decBool ocr))
  | ["h.todict", t] => some (.toDict (decOpt t))
  | ["h.todict_obj", id] => some (.toDictObj id.toNat!)
  | ["h.read", id] => some (.read id.toNat!)
  | ["h.same", a, b] => some (.sameDict a.toNat! b.toNat!)
  -- the caller overwrites the k-th dict he was given with the contents of trs_to_dict(t), its 'trs' entry set to `mark`
  | ["h.cwrite", k, t, mark] => some (.callerWrites (handedRef w k.toNat!) { TRS.trsToDict (decOpt t) with trs := decText mark })
  | ["h.cread", k] => some (.callerReads (handedRef w k.toNat!))
  | _ => Option.none

open WorldHeap in
def renderHOut (w' : WorldHeap.HWorld) : WorldHeap.HOut → String
  | .none => "N"
  | .denied => "denied"
  | .err e => "!" ++ e.name
  | .dict d => d.toPy.render
  | .handed _ d => "H" ++ toString (w'.handedOut.length - 1) ++ " " ++ d.toPy.render
  | .bool b => if b then "1" else "0"
  | .str s => (PyVal.str s).render

open WorldHeap in
def renderShape (w : WorldHeap.HWorld) : String :=
  (PyVal.tup [.list ((cacheShape w).map (fun e => .tup [(match e.1 with | some s => .str s | none => .none), .list (e.2.map (fun i => .int (Int.ofNat i)))])),
              .int (Int.ofNat (distinctDicts w))]).render

structure DState where
  w : World.World := {}
  h : WorldHeap.HWorld := {}

/-- stateful entry point: `w.*` requests thread a World, `h.*` requests a heap-level world, everything else is stateless -/
def handleW (st : DState) (fs : List String) : DState × String :=
  match fs with
  | ["w.reset"] => ({ st with w := {} }, "ok")
  | ["h.reset"] => ({ st with h := {} }, "ok")
  | ["h.shape"] => (st, renderShape st.h)
  | _ =>
    match decOp fs with
    | some op => let (w', o) := World.step st.w op; ({ st with w := w' }, renderOut o)
    | none =>
      match decHOp st.h fs with
      | some op => let (h', o) := WorldHeap.step st.h op; ({ st with h := h' }, renderHOut h' o)
      | none => (st, handle fs)

end Driver
