import PyTRS.Rx
import PyTRS.PyStr
import PyTRS.Gen.Patterns
open PyTRS
namespace Driver

def hexVal? (s : String) : Option Nat :=
  if s.isEmpty then none else
  s.toList.foldl (fun acc c =>
    match acc with
    | none => none
    | some n =>
      let d := c.toNat
      if 48 ≤ d && d ≤ 57 then some (n * 16 + (d - 48))
      else if 97 ≤ d && d ≤ 102 then some (n * 16 + (d - 87))
      else none) (some 0)

def decText (f : String) : Str :=
  if f.isEmpty then [] else
  (f.splitOn ".").filterMap (fun h => (hexVal? h).map Char.ofNat)

def decOpt (f : String) : Option Str := if f == "~" then none else some (decText f)
def decNat (f : String) : Nat := f.toNat!
def decOptNat (f : String) : Option Nat := if f == "~" then none else some f.toNat!
def decBool (f : String) : Bool := f == "1"

def findPat (name : String) : Option (Rx × List (String × Nat) × Nat) :=
  match Gen.patterns.find? (fun p => p.1 == name) with
  | some p => some p.2
  | none => none

def renderMatch (ng : Nat) (m : Match) : String :=
  let gs := (List.range ng).map (fun i =>
    match m.span? (i+1) with
    | some (a, b) => s!"{a}:{b}"
    | none => "-1:-1")
  ";".intercalate (s!"{m.start}:{m.stop}" :: gs)

def handle (fs : List String) : String :=
  match fs with
  | ["search", p, t, pos, endpos] =>
    match findPat p with
    | none => "?nopattern"
    | some (r, _, ng) =>
      let text := decText t
      match r.search text (decNat pos) (decNat endpos) with
      | none => "-"
      | some m => renderMatch ng m
  | ["finditer", p, t, pos, endpos] =>
    match findPat p with
    | none => "?nopattern"
    | some (r, _, ng) =>
      let text := decText t
      "|".intercalate ((r.finditer text (decNat pos) (decNat endpos)).map (renderMatch ng))
  | ["fullmatch", p, t] =>
    match findPat p with
    | none => "?nopattern"
    | some (r, _, ng) =>
      match r.fullmatch (decText t) with
      | none => "-"
      | some m => renderMatch ng m
  | ["sub", p, repl, t] =>
    match findPat p with
    | none => "?nopattern"
    | some (r, _, _) => (PyVal.str (r.sub (decText repl) (decText t))).render
  | ["split", p, t] =>
    match findPat p with
    | none => "?nopattern"
    | some (r, _, _) => (PyVal.strs (r.split (decText t))).render
  | ["str.lower", t] => (PyVal.str (pyLower (decText t))).render
  | ["str.upper", t] => (PyVal.str (pyUpper (decText t))).render
  | ["str.strip", t] => (PyVal.str (pyStrip (decText t))).render
  | ["str.stripc", c, t] => (PyVal.str (pyStripChars (decText c) (decText t))).render
  | ["str.replace", t, a, b] => (PyVal.str (pyReplace (decText t) (decText a) (decText b))).render
  | ["str.int", t] =>
    match pyInt? (decText t) with
    | some i => (PyVal.int i).render
    | none => "!ValueError"
  | _ => "?badop"

end Driver
