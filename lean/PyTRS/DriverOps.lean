import PyTRS.Rx
import PyTRS.PyStr
import PyTRS.Gen.Patterns
import PyTRS.Model.Aliquot
import PyTRS.Model.Unpack
import PyTRS.Model.Tract
import PyTRS.Model.TRS
open PyTRS
namespace Driver

def hexVal? (s : String) : Option Nat :=
  if s.isEmpty then none else
  s.toList.foldl (fun acc c =>
    match acc with
    | none => none
    | some n =>
      let d := c.toNat
      if 48 ≤ d && d ≤ 57 then some (n * 16 + (d - 48))
      else if 97 ≤ d && d ≤ 102 then some (n * 16 + (d - 87))
      else none) (some 0)

def decText (f : String) : Str :=
  if f.isEmpty then [] else
  (f.splitOn ".").filterMap (fun h => (hexVal? h).map Char.ofNat)

def decOpt (f : String) : Option Str := if f == "~" then none else some (decText f)
def decNat (f : String) : Nat := f.toNat!
def decOptNat (f : String) : Option Nat := if f == "~" then none else some f.toNat!
def decBool (f : String) : Bool := f == "1"

def findPat (name : String) : Option (Rx × List (String × Nat) × Nat) :=
  match Gen.patterns.find? (fun p => p.1 == name) with
  | some p => some p.2
  | none => none

def renderMatch (ng : Nat) (m : Match) : String :=
  let gs := (List.range ng).map (fun i =>
    match m.span? (i+1) with
    | some (a, b) => s!"{a}:{b}"
    | none => "-1:-1")
  ";".intercalate (s!"{m.start}:{m.stop}" :: gs)

def decOptInt (f : String) : Option Int := if f == "~" then none else f.toInt?
def decInt (f : String) : Int := f.toInt?.getD 0

def decArg (f : String) : TRS.Arg :=
  if f == "~" then .none
  else if f.startsWith "i" then .int ((f.drop 1).toString.toInt?.getD 0)
  else .str (decText (f.drop 1).toString)

def depthArgs (mn mx d bh : String) : Aliquot.DepthArgs :=
  { qqMin := decInt mn, qqMax := decOptInt mx, qqDepth := decOptInt d, breakHalves := decBool bh }

def dictPy (d : List (Str × Str)) : PyVal := .dict (d.map (fun kv => (.str kv.1, .str kv.2)))

def flagsPy (f : Tract.Flags) : List (PyVal × PyVal) :=
  [(.str "w_flags".toList, .list f.w), (.str "w_flag_lines".toList, .list f.wl),
   (.str "e_flags".toList, .list f.e), (.str "e_flag_lines".toList, .list f.el)]

def handleModel (fs : List String) : Option String :=
  match fs with
  | ["aliquot.parse", t, mn, mx, d, bh] =>
    some (match Aliquot.parseAliquot (decText t) (depthArgs mn mx d bh) with
      | some l => (PyVal.strs l).render
      | none => "?diverged")
  | ["aliquot.std", t] =>
    some (match Aliquot.standardize ((decText t |> pySplitChar ',') |>.filter (· != [])) with
      | some l => (PyVal.strs l).render
      | none => "?diverged")
  | ["sec.unpack", t] =>
    let r := Unpack.unpackSections (decText t)
    some (if r.diverged then "?diverged" else (PyVal.tup [.strs r.secList, .list r.flags, .list r.flagLines]).render)
  | ["lot.unpack", t] =>
    let r := Unpack.unpackLots (decText t)
    some (if r.diverged then "?diverged" else
      (PyVal.tup [.strs r.lotList, dictPy r.lotAcres, .list r.flags, .list r.flagLines, .int r.aliquotsThrough]).render)
  | ["tract.pp", t, c] =>
    some (match Tract.scrubAliquots (decText t) (decBool c) with
      | some r => (PyVal.str r).render
      | none => "?diverged")
  | ["tract.parse", t, c, sup, mn, mx, d, bh] =>
    some (match Tract.tractParse (decText t) { cleanQQ := decBool c, suppressLotDivs := decBool sup, depth := depthArgs mn mx d bh } {} with
      | .error e => "!" ++ e.name
      | .ok r =>
        if r.diverged then "?diverged" else
        let il := match Tract.ilots r.lots with
          | .ok l => PyVal.list (l.map .int)
          | .error e => .str ("!" ++ e.name).toList
        (PyVal.dict ([(.str "pp_desc".toList, .str r.text), (.str "lots".toList, .strs r.lots),
          (.str "qqs".toList, .strs r.qqs), (.str "lot_acres".toList, dictPy r.lotAcres),
          (.str "aliquots_whole".toList, .strs r.aliquotsWhole), (.str "ilots".toList, il)] ++ flagsPy r.flags)).render)
  | ["trs.to_dict", t] => some (TRS.trsToDict (decOpt t)).toPy.render
  | ["trs.construct", a, b, c, ns, ew, ocr] =>
    some (match TRS.constructTrs (decArg a) (decArg b) (decArg c) (decText ns) (decText ew) (decBool ocr) with
      | .ok s => (PyVal.str s).render
      | .error e => "!" ++ e.name)
  | ["twprge.short", t] => some (PyVal.str (Unpack.twprgeNaturalToShort (decText t))).render
  | ["twprge.natural", t] => some (PyVal.str (Unpack.twprgeShortToNatural (decText t))).render
  | _ => none

def handle (fs : List String) : String :=
  match handleModel fs with
  | some r => r
  | none =>
  match fs with
  | ["search", p, t, pos, endpos] =>
    match findPat p with
    | none => "?nopattern"
    | some (r, _, ng) =>
      let text := decText t
      match r.search text (decNat pos) (decNat endpos) with
      | none => "-"
      | some m => renderMatch ng m
  | ["finditer", p, t, pos, endpos] =>
    match findPat p with
    | none => "?nopattern"
    | some (r, _, ng) =>
      let text := decText t
      "|".intercalate ((r.finditer text (decNat pos) (decNat endpos)).map (renderMatch ng))
  | ["fullmatch", p, t] =>
    match findPat p with
    | none => "?nopattern"
    | some (r, _, ng) =>
      match r.fullmatch (decText t) with
      | none => "-"
      | some m => renderMatch ng m
  | ["sub", p, repl, t] =>
    match findPat p with
    | none => "?nopattern"
    | some (r, _, _) => (PyVal.str (r.sub (decText repl) (decText t))).render
  | ["split", p, t] =>
    match findPat p with
    | none => "?nopattern"
    | some (r, _, _) => (PyVal.strs (r.split (decText t))).render
  | ["str.lower", t] => (PyVal.str (pyLower (decText t))).render
  | ["str.upper", t] => (PyVal.str (pyUpper (decText t))).render
  | ["str.strip", t] => (PyVal.str (pyStrip (decText t))).render
  | ["str.stripc", c, t] => (PyVal.str (pyStripChars (decText c) (decText t))).render
  | ["str.replace", t, a, b] => (PyVal.str (pyReplace (decText t) (decText a) (decText b))).render
  | ["str.int", t] =>
    match pyInt? (decText t) with
    | some i => (PyVal.int i).render
    | none => "!ValueError"
  | _ => "?badop"

end Driver
