/-
Python `str` primitives over `List Char`, and the small dynamically-typed value
universe (`PyVal`) used for flags, rows and the driver's canonical output.
Tables (lower/upper/isspace/decimal digits) are regenerated from the running
interpreter by tools/translate.py.
-/
import PyTRS.Gen.Tables
namespace PyTRS

abbrev Str := List Char

def toStr (s : String) : Str := s.toList
def S (s : String) : Str := s.toList
instance : Coe String Str := ⟨String.toList⟩

def lookupTbl (tbl : List (Nat × List Nat)) (n : Nat) : Option (List Nat) :=
  match tbl.find? (fun e => e.1 == n) with
  | some e => some e.2
  | none => none

def pyLowerChar (c : Char) : Str :=
  let n := c.toNat
  if n < 128 then (if 65 ≤ n && n ≤ 90 then [Char.ofNat (n + 32)] else [c])
  else match lookupTbl Gen.PY_LOWER n with
    | some l => l.map Char.ofNat
    | none => [c]

def pyUpperChar (c : Char) : Str :=
  let n := c.toNat
  if n < 128 then (if 97 ≤ n && n ≤ 122 then [Char.ofNat (n - 32)] else [c])
  else match lookupTbl Gen.PY_UPPER n with
    | some l => l.map Char.ofNat
    | none => [c]

/-- `str.lower()` (per-character; the Final_Sigma context rule for U+03A3 is not modelled) -/
def pyLower (s : Str) : Str := s.flatMap pyLowerChar
def pyUpper (s : Str) : Str := s.flatMap pyUpperChar

def pyIsSpace (c : Char) : Bool := Gen.PY_SPACE.any (fun r => r.1 ≤ c.toNat && c.toNat ≤ r.2)

def lstripBy (p : Char → Bool) : Str → Str
  | [] => []
  | c :: t => if p c then lstripBy p t else c :: t

def rstripBy (p : Char → Bool) (s : Str) : Str := (lstripBy p s.reverse).reverse
def stripBy (p : Char → Bool) (s : Str) : Str := rstripBy p (lstripBy p s)

def pyStrip (s : Str) : Str := stripBy pyIsSpace s
def pyLStrip (s : Str) : Str := lstripBy pyIsSpace s
def pyRStrip (s : Str) : Str := rstripBy pyIsSpace s
def pyStripChars (chars : Str) (s : Str) : Str := stripBy (fun c => chars.contains c) s
def pyLStripChars (chars : Str) (s : Str) : Str := lstripBy (fun c => chars.contains c) s
def pyRStripChars (chars : Str) (s : Str) : Str := rstripBy (fun c => chars.contains c) s

def isPrefix : Str → Str → Bool
  | [], _ => true
  | _ :: _, [] => false
  | a :: as, b :: bs => a == b && isPrefix as bs

def pyStartsWith (s pre : Str) : Bool := isPrefix pre s
def pyEndsWith (s suf : Str) : Bool := isPrefix suf.reverse s.reverse

/-- `str.replace(old, new)` for non-empty `old` (the only use in pyTRS) -/
def pyReplaceAux (old new : Str) : Nat → Str → Str
  | 0, s => s
  | _, [] => []
  | fuel+1, c :: t =>
    if old != [] && isPrefix old (c :: t) then new ++ pyReplaceAux old new fuel ((c :: t).drop old.length)
    else c :: pyReplaceAux old new fuel t

def pyReplace (s old new : Str) : Str := pyReplaceAux old new (s.length + 1) s

def pyRJust (s : Str) (w : Nat) (fill : Char) : Str := List.replicate (w - s.length) fill ++ s
def pyLJust (s : Str) (w : Nat) (fill : Char) : Str := s ++ List.replicate (w - s.length) fill

/-- substring test -/
def isInfix (needle : Str) : Str → Bool
  | [] => needle.isEmpty
  | c :: t => isPrefix needle (c :: t) || isInfix needle t

/-- `sep.join(parts)` -/
def pyJoin (sep : Str) : List Str → Str
  | [] => []
  | [a] => a
  | a :: rest => a ++ sep ++ pyJoin sep rest

/-- `str.split(sep)` for a single-character separator -/
def pySplitChar (sep : Char) (s : Str) : List Str :=
  let rec go : Str → Str → List Str
    | [], cur => [cur.reverse]
    | c :: t, cur => if c == sep then cur.reverse :: go t [] else go t (c :: cur)
  go s []

def decimalValue? (c : Char) : Option Nat :=
  let n := c.toNat
  if 48 ≤ n && n ≤ 57 then some (n - 48)
  else if n < 128 then none
  else match Gen.PY_DIGIT_ZEROS.find? (fun z => z ≤ n && n ≤ z + 9) with
    | some z => some (n - z)
    | none => none

/-- digits with single underscores between digits (Python's int literal grammar for `int(str)`) -/
def digitsVal? : Str → Option Nat
  | [] => none
  | c :: t =>
    match decimalValue? c with
    | none => none
    | some d =>
      let rec go : Str → Nat → Bool → Option Nat   -- `afterUnderscore`
        | [], acc, us => if us then none else some acc
        | c :: t, acc, us =>
          if c == '_' then (if us then none else go t acc true)
          else match decimalValue? c with
            | some d => go t (acc * 10 + d) false
            | none => none
      go t d false

/-- `int(s)` for a `str` argument; `none` = ValueError -/
def pyInt? (s : Str) : Option Int :=
  let t := pyStrip s
  match t with
  | '-' :: r => (digitsVal? r).map (fun n => - (Int.ofNat n))
  | '+' :: r => (digitsVal? r).map Int.ofNat
  | r => (digitsVal? r).map Int.ofNat

def natToStr (n : Nat) : Str := (toString n).toList
def intToStr (i : Int) : Str := (toString i).toList

/-! ### dynamically-typed values -/

inductive PyVal where
  | none
  | bool (b : Bool)
  | int (i : Int)
  | str (s : Str)
  | tup (xs : List PyVal)
  | list (xs : List PyVal)
  | dict (kvs : List (PyVal × PyVal))
  deriving Inhabited, Repr

/-! equality on `PyVal` is written out (and proved lawful) because `deriving DecidableEq` does not handle the
    nested occurrence in `List` -/
mutual
def PyVal.beq : PyVal → PyVal → Bool
  | .none, .none => true
  | .bool a, .bool b => a == b
  | .int a, .int b => a == b
  | .str a, .str b => a == b
  | .tup a, .tup b => PyVal.beqList a b
  | .list a, .list b => PyVal.beqList a b
  | .dict a, .dict b => PyVal.beqPairs a b
  | _, _ => false
def PyVal.beqList : List PyVal → List PyVal → Bool
  | [], [] => true
  | x :: xs, y :: ys => PyVal.beq x y && PyVal.beqList xs ys
  | _, _ => false
def PyVal.beqPairs : List (PyVal × PyVal) → List (PyVal × PyVal) → Bool
  | [], [] => true
  | (a, b) :: xs, (c, d) :: ys => PyVal.beq a c && PyVal.beq b d && PyVal.beqPairs xs ys
  | _, _ => false
end

instance : BEq PyVal := ⟨PyVal.beq⟩

mutual
theorem PyVal.eq_of_beq : ∀ a b : PyVal, PyVal.beq a b = true → a = b
  | .none, .none, _ => rfl
  | .bool a, .bool b, h => by simp [PyVal.beq] at h; rw [h]
  | .int a, .int b, h => by simp [PyVal.beq] at h; rw [h]
  | .str a, .str b, h => by simp [PyVal.beq] at h; rw [h]
  | .tup a, .tup b, h => by simp [PyVal.beq] at h; rw [PyVal.eq_of_beqList a b h]
  | .list a, .list b, h => by simp [PyVal.beq] at h; rw [PyVal.eq_of_beqList a b h]
  | .dict a, .dict b, h => by simp [PyVal.beq] at h; rw [PyVal.eq_of_beqPairs a b h]
  | .none, .bool _, h | .none, .int _, h | .none, .str _, h | .none, .tup _, h | .none, .list _, h | .none, .dict _, h => by simp [PyVal.beq] at h
  | .bool _, .none, h | .bool _, .int _, h | .bool _, .str _, h | .bool _, .tup _, h | .bool _, .list _, h | .bool _, .dict _, h => by simp [PyVal.beq] at h
  | .int _, .none, h | .int _, .bool _, h | .int _, .str _, h | .int _, .tup _, h | .int _, .list _, h | .int _, .dict _, h => by simp [PyVal.beq] at h
  | .str _, .none, h | .str _, .bool _, h | .str _, .int _, h | .str _, .tup _, h | .str _, .list _, h | .str _, .dict _, h => by simp [PyVal.beq] at h
  | .tup _, .none, h | .tup _, .bool _, h | .tup _, .int _, h | .tup _, .str _, h | .tup _, .list _, h | .tup _, .dict _, h => by simp [PyVal.beq] at h
  | .list _, .none, h | .list _, .bool _, h | .list _, .int _, h | .list _, .str _, h | .list _, .tup _, h | .list _, .dict _, h => by simp [PyVal.beq] at h
  | .dict _, .none, h | .dict _, .bool _, h | .dict _, .int _, h | .dict _, .str _, h | .dict _, .tup _, h | .dict _, .list _, h => by simp [PyVal.beq] at h
theorem PyVal.eq_of_beqList : ∀ a b : List PyVal, PyVal.beqList a b = true → a = b
  | [], [], _ => rfl
  | x :: xs, y :: ys, h => by
    simp [PyVal.beqList] at h
    rw [PyVal.eq_of_beq x y h.1, PyVal.eq_of_beqList xs ys h.2]
  | [], _ :: _, h | _ :: _, [], h => by simp [PyVal.beqList] at h
theorem PyVal.eq_of_beqPairs : ∀ a b : List (PyVal × PyVal), PyVal.beqPairs a b = true → a = b
  | [], [], _ => rfl
  | (a, b) :: xs, (c, d) :: ys, h => by
    simp [PyVal.beqPairs] at h
    rw [PyVal.eq_of_beq a c h.1.1, PyVal.eq_of_beq b d h.1.2, PyVal.eq_of_beqPairs xs ys h.2]
  | [], _ :: _, h | _ :: _, [], h => by simp [PyVal.beqPairs] at h
end

mutual
theorem PyVal.beq_refl : ∀ a : PyVal, PyVal.beq a a = true
  | .none => rfl
  | .bool a => by simp [PyVal.beq]
  | .int a => by simp [PyVal.beq]
  | .str a => by simp [PyVal.beq]
  | .tup a => by simp [PyVal.beq, PyVal.beqList_refl a]
  | .list a => by simp [PyVal.beq, PyVal.beqList_refl a]
  | .dict a => by simp [PyVal.beq, PyVal.beqPairs_refl a]
theorem PyVal.beqList_refl : ∀ a : List PyVal, PyVal.beqList a a = true
  | [] => rfl
  | x :: xs => by simp [PyVal.beqList, PyVal.beq_refl x, PyVal.beqList_refl xs]
theorem PyVal.beqPairs_refl : ∀ a : List (PyVal × PyVal), PyVal.beqPairs a a = true
  | [] => rfl
  | (a, b) :: xs => by simp [PyVal.beqPairs, PyVal.beq_refl a, PyVal.beq_refl b, PyVal.beqPairs_refl xs]
end

instance : LawfulBEq PyVal where
  eq_of_beq := PyVal.eq_of_beq _ _
  rfl := PyVal.beq_refl _

def hexDigit (n : Nat) : Char := if n < 10 then Char.ofNat (48 + n) else Char.ofNat (87 + n)
def toHex (n : Nat) : String :=
  let rec go : Nat → Nat → List Char → List Char
    | 0, _, acc => acc
    | fuel+1, n, acc => if n < 16 then hexDigit n :: acc else go fuel (n / 16) (hexDigit (n % 16) :: acc)
  String.ofList (go 8 n [])

def escStr (s : Str) : String :=
  s.foldl (fun acc c =>
    let n := c.toNat
    if 32 ≤ n && n < 127 && c != '"' && c != '\\' then acc.push c
    else acc ++ "\\u{" ++ toHex n ++ "}") ""

partial def PyVal.render : PyVal → String
  | .none => "N"
  | .bool true => "T"
  | .bool false => "F"
  | .int i => "i" ++ toString i
  | .str s => "s\"" ++ escStr s ++ "\""
  | .tup xs => "(" ++ ",".intercalate (xs.map PyVal.render) ++ ")"
  | .list xs => "[" ++ ",".intercalate (xs.map PyVal.render) ++ "]"
  | .dict kvs => "{" ++ ",".intercalate (kvs.map (fun kv => kv.1.render ++ ":" ++ kv.2.render)) ++ "}"

def PyVal.ofOptStr : Option Str → PyVal
  | some s => .str s
  | Option.none => .none

def PyVal.strs (xs : List Str) : PyVal := .list (xs.map .str)

/-- Python exception classes that can surface from pyTRS entry points -/
inductive PyErr where
  | typeError | valueError | indexError | keyError | attributeError
  | configError | defaultNS | defaultEW | recursionError | runtimeError
  deriving Inhabited, BEq, Repr, DecidableEq

def PyErr.name : PyErr → String
  | .typeError => "TypeError" | .valueError => "ValueError" | .indexError => "IndexError"
  | .keyError => "KeyError" | .attributeError => "AttributeError" | .configError => "ConfigError"
  | .defaultNS => "DefaultNSError" | .defaultEW => "DefaultEWError"
  | .recursionError => "RecursionError" | .runtimeError => "RuntimeError"

def renderExcept (r : Except PyErr PyVal) : String :=
  match r with
  | .ok v => v.render
  | .error e => "!" ++ e.name

end PyTRS
