/-
C11 — copy_all, forced or as fallback, keeps the whole text in exactly one tract.
-/
import PyTRS.Model.Objects
import PyTRS.Lemmas.Chunk
namespace PyTRS
open PyTRS.Plss

/-- `_parse_copyall` stages exactly one component and its description is the entire chunk text, untouched -/
theorem C11_copyall_one_component (c : Chunk) (txt : Str) (c' : Chunk) (h : parseCopyAll c txt = .ok c') :
    ∃ sec tr, c'.comps = c.comps ++ [{ desc := txt, sec := some sec, twprge := tr }] := by
  unfold parseCopyAll at h
  simp only [] at h
  split at h
  · cases h
    exact ⟨_, _, by simp; exact ⟨rfl, rfl⟩⟩
  · cases h

/-- copy_all never fails for lack of a section or Twp/Rge (error placeholders are staged instead); the only
    way to fail is an *empty* staged section list, which `SecUnpacker` never produces for a real match -/
theorem C11_copyall_total (c : Chunk) (txt : Str) (hne : ∀ s ∈ c.secList, s ≠ []) :
    ∃ c', parseCopyAll c txt = .ok c' := by
  unfold parseCopyAll
  simp only [getNextSec_workingSec]
  cases hs : c.secList with
  | nil => exact ⟨_, rfl⟩
  | cons s rest =>
    cases s with
    | nil => exact absurd rfl (hne [] (by simp [hs]))
    | cons a b => exact ⟨_, rfl⟩

/-- a forced copy_all layout ignores `segment` (parameter lock-down of PLSSDesc.parse) -/
theorem C11_copyall_ignores_segment (d : Obj.DescObj) (kw : Obj.DescKw)
    (h : kw.layout = some COPY_ALL) :
    (Obj.effectiveDesc d kw).segment = false ∧ (Obj.effectiveDesc d kw).layout = some COPY_ALL := by
  unfold Obj.effectiveDesc
  simp [h]

end PyTRS
