/-
C06 — tract parsing is compositional.
-/
import PyTRS.Model.Tract
namespace PyTRS
open PyTRS.Tract

theorem C06_go_ne_nil_iff (l : List Str) : findDuplicates.go l ≠ [] ↔ ¬ l.Nodup := by
  induction l with
  | nil => simp [findDuplicates.go]
  | cons x rest ih =>
    rw [findDuplicates.go]
    by_cases h : rest.contains x = true
    · simp only [h, if_true]
      have hm : x ∈ rest := by simpa using h
      simp [List.nodup_cons, hm]
    · simp only [h]
      have hm : x ∉ rest := by simpa using h
      rw [List.nodup_cons]
      simp only [hm, not_false_eq_true, true_and]
      simpa using ih

/-- `gen_flags`: a duplicate warning is staged exactly when some lot (resp. aliquot) occurs twice -/
theorem C06_dup_flag_iff (l : List Str) : (findDuplicates l).isEmpty = false ↔ ¬ l.Nodup := by
  unfold findDuplicates
  rw [← C06_go_ne_nil_iff]
  cases findDuplicates.go l <;> simp

/-- every reported duplicate really is an element of the list -/
theorem C06_dups_are_members (l : List Str) : ∀ x ∈ findDuplicates l, x ∈ l := by
  unfold findDuplicates
  induction l with
  | nil => simp [findDuplicates.go]
  | cons x rest ih =>
    rw [findDuplicates.go]
    intro z hz
    by_cases h : rest.contains x = true
    · simp only [h, if_true, List.mem_cons] at hz
      rcases hz with rfl | hz
      · simp
      · exact List.mem_cons_of_mem _ (ih z hz)
    · simp only [h] at hz
      exact List.mem_cons_of_mem _ (ih z hz)

example : findDuplicates ["L1".toList, "L2".toList, "L1".toList] = ["L1".toList] := by decide

end PyTRS
