/-
C01 — descriptions in the documented layouts parse back to exactly their tracts.
(Glue theorems; the lexical part is monitored by the correspondence, see DESIGN.md §6 C01.)
-/
import PyTRS.Model.Plss
import PyTRS.Lemmas.Stable
namespace PyTRS
open PyTRS.Plss PyTRS.Tract

/-- `cleanup_desc` is idempotent: a cleaned block is a fixed point (what makes "block verbatim" well defined) -/
theorem C01_cleanup_idempotent (t : Str) : cleanupDesc (cleanupDesc t) = cleanupDesc t := by
  unfold cleanupDesc
  cases h : untilStable cleanupStep (t.length + 3) t with
  | none => simp [h]
  | some r =>
    have hf := untilStable_fixed _ _ _ _ h
    simp only [Option.getD_some]
    rw [show r.length + 3 = (r.length + 2) + 1 from rfl, untilStable_of_fixed _ _ _ hf]
    rfl

/-- the deduced layout is always one of the five implemented layouts -/
theorem C01_deduce_layout_range (t : Str) :
    deduceLayout t = TRS_DESC ∨ deduceLayout t = DESC_STR ∨ deduceLayout t = S_DESC_TR
      ∨ deduceLayout t = TR_DESC_S ∨ deduceLayout t = COPY_ALL := by
  unfold deduceLayout
  simp only []
  split
  · split
    · split <;> simp
    · split
      · simp
      · split <;> simp
  · simp

/-- with the default candidates, a meaningful layout is deduced exactly when both a section word and a Twp/Rge
    are found in the (stripped) text; otherwise copy_all -/
theorem C01_deduce_copyall_iff (t : Str) :
    deduceLayout t = COPY_ALL ↔
      ((Gen.no_num_sec_regex.search (pyStrip t)).isNone ∨ (Unpack.twprge.rx.search (pyStrip t)).isNone) := by
  unfold deduceLayout
  simp only []
  cases h1 : Gen.no_num_sec_regex.search (pyStrip t) <;> cases h2 : Unpack.twprge.rx.search (pyStrip t) <;> simp
  rename_i sm tm
  split
  · split <;> decide
  · split
    · decide
    · decide

end PyTRS
