/-
C02 (continued) — `qq_depth=d` is `qq_depth_min=d, qq_depth_max=d`, so the tiling and depth theorems of
PyTRS/Lemmas/Tiling.lean (C02_total, C02_tiling, C02_depth, C02_all: every chain, every depth setting with
max ≥ min ≥ 1) carry over to it; and non-vacuity examples.
-/
import PyTRS.Lemmas.Tiling
namespace PyTRS.Tiling
open PyTRS PyTRS.Aliquot

theorem C02_qq_depth_is_min_max (comps : List Str) (a : DepthArgs) (d : Int) (h : a.qqDepth = some d) :
    parseComponents comps a =
      parseComponents comps { qqMin := d, qqMax := some d, qqDepth := none, breakHalves := a.breakHalves } := by
  unfold parseComponents
  simp only [h]

/-- with `qq_depth=d` every piece has exactly `d` components, all quarters, and the pieces tile the region
    truncated to depth `d` -/
theorem C02_tiling_qq_depth (chain : List Comp) (a : DepthArgs) (d : Int) (pieces : List Str) (hne : chain ≠ [])
    (hd : a.qqDepth = some d) (h1 : 1 ≤ d) (h : parseComponents (chain.map Comp.str) a = some pieces) :
    let R := (region chain).trunc d.toNat
    (∀ p ∈ pieces, ∃ b, pieceBox p = some b ∧ b.inside R) ∧
    pieces.Pairwise (fun p q => ∀ bp bq, pieceBox p = some bp → pieceBox q = some bq → ¬ bp.overlaps bq) ∧
    (∀ D, (∀ p ∈ pieces, ∀ b, pieceBox p = some b → b.xs.length ≤ D ∧ b.ys.length ≤ D) →
          ((pieces.filterMap pieceBox).map (Box.area D)).sum = R.area D) ∧
    (∀ p ∈ pieces, ∃ cs, pieceComps p = some cs ∧ cs.length = d.toNat ∧ ∀ c ∈ cs, c.isHalf = false) := by
  rw [C02_qq_depth_is_min_max _ a d hd] at h
  have ht := C02_tiling chain _ pieces hne rfl h1 (Or.inr ⟨d, rfl, Int.le_refl d⟩) h
  have hdp := C02_depth chain _ pieces hne rfl h1 (Or.inr ⟨d, rfl, Int.le_refl d⟩) h
  refine ⟨ht.1, ht.2.1, ht.2.2, ?_⟩
  intro p hp
  obtain ⟨cs, hcs, hmin, hq, hmax, _⟩ := hdp p hp
  have hle := hmax d rfl
  have hlen : cs.length = d.toNat := by
    simp only at hmin
    omega
  refine ⟨cs, hcs, hlen, ?_⟩
  intro c hc
  apply hq
  simp only
  rw [← hlen, List.take_length]
  exact hc

/-- non-vacuity: a chain with a half passed back through a quarter, min 2 / max 3, and what Python returns -/
example : parseComponents ([Comp.NE, Comp.N, Comp.W].map Comp.str) { qqMin := 2, qqMax := some 3 }
    = some [S "NWNE"] := by decide +kernel
example : parseComponents ([Comp.N].map Comp.str) { qqMin := 2 }
    = some [S "NENE", S "NWNE", S "SENE", S "SWNE", S "NENW", S "NWNW", S "SENW", S "SWNW"] := by decide +kernel

end PyTRS.Tiling
