/-
C16 — parsing time stays bounded on any input of ordinary size.
A theorem cannot exhibit seconds; what is logic is stated here on the regenerated patterns:
which patterns can backtrack exponentially at all (structural `Safe` predicate), and that the scanning loops of
the glue make progress.
-/
import PyTRS.Model.Plss
namespace PyTRS
open PyTRS.Plss

def unsafePatternNames : List String := (Gen.patterns.filter (fun p => !p.2.1.safe)).map (·.1)

/-- Exactly these regenerated patterns contain an unbounded repeat over a compound body; every other pattern of the
    library has only single-character unbounded repeats and cannot blow up exponentially.  (Re-decided on the
    regenerated patterns on every run: an edit that makes another pattern unsafe breaks this theorem.) -/
theorem C16_unsafe_patterns :
    unsafePatternNames = ["aliquot_intervener_remover_regex", "aliquot_unpacker_regex", "half_plus_q_regex",
      "multilot_regex", "multilot_with_aliquot_regex", "multisec_regex", "sec_twprge_in_between"] := by
  decide +kernel

/-- the five warning-trigger patterns cannot match the empty string, so `gen_flags_chunk`'s scan always advances -/
theorem C16_trigger_patterns_consume :
    Gen.GEN_FLAGS_TABLE.all (fun row => (findPat row.1).rx.minWidth ≥ 1) = true := by
  decide +kernel

/-- every aliquot scrubber's match is at least as long as nothing: no scrubber matches the empty string, so a
    substitute-until-stable pass that changes the text consumed at least one character of it -/
theorem C16_scrubbers_consume :
    (Gen.QQ_SCRUBBER_REGEXES ++ Gen.QQ_CLEAN_REGEXES).all (fun n => (Tract.findRx n).rx.minWidth ≥ 1) = true := by
  decide +kernel

/-- the Twp/Rge preprocessing patterns always consume at least the two numbers and a direction or the 'R' -/
theorem C16_plss_scrubbers_consume :
    (Gen.PLSS_OCR_SCRUBBER :: Gen.PLSS_SCRUBBER_REGEXES).all (fun n => (findPat n).rx.minWidth ≥ 3) = true := by
  decide +kernel

/-- a substitute-until-stable loop performs at most `fuel` passes (the model never loops for ever; running out of
    fuel is reported as `diverged`, never as a result) -/
theorem C16_untilStable_none_or_fixed (f : Str → Str) (n : Nat) (t : Str) :
    Tract.untilStable f n t = none ∨ ∃ r, Tract.untilStable f n t = some r ∧ f r = r := by
  induction n generalizing t with
  | zero => left; rfl
  | succ k ih =>
    rw [Tract.untilStable]
    by_cases hc : (f t == t) = true
    · right; exact ⟨t, by simp [hc], by simpa using hc⟩
    · simp only [hc]; exact ih (f t)

end PyTRS
