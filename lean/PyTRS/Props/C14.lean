/-
C14 — re-parsing is idempotent and commit=False has no side effects.
-/
import PyTRS.Lemmas.Objects
import PyTRS.Model.World
namespace PyTRS
open PyTRS.Obj PyTRS.Tract

/-- `Tract.parse(commit=False)` returns the result without changing any observable attribute of the tract -/
theorem C14_tract_noncommit_pure (t : TractObj) (kw : TractKw) (r : TractObj × List Str)
    (h : tractParseMethod t false kw = .ok r) : r.1 = { t with diverged := r.1.diverged } := by
  unfold tractParseMethod at h
  simp only [] at h
  split at h
  · cases h
  · simp only [Bool.false_eq_true, if_false] at h
    cases h
    rfl

/-- `PLSSDesc.parse(commit=False)` likewise -/
theorem C14_desc_noncommit_pure (mc : Plss.MC) (uid : Nat) (d : DescObj) (kw : DescKw)
    (look : Option Str → TRS.TrsDict) (r : DescObj × ParserOut)
    (h : descParse mc uid d kw false look = .ok r) : r.1 = { d with diverged := r.1.diverged } := by
  unfold descParse at h
  split at h
  · cases h
  · simp only [Bool.false_eq_true, if_false] at h
    cases h
    rfl

/-- `preprocess(commit=False)` changes nothing either (apart from the model's divergence marker) -/
theorem C14_tract_preprocess_noncommit (t : TractObj) (c : Option Bool) :
    (tractPreprocess t c false).1 = t ∨ (tractPreprocess t c false).1 = { t with diverged := true } := by
  unfold tractPreprocess
  simp only []
  split
  · left; rfl
  · right; rfl

theorem C14_removeEach_append (inh own : List PyVal) (h : ∀ x ∈ own, x ∉ inh) :
    removeEach (inh ++ own) own = inh := by
  unfold removeEach
  induction own generalizing inh with
  | nil => simp
  | cons x xs ih =>
    have hx : x ∉ inh := h x List.mem_cons_self
    simp only [List.foldl_cons]
    have hc : (inh ++ x :: xs).contains x = true := by simp
    simp only [hc, if_true]
    rw [List.erase_append_right _ hx]
    simp only [List.erase_cons_head]
    exact ih inh (fun y hy => h y (List.mem_cons_of_mem _ hy))

/-- a committed parse *replaces* the previous results: the flags it generated are exactly what the next parse
    strips again, so the inherited flags are recovered (when no generated flag also occurs among them) -/
theorem C14_inherited_recovered (t : TractObj) (kw : TractKw) (r : TractObj × List Str)
    (h : tractParseMethod t true kw = .ok r)
    (own : ParseResult) (ho : tractParseOwn t.desc (effectiveTract t.attrs kw) = .ok own)
    (hw : ∀ x ∈ own.flags.w, x ∉ (inheritedFlags t).w) (hwl : ∀ x ∈ own.flags.wl, x ∉ (inheritedFlags t).wl)
    (he : ∀ x ∈ own.flags.e, x ∉ (inheritedFlags t).e) (hel : ∀ x ∈ own.flags.el, x ∉ (inheritedFlags t).el) :
    inheritedFlags r.1 = inheritedFlags t := by
  unfold tractParseMethod at h
  simp only [tractParse, ho, if_true] at h
  cases h
  show ({ w := _, wl := _, e := _, el := _ } : Flags) = inheritedFlags t
  simp only [Flags.append, List.drop_left']
  rw [C14_removeEach_append _ _ hw, C14_removeEach_append _ _ hwl, C14_removeEach_append _ _ he,
      C14_removeEach_append _ _ hel]

/-- hence re-parsing with unchanged settings reproduces exactly the same object: nothing accumulates -/
theorem C14_tract_reparse_idempotent (t : TractObj) (kw : TractKw) (r1 r2 : TractObj × List Str)
    (h1 : tractParseMethod t true kw = .ok r1) (h2 : tractParseMethod r1.1 true kw = .ok r2)
    (own : ParseResult) (ho : tractParseOwn t.desc (effectiveTract t.attrs kw) = .ok own)
    (hw : ∀ x ∈ own.flags.w, x ∉ (inheritedFlags t).w) (hwl : ∀ x ∈ own.flags.wl, x ∉ (inheritedFlags t).wl)
    (he : ∀ x ∈ own.flags.e, x ∉ (inheritedFlags t).e) (hel : ∀ x ∈ own.flags.el, x ∉ (inheritedFlags t).el)
    (hd : t.diverged = false) :
    r2 = r1 := by
  have hinh := C14_inherited_recovered t kw r1 h1 own ho hw hwl he hel
  unfold tractParseMethod at h1 h2
  simp only [tractParse, ho] at h1
  cases h1
  simp only [tractParse, ho, hinh] at h2
  cases h2
  simp [hd]

end PyTRS
