/-
C13 — configuration round-trips through text and has a single precedence order.
-/
import PyTRS.Lemmas.Cfg
namespace PyTRS
open PyTRS.Obj PyTRS.Config PyTRS.Plss

/-- assigning to `.config` (or passing `config=` at creation: the same setter) sets every listed attribute that the
    config holds, and nothing else: the second channel equals the first -/
theorem C13_config_sets_attribute (attrs : Attrs) (names : List String) (c : Cfg) (n : String) (v : CV)
    (hn : names.contains n = true) (hc : c.get n = some v) : (applyConfig attrs names c).get n = some v := by
  rw [applyConfig_get]
  have : n ∈ names := by simpa using hn
  simp [this, hc]

theorem C13_config_leaves_unset (attrs : Attrs) (names : List String) (c : Cfg) (n : String)
    (hc : c.get n = none) : (applyConfig attrs names c).get n = attrs.get n := by
  rw [applyConfig_get]; split <;> simp [hc]

/-- PLSSDesc.parse: a keyword, when given, is what reaches the parser — for every boolean setting -/
theorem C13_desc_keyword_wins_bool (d : DescObj) (kw : DescKw) (b : Bool) :
    (kw.cleanQQ = some b → (effectiveDesc d kw).cleanQQ = b) ∧
    (kw.parseQQ = some b → (effectiveDesc d kw).parseQQ = b) ∧
    (kw.ocrScrub = some b → (effectiveDesc d kw).ocrScrub = b) ∧
    (kw.secWithin = some b → (effectiveDesc d kw).secWithin = b) ∧
    (kw.breakHalves = some b → (effectiveDesc d kw).breakHalves = b) ∧
    (kw.segment = some b → kw.layout ≠ some COPY_ALL → getOptS d.attrs "layout" ≠ some COPY_ALL →
        (effectiveDesc d kw).segment = b) := by
  unfold effectiveDesc
  refine ⟨?_, ?_, ?_, ?_, ?_, ?_⟩ <;> intro h <;> simp [h]
  intro h1 h2
  cases hl : kw.layout with
  | none => simp [h2]
  | some l => simp [hl] at h1; simp [h1]

/-- … and without a keyword the attribute set from the config (or the class default) is used -/
theorem C13_desc_config_used_without_keyword (d : DescObj) (kw : DescKw) :
    (kw.cleanQQ = none → (effectiveDesc d kw).cleanQQ = getB d.attrs "clean_qq") ∧
    (kw.parseQQ = none → (effectiveDesc d kw).parseQQ = getB d.attrs "parse_qq") ∧
    (kw.ocrScrub = none → (effectiveDesc d kw).ocrScrub = getB d.attrs "ocr_scrub") ∧
    (kw.secWithin = none → (effectiveDesc d kw).secWithin = getB d.attrs "sec_within") ∧
    (kw.breakHalves = none → (effectiveDesc d kw).breakHalves = getB d.attrs "break_halves") ∧
    (kw.layout = none → (effectiveDesc d kw).layout = getOptS d.attrs "layout") := by
  unfold effectiveDesc
  refine ⟨?_, ?_, ?_, ?_, ?_, ?_⟩ <;> intro h <;> simp [h]

/-- the colon requirement: keyword over attribute for each of the two settings, `required` dominating `cautious` -/
theorem C13_colon_precedence (d : DescObj) (kw : DescKw) :
    (effectiveDesc d kw).requireColon =
      (let req := kw.secColonRequired.getD (getB d.attrs "sec_colon_required")
       let caut := kw.secColonCautious.getD (getB d.attrs "sec_colon_cautious")
       if req then ReqColon.yes else if caut then ReqColon.cautious else ReqColon.no) := by
  unfold effectiveDesc; rfl

/-- depth settings of PLSSDesc.parse: `qq_depth` from the object only when no depth keyword at all is given -/
theorem C13_desc_depth_precedence (d : DescObj) (kw : DescKw) :
    (effectiveDesc d kw).qqDepth =
        (if kw.qqDepth.isNone && kw.qqDepthMin.isNone && kw.qqDepthMax.isNone then getOptI d.attrs "qq_depth" else kw.qqDepth) ∧
    (effectiveDesc d kw).qqDepthMin = (match kw.qqDepthMin with | some m => some m | none => getOptI d.attrs "qq_depth_min") ∧
    (effectiveDesc d kw).qqDepthMax = (match kw.qqDepthMax with | some m => some m | none => getOptI d.attrs "qq_depth_max") := by
  unfold effectiveDesc; exact ⟨rfl, rfl, rfl⟩

/-- Tract.parse: keyword over attribute for every tract-level setting -/
theorem C13_tract_keyword_wins (attrs : Attrs) (kw : TractKw) (b : Bool) :
    (kw.cleanQQ = some b → (effectiveTract attrs kw).cleanQQ = b) ∧
    (kw.suppressLotDivs = some b → (effectiveTract attrs kw).suppressLotDivs = b) ∧
    (kw.breakHalves = some b → (effectiveTract attrs kw).depth.breakHalves = b) ∧
    (kw.cleanQQ = none → (effectiveTract attrs kw).cleanQQ = getB attrs "clean_qq") ∧
    (kw.suppressLotDivs = none → (effectiveTract attrs kw).suppressLotDivs = getB attrs "suppress_lot_divs") := by
  unfold effectiveTract
  refine ⟨?_, ?_, ?_, ?_, ?_⟩ <;> intro h <;> simp [h]

theorem C13_tract_depth_keyword (attrs : Attrs) (kw : TractKw) (dd : Int) (h : kw.qqDepth = some dd) :
    (effectiveTract attrs kw).depth.qqMin = dd ∧ (effectiveTract attrs kw).depth.qqMax = some dd := by
  unfold effectiveTract; simp [h]

/-- an item whose attribute part is not a documented setting raises ValueError -/
theorem C13_unknown_setting_rejected (c : Cfg) (line : Str) (db : Option Bool)
    (h : isCfgAttr (splitAttrVal line).1 = false) :
    setStrToValues c line db = .error .valueError := by
  unfold setStrToValues
  simp only [h, Bool.not_false, if_true]

/-- decompiling prints the settings in the fixed attribute order and parsing ignores order: the canonical form of
    a configuration is order-independent -/
theorem C13_toText_order_independent (c1 c2 : Cfg) (h : ∀ a, c1.get a = c2.get a) : toText c1 = toText c2 := by
  unfold toText; simp [h]

end PyTRS
