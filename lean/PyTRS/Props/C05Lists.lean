/-
C05 (continued) — the section / lot list unpackers expand an elided list to exactly the numbers it denotes.

The statements are over the model's `unpackSections` / `unpackLots` (PyTRS/Model/Unpack.lean).  `LexList (secView txt) …`
is the lexical fact that reading `txt` right to left with `multisec_regex` meets the tokens of `items` (numbers, each
with "a through-connective stands before it"); everything after that — ranges in either direction, padding, order,
termination (no divergence) — is proved here for every list of items.
-/
import PyTRS.Lemmas.Elided
namespace PyTRS
open PyTRS.Unpack

/-- every list of singles and ranges, in either direction: the abstract right-to-left loop denotes `expand` -/
theorem C05_loop_eq_expand (items : List Item) : rlFold (tokens items) = expand items := rlFold_eq_expand items

/-- sections: the result is the expansion, zero-padded, in reading order; the loop does not diverge -/
theorem C05_sections_expand (txt : Str) (items : List Item)
    (h : LexList (secView txt) txt.length (tokens items).reverse) (hnn : ∀ n ∈ expand items, 0 ≤ n) :
    (unpackSections txt).secList = (expand items).map pad2 ∧ (unpackSections txt).diverged = false :=
  unpackSections_expand txt items h hnn

/-- lots: the result is the expansion as `L<n>` names, in reading order; the loop does not diverge -/
theorem C05_lots_expand (txt : Str) (items : List Item)
    (h : LexList (lotView txt) txt.length (tokens items).reverse) :
    (unpackLots txt).lotList = (expand items).map lotName ∧ (unpackLots txt).diverged = false :=
  unpackLots_expand txt items h

/-- a range is flagged non-sequential exactly when it does not ascend -/
theorem C05_nonsequential_iff (items : List Item) :
    (∃ it ∈ items, ∃ a b, it = .range a b ∧ ¬ a < b) ↔ false ∈ (rlFoldF (tokens items)).2 := nonsequential_iff items

/-- what a range denotes: every number between its ends, once, in the direction written -/
theorem C05_range_expand_mem (a b x : Int) :
    x ∈ Item.expand (.range a b) ↔ (min a b ≤ x ∧ x ≤ max a b) := by
  unfold Item.expand
  by_cases h : a ≤ b
  · simp only [h, if_true, List.mem_map, List.mem_range]
    constructor
    · rintro ⟨k, hk, rfl⟩; omega
    · intro hx; exact ⟨(x - a).toNat, by omega, by omega⟩
  · simp only [h, if_false, List.mem_map, List.mem_range]
    constructor
    · rintro ⟨k, hk, rfl⟩; omega
    · intro hx; exact ⟨(a - x).toNat, by omega, by omega⟩

theorem C05_range_expand_length (a b : Int) : (Item.expand (.range a b)).length = (a - b).natAbs + 1 := by
  simp only [Item.expand]
  by_cases h : a ≤ b
  · simp only [h, if_true, List.length_map, List.length_range]; omega
  · simp only [h, if_false, List.length_map, List.length_range]; omega

/-- non-vacuity: the lexical hypothesis holds of a real text, and the conclusion is what Python returns -/
example : (unpackSections (S "Sections 1 - 3, 5 and 9 thru 7")).secList
    = (expand [.range 1 3, .single 5, .range 9 7]).map pad2 := by decide +kernel

example : LexList (secView (S "Sec 1 - 3")) 9 (tokens [.range 1 3]).reverse := by
  refine .more 9 3 true 5 _ (by decide +kernel) (by decide) (.last 5 1 false 0 (by decide +kernel) (by decide +kernel))

end PyTRS
