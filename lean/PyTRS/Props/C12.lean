/-
C12 — the Twp/Rge/Sec standard form is canonical, round-trips, and is strict.
-/
import PyTRS.Model.TRS
namespace PyTRS
open PyTRS.TRS

/-- empty input (or None) means 'undefined' -/
theorem C12_empty_is_undefined :
    (trsToDict none).trs = S Gen.UNDEF_TRS ∧ (trsToDict (some [])).trs = S Gen.UNDEF_TRS
      ∧ (trsToDict none).twpUndef = true ∧ (trsToDict none).rgeUndef = true ∧ (trsToDict none).secUndef = true := by
  decide +kernel

/-- whatever the input, the reported `trs` is the concatenation of the reported components -/
theorem C12_trs_is_concat (x : Option Str) :
    (trsToDict x).trs = (trsToDict x).twp ++ (trsToDict x).rge ++ ((trsToDict x).sec.getD (S "None")) := by
  unfold trsToDict
  simp only []
  cases unpacker.rx.fullmatch (pyLower (normIn x)) with
  | none => show errDict.trs = errDict.twp ++ errDict.rge ++ errDict.sec.getD (S "None"); decide
  | some mo => rfl

/-- an input the unpacker pattern does not fully match yields exactly the error dict (never a different
    valid-looking Twp/Rge/Sec) -/
theorem C12_reject_is_error (x : Option Str)
    (h : unpacker.rx.fullmatch (pyLower (normIn x)) = none) : trsToDict x = errDict := by
  unfold trsToDict
  simp only [h]

/-- the section reported is never `None`: a missing / unreadable section becomes the error section -/
theorem C12_sec_never_none (mo : Match) (t : Str) : (buildDict mo t).sec.isSome = true := by
  unfold buildDict
  simp only []
  cases unpacker.group mo t "sec" with
  | none => rfl
  | some s =>
    simp only []
    cases pyInt? s with
    | some i => rfl
    | none =>
      simp only []
      split <;> rfl

end PyTRS
