/-
C10 — flags are well-typed, shared with tracts, and raised whenever warranted.
The flag lists of the model are `List PyVal` (not `List String`): "all flags are strings, all lines are
(flag, context) string pairs, one-to-one" is an invariant over every append site, proved here site by site.
-/
import PyTRS.Lemmas.Flags
import PyTRS.Model.Objects
namespace PyTRS
open PyTRS.Unpack PyTRS.Plss

theorem C10_secRangeStep_typed (st : SecLoopSt) (n : Int) (h : Typed st.flags st.flagLines) :
    Typed (secRangeStep st n).flags (secRangeStep st n).flagLines := by
  unfold secRangeStep
  split
  · simp only []
    split
    · exact h
    · exact h.snoc _ _
  · exact h

theorem C10_secLoop_typed (txt : Str) : ∀ (fuel endpos : Nat) (st : SecLoopSt),
    Typed st.flags st.flagLines → Typed (secLoop txt fuel endpos st).1.flags (secLoop txt fuel endpos st).1.flagLines := by
  intro fuel
  induction fuel with
  | zero => intro endpos st h; simpa [secLoop] using h
  | succ k ih =>
    intro endpos st h
    rw [secLoop]
    split
    · exact h
    · exact ih _ _ (C10_secRangeStep_typed st _ h)

/-- `SecUnpacker`: flags and flag lines are well-typed and paired for every text -/
theorem C10_unpack_sections_typed (txt : Str) :
    Typed (unpackSections txt).flags (unpackSections txt).flagLines := by
  unfold unpackSections
  exact C10_secLoop_typed txt _ _ _ Typed.nil

theorem C10_lotRangeStep_typed (st : LotLoopSt) (n : Int) (h : Typed st.flags st.flagLines) :
    Typed (lotRangeStep st n).flags (lotRangeStep st n).flagLines := by
  unfold lotRangeStep
  split
  · simp only []
    split
    · exact h
    · exact h.snoc _ _
  · exact h

theorem C10_lotAcreStep_typed (st : LotLoopSt) (n : Int) (a : Option Str) (h : Typed st.flags st.flagLines) :
    Typed (lotAcreStep st n a).flags (lotAcreStep st n a).flagLines := by
  unfold lotAcreStep
  split
  · exact h
  · simp only []
    split
    · exact h.snoc _ _
    · exact h

theorem C10_lotLoop_typed (txt : Str) : ∀ (fuel endpos : Nat) (st : LotLoopSt),
    Typed st.flags st.flagLines → Typed (lotLoop txt fuel endpos st).1.flags (lotLoop txt fuel endpos st).1.flagLines := by
  intro fuel
  induction fuel with
  | zero => intro endpos st h; simpa [lotLoop] using h
  | succ k ih =>
    intro endpos st h
    rw [lotLoop]
    split
    · exact h
    · apply ih
      simp only []
      split <;> exact C10_lotAcreStep_typed _ _ _ (C10_lotRangeStep_typed st _ h)

/-- `LotUnpacker`: flags and flag lines are well-typed and paired for every text -/
theorem C10_unpack_lots_typed (txt : Str) :
    Typed (unpackLots txt).flags (unpackLots txt).flagLines := by
  unfold unpackLots
  exact C10_lotLoop_typed txt _ _ _ Typed.nil

/-- every chunk-level staging step keeps the error flags typed; `_parse_copyall` included -/
theorem C10_chunk_staging_typed (c : Chunk) (h : FlagsTyped c.fl) :
    FlagsTyped (getNextSec c).fl ∧ FlagsTyped (getNextTwprge c).fl ∧
    ∀ txt c', parseCopyAll c txt = .ok c' → FlagsTyped c'.fl :=
  ⟨getNextSec_typed c h, getNextTwprge_typed c h, fun txt c' hc => parseCopyAll_typed c c' txt h hc⟩

end PyTRS
