/-
C19 — bulk export is faithful, ordered and total over documented attributes.
-/
import PyTRS.Model.Export
import PyTRS.Lemmas.Csv
namespace PyTRS
open PyTRS.Export PyTRS.Obj

/-- one record per tract, in order, one value per requested attribute name, each value being the attribute
    (or the documented 'n/a' placeholder) -/
theorem C19_records_faithful (ts : List TractObj) (atts : List String) :
    (ts.map (fun t => toList t atts)).length = ts.length ∧
    ∀ t ∈ ts, (toList t atts).length = atts.length ∧
      ∀ i (h : i < atts.length), (toList t atts)[i]'(by simp [toList]; exact h) = getAttrNA t atts[i] := by
  refine ⟨by simp, fun t _ => ⟨by simp [toList], fun i h => by simp [toList]⟩⟩

/-- cell scrubbing is total and always yields a scalar: lists, tuples (also nested, also of ints) and dicts
    are joined into one string -/
theorem C19_scrub_total (v : PyVal) :
    (∃ s, scrubCell v = .str s) ∨ scrubCell v = v ∧ (match v with | .list _ | .tup _ | .dict _ => False | _ => True) := by
  cases v <;> simp [scrubCell]

/-- exactly one row per tract, after exactly one header row unless appending to an existing file -/
theorem C19_one_row_per_tract (ts : List TractObj) (atts : List String) (nice ex : Bool) (mode : String) :
    (tractsToCsvRows ts atts nice ex mode).length = ts.length + (if ex && mode == "a" then 0 else 1) := by
  unfold tractsToCsvRows
  by_cases h : (ex && mode == "a") = true
  · simp [h]
  · simp [h]

/-- every data row has one cell per requested attribute -/
theorem C19_row_width (ts : List TractObj) (atts : List String) (nice ex : Bool) (mode : String) :
    ∀ r ∈ (tractsToCsvRows ts atts nice ex mode), r.length = atts.length := by
  unfold tractsToCsvRows
  intro r hr
  simp only [] at hr
  rcases List.mem_append.mp hr with h | h
  · split at h
    · simp at h; subst h; unfold getHeaders; split <;> simp
    · simp at h
  · simp only [List.mem_map] at h
    obtain ⟨t, _, rfl⟩ := h
    simp [toList]

/-- reading back what the writer wrote gives the rows back, for cells containing commas, quotes, CR and LF
    (the excel-dialect quoting model; CPython's csv is cross-checked against this model on every run) -/
theorem C19_csv_roundtrip (rows : List (List Str)) (h : ∀ r ∈ rows, r ≠ []) :
    readCsv ((rows.map writeRow).flatten) = rows :=
  csv_roundtrip rows h

/-- so the file written by `tracts_to_csv` reads back as exactly one header row (for a new file) plus one row per
    tract whose cells are the scrubbed attribute values — provided at least one attribute is requested -/
theorem C19_file_reads_back (ts : List TractObj) (atts : List String) (nice ex : Bool) (mode : String)
    (hne : atts ≠ []) :
    readCsv (((tractsToCsvRows ts atts nice ex mode).map writeRow).flatten) = tractsToCsvRows ts atts nice ex mode := by
  apply csv_roundtrip
  intro r hr
  have hw := C19_row_width ts atts nice ex mode r hr
  intro hnil
  rw [hnil] at hw
  cases atts with
  | nil => exact hne rfl
  | cons a t => simp at hw

/-- an unknown attribute name yields the documented placeholder instead of an error -/
theorem C19_unknown_is_na (t : TractObj) : getAttrNA t "bogus" = .str "bogus: n/a".toList := by
  rfl

end PyTRS
