/-
C08 — Twp/Rge spellings are equivalent; missing directions come from defaults only.
Theorems about `unpack_twprge` hold for *every* match object (any pattern, any text).
-/
import PyTRS.Model.Unpack
namespace PyTRS
open PyTRS.Unpack

/-- an explicit N/S and E/W is never overridden: with both direction groups captured, the result does not
    depend on the defaults (as long as they are legal, otherwise the call raises) -/
theorem C08_explicit_never_overridden (p : Pat) (mo : Match) (text : Str) (n1 e1 n2 e2 : Str) (ocr : Bool)
    (cn ce : Char) (rn re : Str)
    (hns : p.group mo text "ns" = some (cn :: rn)) (hew : p.group mo text "ew" = some (ce :: re))
    (h1 : isLegal Gen.LEGAL_NS n1 = true) (h2 : isLegal Gen.LEGAL_EW e1 = true)
    (h3 : isLegal Gen.LEGAL_NS n2 = true) (h4 : isLegal Gen.LEGAL_EW e2 = true) :
    unpackTwprge p mo text n1 e1 ocr = unpackTwprge p mo text n2 e2 ocr := by
  unfold unpackTwprge dirPart
  simp [hns, hew, h1, h2, h3, h4]

/-- the explicit letter is what is reported: the upper-cased first character of the captured group -/
theorem C08_explicit_letter (p : Pat) (mo : Match) (text : Str) (g : String) (d : Str) (c : Char) (r : Str)
    (h : p.group mo text g = some (c :: r)) : dirPart p mo text g d = pyUpper [c] := by
  unfold dirPart; simp [h]

/-- a missing direction is filled from the default, upper-cased, and from nothing else -/
theorem C08_missing_from_default (p : Pat) (mo : Match) (text : Str) (g : String) (d : Str)
    (h : p.group mo text g = none) : dirPart p mo text g d = pyUpper d := by
  unfold dirPart; simp [h]

/-- shape of the result for legal defaults: `T<twp><NS>-R<rge><EW>` -/
theorem C08_shape (p : Pat) (mo : Match) (text : Str) (dn de : Str) (ocr : Bool)
    (h1 : isLegal Gen.LEGAL_NS dn = true) (h2 : isLegal Gen.LEGAL_EW de = true) :
    unpackTwprge p mo text dn de ocr = .ok ("T".toList ++ twpPart p mo text ocr ++ dirPart p mo text "ns" dn
      ++ "-R".toList ++ rgePart p mo text ocr ++ dirPart p mo text "ew" de) := by
  unfold unpackTwprge; simp [h1, h2]

/-- an illegal default direction is rejected with the documented exception, whatever was matched -/
theorem C08_illegal_default_rejected (p : Pat) (mo : Match) (text : Str) (dn de : Str) (ocr : Bool) :
    (isLegal Gen.LEGAL_NS dn = false → unpackTwprge p mo text dn de ocr = .error .defaultNS) ∧
    (isLegal Gen.LEGAL_NS dn = true → isLegal Gen.LEGAL_EW de = false →
      unpackTwprge p mo text dn de ocr = .error .defaultEW) := by
  unfold unpackTwprge
  constructor
  · intro h; simp [h]
  · intro h1 h2; simp [h1, h2]

/-- the OCR substitution table maps the look-alike letters to digits (regenerated from the source) -/
theorem C08_ocr_table :
    ocrScrubAlphaToNum "ISOl".toList = "1501".toList ∧ ocrScrubAlphaToNum "154".toList = "154".toList := by
  decide

end PyTRS
