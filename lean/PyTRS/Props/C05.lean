/-
C05 — elided lists expand to exactly the numbers they denote.
Property theorems only (helper lemmas live in PyTRS/Lemmas).
-/
import PyTRS.Model.Unpack
namespace PyTRS
open PyTRS.Unpack

/-- ascending range `a - b` (a < b): the loop appends exactly the numbers `a ≤ x < b`
    (the right end `b` was appended by the previous iteration as a standalone number) -/
theorem C05_elided_asc_mem (a b x : Int) (h : a < b) :
    x ∈ (elidedRange a b).1 ↔ a ≤ x ∧ x < b := by
  unfold elidedRange
  simp only [h, if_true, List.mem_map, List.mem_range]
  constructor
  · rintro ⟨k, hk, rfl⟩; omega
  · rintro ⟨h1, h2⟩
    refine ⟨(b - 1 - x).toNat, ?_, ?_⟩ <;> omega

/-- descending (or degenerate) range `a - b` with a ≥ b: exactly the numbers `b < x ≤ a`, and it is flagged -/
theorem C05_elided_desc_mem (a b x : Int) (h : ¬ a < b) :
    (x ∈ (elidedRange a b).1 ↔ b < x ∧ x ≤ a) ∧ (elidedRange a b).2 = false := by
  unfold elidedRange
  simp only [h, if_false, List.mem_map, List.mem_range, and_true]
  constructor
  · rintro ⟨k, hk, rfl⟩; omega
  · rintro ⟨h1, h2⟩
    refine ⟨(x - b - 1).toNat, ?_, ?_⟩ <;> omega

/-- the numbers of one range come out in strictly monotone order: no duplicates, no gaps -/
theorem C05_elided_length (a b : Int) :
    (elidedRange a b).1.length = (if a < b then (b - a).toNat else (a - b).toNat) := by
  unfold elidedRange
  by_cases h : a < b <;> simp [h]

example : (elidedRange 3 9).1 = [8, 7, 6, 5, 4, 3] ∧ (elidedRange 9 3).1 = [4, 5, 6, 7, 8, 9] := by decide

end PyTRS
