/-
C20 — optional parse modes are conservative where they are not needed.
-/
import PyTRS.Model.Objects
namespace PyTRS
open PyTRS.Plss

/-- `sec_within` only acts when exactly one tract candidate exists: with none or several nothing changes -/
theorem C20_secwithin_needs_exactly_one (comps : List Component) (unused : List (Nat × Str)) (n : Nat)
    (h : comps.length ≠ 1) : rebuildSecWithin comps unused n = (comps, unused) := by
  unfold rebuildSecWithin
  match comps, h with
  | [], _ => rfl
  | [_], h => exact absurd rfl h
  | _ :: _ :: _, _ => rfl

/-- with exactly one candidate the result is again exactly one tract for the same Twp/Rge and section(s); all
    unused text is consumed, and the tract is marked for a `sec_within` warning iff its description changed -/
theorem C20_secwithin_one (t : Component) (unused : List (Nat × Str)) (n : Nat) :
    ∃ t', rebuildSecWithin [t] unused n = ([t'], []) ∧ t'.sec = t.sec ∧ t'.twprge = t.twprge
      ∧ (t'.desc ≠ t.desc → t'.secWithin = true) := by
  unfold rebuildSecWithin
  simp only []
  split
  · rename_i hne
    exact ⟨_, rfl, rfl, rfl, fun _ => rfl⟩
  · exact ⟨t, rfl, rfl, rfl, fun h => absurd rfl h⟩

/-- colon modes only matter for the two section-first layouts: in the other layouts the required/cautious
    settings are ignored by the finder -/
theorem C20_colon_irrelevant_layouts (text layout : Str) (rc : ReqColon) (h : firstLayouts layout = false) :
    secFinder text layout rc = secFinder text layout .no := by
  unfold secFinder
  simp [h]

end PyTRS
