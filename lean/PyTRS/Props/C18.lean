/-
C18 — filter/group operations partition the list; containers never drop silently.
-/
import PyTRS.Model.Containers
import PyTRS.Lemmas.Filter
set_option linter.unusedSectionVars false
namespace PyTRS
open PyTRS.Cont

section
variable {κ α : Type} [BEq κ] [LawfulBEq κ]

theorem C18_groupInsert_perm (d : List (κ × List α)) (k : κ) (x : α) :
    (unpackGroup (groupInsert d k x)).Perm (unpackGroup d ++ [x]) := by
  induction d with
  | nil => simp [groupInsert, unpackGroup]
  | cons e t ih =>
    obtain ⟨k', xs⟩ := e
    rw [groupInsert]
    split
    · simp only [unpackGroup, List.flatMap_cons, List.append_assoc]
      exact List.Perm.append_left xs List.perm_append_comm
    · simp only [unpackGroup, List.flatMap_cons, List.append_assoc] at ih ⊢
      exact List.Perm.append_left xs ih

theorem C18_foldl_group_perm (key : α → κ) : ∀ (l : List α) (d : List (κ × List α)),
    (unpackGroup (l.foldl (fun d x => groupInsert d (key x) x) d)).Perm (unpackGroup d ++ l) := by
  intro l
  induction l with
  | nil => intro d; simp
  | cons x t ih =>
    intro d
    simp only [List.foldl_cons]
    refine (ih _).trans ?_
    have := C18_groupInsert_perm d (key x) x
    refine (List.Perm.append_right t this).trans ?_
    simp

/-- grouping puts every element into exactly one group: unpacking the groups gives back a permutation of the
    list (nothing lost, nothing duplicated), for every key function -/
theorem C18_group_partition (l : List α) (key : α → κ) : (unpackGroup (groupBy1 l key)).Perm l := by
  unfold groupBy1
  simpa [unpackGroup] using C18_foldl_group_perm key l []

/-- every group holds only elements whose key is the group's key -/
def GroupsOK (key : α → κ) (d : List (κ × List α)) : Prop := ∀ e ∈ d, ∀ x ∈ e.2, key x = e.1

theorem C18_groupInsert_ok (key : α → κ) (d : List (κ × List α)) (x : α) (h : GroupsOK key d) :
    GroupsOK key (groupInsert d (key x) x) := by
  induction d with
  | nil =>
    intro e he y hy
    simp [groupInsert] at he
    subst he
    simp at hy
    subst hy
    rfl
  | cons e t ih =>
    obtain ⟨k', xs⟩ := e
    rw [groupInsert]
    have ht : GroupsOK key t := fun e he => h e (List.mem_cons_of_mem _ he)
    split
    · rename_i hk
      have hk' : k' = key x := by simpa using hk
      intro e he y hy
      rcases List.mem_cons.mp he with rfl | he
      · simp only at hy ⊢
        rcases List.mem_append.mp hy with hy | hy
        · exact h (k', xs) List.mem_cons_self y hy
        · simp at hy; subst hy; exact hk'.symm
      · exact ht e he y hy
    · intro e he y hy
      rcases List.mem_cons.mp he with rfl | he
      · exact h (k', xs) List.mem_cons_self y hy
      · exact ih ht e he y hy

theorem C18_group_keys (l : List α) (key : α → κ) : GroupsOK key (groupBy1 l key) := by
  unfold groupBy1
  have : ∀ (l : List α) (d : List (κ × List α)), GroupsOK key d →
      GroupsOK key (l.foldl (fun d x => groupInsert d (key x) x) d) := by
    intro l
    induction l with
    | nil => intro d h; simpa using h
    | cons x t ih => intro d h; exact ih _ (C18_groupInsert_ok key d x h)
  exact this l [] (fun e he => by simp at he)

end

/-- `filter(key)` returns exactly the elements that satisfy the predicate, in their original order, and leaves
    the receiver untouched (the reverse-pop index bookkeeping of `_new_list_from_self` is what is proved) -/
theorem C18_filter_spec {α : Type} (l : List α) (p : α → Bool) : filterBy l p false = (l.filter p, l) :=
  filterBy_keep l p

/-- with `drop=True` the receiver keeps exactly the others, in order -/
theorem C18_filter_drop_spec {α : Type} (l : List α) (p : α → Bool) :
    filterBy l p true = (l.filter p, l.filter (fun x => !p x)) :=
  filterBy_drop l p

/-- together: a partition of the list (nothing lost, nothing duplicated) -/
theorem C18_filter_partition {α : Type} (l : List α) (p : α → Bool) :
    ((filterBy l p true).1 ++ (filterBy l p true).2).Perm l :=
  filterBy_partition l p

/-- `filter_errors` is `filter` with the error predicate: same laws -/
theorem C18_filter_errors_spec (l : List Elem) (twp rge sec undef : Bool) :
    filterErrors l twp rge sec undef true
      = (l.filter (isErrElem twp rge sec undef), l.filter (fun x => !isErrElem twp rge sec undef x)) :=
  filterBy_drop l _

/-- `filter_duplicates` rejects an unknown method with ValueError (and touches nothing) -/
theorem C18_bad_method_rejected (l : List Elem) (m : String) (isTRS drop : Bool)
    (h1 : m ≠ "default") (h2 : m ≠ "instance" ∧ m ≠ "lots_qqs" ∧ m ≠ "desc" ∧ m ≠ "trs") :
    filterDuplicates l m isTRS drop = .error .valueError := by
  unfold filterDuplicates
  simp [h1, h2]

end PyTRS
