/-
C03 (continued) — totality with the lexical hypothesis `SecsNonEmpty` discharged.

`C20_sec_match_unpacks_nonempty` (PyTRS/Lemmas/Modes.lean) proves, for the regenerated `multisec_regex` under the
sre-faithful semantics, that every match unpacks to at least one section (the pattern is anchor-free, so what it
consumed once it consumes again when re-run on the matched text alone).  With it the theorems of
PyTRS/Lemmas/Total.lean lose that hypothesis.  What remains is the shape of staged components in the two section-first
layouts (`SecFirstChunksOK`: a section reference whose start coincides with a Twp/Rge boundary would stage a tract
without a section) — monitored by the harness (lexfacts.NoMarkerCollision), not proved.
-/
import PyTRS.Lemmas.Total
import PyTRS.Lemmas.Modes
namespace PyTRS
open PyTRS.Obj PyTRS.Plss

theorem C03_secs_nonempty : SecsNonEmpty :=
  fun text mo h => C20_sec_match_unpacks_nonempty text mo h

/-- the section finder never raises, and every section reference it reports carries at least one section -/
theorem C03_secFinder_never_raises (text layout : Str) (rc : ReqColon) :
    ∃ r, secFinder text layout rc = .ok r ∧ ∀ m ∈ r.1, m.secs ≠ [] :=
  C03_secFinder_total C03_secs_nonempty text layout rc

/-- one chunk never raises under legal MasterConfig defaults -/
theorem C03_chunkParser_never_raises (mc : MC) (pc : ParserCfg) (text : Str) (copyAll : Bool) (layout : Str)
    (parent : ParentSt) (h1 : legalNS mc.ns = true) (h2 : legalEW mc.ew = true) :
    ∃ p, chunkParser mc pc text copyAll layout parent = .ok p :=
  C03_chunkParser_total C03_secs_nonempty mc pc text copyAll layout parent h1 h2

/-- the whole parser, forced copy_all: never raises (valid arguments) -/
theorem C03_plssParser_never_raises_copyall (mc : MC) (uid0 : Nat) (text : Str) (a : ParserArgs)
    (look : Option Str → TRS.TrsDict)
    (h1 : legalNS mc.ns = true) (h2 : legalEW mc.ew = true)
    (h3 : ∀ x, a.defaultNS = some x → legalNS x = true) (h4 : ∀ x, a.defaultEW = some x → legalEW x = true)
    (hd : ∃ t, handedDownText a = .ok t ∧ ∃ c, Config.ofText t = .ok c)
    (hl : a.layout = some COPY_ALL) :
    ∃ out, plssParser mc uid0 text a look = .ok out :=
  C03_plssParser_total_copyall C03_secs_nonempty mc uid0 text a look h1 h2 h3 h4 hd hl

/-- the whole parser, a description-first layout forced (desc_STR, TR_desc_S), no segmenting: never raises -/
theorem C03_plssParser_never_raises_descfirst (mc : MC) (uid0 : Nat) (text : Str) (a : ParserArgs)
    (look : Option Str → TRS.TrsDict)
    (h1 : legalNS mc.ns = true) (h2 : legalEW mc.ew = true)
    (h3 : ∀ x, a.defaultNS = some x → legalNS x = true) (h4 : ∀ x, a.defaultEW = some x → legalEW x = true)
    (hd : ∃ t, handedDownText a = .ok t ∧ ∃ c, Config.ofText t = .ok c)
    (l : Str) (hl : a.layout = some l) (hseg : a.segment = false) (hnot : sDescLays l = false) :
    ∃ out, plssParser mc uid0 text a look = .ok out :=
  C03_plssParser_total_descfirst C03_secs_nonempty mc uid0 text a look h1 h2 h3 h4 hd l hl hseg hnot

/-- the whole parser, any layout (deduced or forced, segmenting or not): never raises, given that chunks in the two
    section-first layouts stage only components that carry a section -/
theorem C03_plssParser_never_raises (mc : MC) (uid0 : Nat) (text : Str) (a : ParserArgs)
    (look : Option Str → TRS.TrsDict)
    (h1 : legalNS mc.ns = true) (h2 : legalEW mc.ew = true)
    (h3 : ∀ x, a.defaultNS = some x → legalNS x = true) (h4 : ∀ x, a.defaultEW = some x → legalEW x = true)
    (hd : ∃ t, handedDownText a = .ok t ∧ ∃ c, Config.ofText t = .ok c)
    (hsec : ∀ pp, plssPreprocess mc text a.defaultNS a.defaultEW a.ocrScrub = .ok pp →
              SecFirstChunksOK mc (parserCfgOf a) (layoutOf a pp.text)) :
    ∃ out, plssParser mc uid0 text a look = .ok out :=
  C03_plssParser_total_layouts C03_secs_nonempty mc uid0 text a look h1 h2 h3 h4 hd hsec

/-- executable form of hypothesis `hd`: the handed-down configuration text is produced and is accepted again -/
def handedDownOK (a : ParserArgs) : Bool :=
  match handedDownText a with
  | .ok t => (match Config.ofText t with | .ok _ => true | .error _ => false)
  | .error _ => false

theorem C03_handedDown_of_check (a : ParserArgs) (h : handedDownOK a = true) :
    ∃ t, handedDownText a = .ok t ∧ ∃ c, Config.ofText t = .ok c := by
  unfold handedDownOK at h
  cases h1 : handedDownText a with
  | error e => rw [h1] at h; cases h
  | ok t =>
    rw [h1] at h
    simp only [] at h
    cases h2 : Config.ofText t with
    | error e => rw [h2] at h; cases h
    | ok c => exact ⟨t, rfl, c, h2⟩

/-- for a PLSSDesc created without a config (the default) hypothesis `hd` holds, with or without parse_qq -/
theorem C03_handedDown_default :
    handedDownOK {} = true ∧ handedDownOK { parseQQ := true } = true := by decide +kernel

end PyTRS
