/-
C02 — aliquot parsing tiles exactly the described area.
-/
import PyTRS.Model.Aliquot
namespace PyTRS
open PyTRS.Aliquot

/-- the regenerated subdivision table: every half / ALL is split into quarters that keep its letters
    (what makes `QQ_SUBDIVIDE_DEFINITIONS[k]` a tiling of `k`) -/
theorem C02_subdivide_table :
    subdivDefs = [("ALL".toList, ["NE", "NW", "SE", "SW"].map String.toList),
                  ("N".toList, ["NE", "NW"].map String.toList), ("S".toList, ["SE", "SW"].map String.toList),
                  ("E".toList, ["NE", "SE"].map String.toList), ("W".toList, ["NW", "SW"].map String.toList)] := by
  decide

/-- halves on the same axis are never merged: the regenerated same-axis table pairs N/S and E/W -/
theorem C02_same_axis_table :
    sameAxisTbl = [("N".toList, ["N", "S"].map String.toList), ("S".toList, ["N", "S"].map String.toList),
                   ("E".toList, ["E", "W"].map String.toList), ("W".toList, ["E", "W"].map String.toList)] := by
  decide

end PyTRS
