/-
C15 — results depend only on text and settings, not on what ran before.
The TRS cache is part of the model's `World`; the theorems show it is semantically transparent.
-/
import PyTRS.Model.World
set_option linter.unusedSimpArgs false
namespace PyTRS
open PyTRS.World PyTRS.TRS

theorem C15_normIn_idem (s : Option Str) : normIn (some (normIn s)) = normIn s := by
  unfold normIn
  cases s with
  | none => rfl
  | some l => cases l <;> rfl

theorem C15_trsToDict_normIn (s : Option Str) : trsToDict (some (normIn s)) = trsToDict s := by
  unfold trsToDict
  rw [C15_normIn_idem]

/-- the cache invariant holds initially, … -/
theorem C15_cache_ok_init : CacheOK {} := by
  intro e he; simp at he

/-- … is preserved by filling (only `trs_to_dict` results are ever stored), … -/
theorem C15_fill_cache_ok (keys : List Str) : ∀ (c : List (Str × TrsDict)),
    (∀ e ∈ c, e.2 = trsToDict (some e.1)) →
    ∀ e ∈ keys.foldl (fun c k => if c.any (fun e => e.1 == k) then c else c ++ [(k, trsToDict (some k))]) c,
      e.2 = trsToDict (some e.1) := by
  induction keys with
  | nil => intro c h; simpa using h
  | cons k ks ih =>
    intro c h
    simp only [List.foldl_cons]
    split
    · exact ih c h
    · apply ih
      intro e he
      simp only [List.mem_append, List.mem_singleton] at he
      rcases he with he | rfl
      · exact h e he
      · rfl

theorem C15_fill_ok (w : World.World) (keys : List Str) (h : CacheOK w) : CacheOK (w.fill keys) := by
  unfold World.fill
  split
  · exact h
  · exact C15_fill_cache_ok keys w.cache h

/-- … and under it a cache hit returns exactly what a fresh computation returns -/
theorem C15_look_transparent (w : World.World) (h : CacheOK w) (s : Option Str) : w.look s = trsToDict s := by
  unfold World.look
  split
  · rename_i e he
    have hm := List.mem_of_find?_eq_some he
    have hk := List.find?_some he
    have hkey : e.1 = normIn s := by simpa using hk
    rw [h e hm, hkey, C15_trsToDict_normIn]
  · rfl

theorem C15_look_funext (w : World.World) (h : CacheOK w) : w.look = trsToDict :=
  funext (C15_look_transparent w h)

/-- every operation preserves the cache invariant -/
theorem C15_step_cache_ok (w : World.World) (op : Op) (h : CacheOK w) : CacheOK (step w op).1 := by
  have hput_d : ∀ (w : World.World) id d, CacheOK w → CacheOK (putDesc w id d) := fun w id d h => h
  have hput_t : ∀ (w : World.World) id t, CacheOK w → CacheOK (putTract w id t) := fun w id t h => h
  have hfill : ∀ (w : World.World) n keys, CacheOK w → CacheOK ({ w with nextUid := n }.fill keys) :=
    fun w n keys h => C15_fill_ok _ keys h
  cases op <;> simp only [step]
  case setMC => exact h
  case cacheOn => exact h
  case cacheClear => intro e he; simp at he
  case warm => exact C15_fill_ok _ _ h
  case toDict => exact h
  case toDictObj => exact C15_fill_ok _ _ h
  case newDesc => split; exact h; split; exact h; exact hput_d _ _ _ (hfill _ _ _ h)
  case descParse => split; exact h; split; exact h; split; exact h; exact hput_d _ _ _ (hfill _ _ _ h)
  case descParseTracts => split; exact h; split; exact h; exact h
  case descPreprocess => split; exact h; split; exact h; exact h
  case descConfig => split; exact h; split; exact h; exact h
  case descSort => split; exact h; split <;> exact h
  case newTract => split; exact h; split; exact h; exact hput_t _ _ _ (hfill _ _ _ h)
  case tractParse => split; exact h; split; exact h; split <;> exact h
  case tractPreprocess => split; exact h; exact h
  case tractConfig => split; exact h; split; exact h; exact h
  case findTwprge => split <;> exact h
  case fromTwprgesec => split; exact h; exact C15_fill_ok _ _ h

/-- hence the invariant holds after any history -/
theorem C15_run_cache_ok (ops : List Op) : ∀ (w : World.World), CacheOK w → CacheOK (run w ops).1 := by
  induction ops with
  | nil => intro w h; exact h
  | cons op rest ih =>
    intro w h
    simp only [run]
    exact ih _ (C15_step_cache_ok w op h)

end PyTRS

namespace PyTRS
open PyTRS.World PyTRS.TRS

/-- two worlds that differ at most in the TRS cache (its content and whether it is enabled) -/
def SameButCache (w w' : World.World) : Prop :=
  w.mc = w'.mc ∧ w.nextUid = w'.nextUid ∧ w.descs = w'.descs ∧ w.tracts = w'.tracts

@[simp] theorem fill_mc (w : World.World) (k : List Str) : (w.fill k).mc = w.mc := by unfold World.fill; split <;> rfl
@[simp] theorem fill_nextUid (w : World.World) (k : List Str) : (w.fill k).nextUid = w.nextUid := by unfold World.fill; split <;> rfl
@[simp] theorem fill_descs (w : World.World) (k : List Str) : (w.fill k).descs = w.descs := by unfold World.fill; split <;> rfl
@[simp] theorem fill_tracts (w : World.World) (k : List Str) : (w.fill k).tracts = w.tracts := by unfold World.fill; split <;> rfl
@[simp] theorem putDesc_mc (w : World.World) (i : Nat) (d : Obj.DescObj) : (putDesc w i d).mc = w.mc := rfl
@[simp] theorem putDesc_nextUid (w : World.World) (i : Nat) (d : Obj.DescObj) : (putDesc w i d).nextUid = w.nextUid := rfl
@[simp] theorem putDesc_tracts (w : World.World) (i : Nat) (d : Obj.DescObj) : (putDesc w i d).tracts = w.tracts := rfl
@[simp] theorem putDesc_descs (w : World.World) (i : Nat) (d : Obj.DescObj) :
    (putDesc w i d).descs = (w.descs.filter (fun e => e.1 != i)) ++ [(i, d)] := rfl
@[simp] theorem putTract_mc (w : World.World) (i : Nat) (t : Obj.TractObj) : (putTract w i t).mc = w.mc := rfl
@[simp] theorem putTract_nextUid (w : World.World) (i : Nat) (t : Obj.TractObj) : (putTract w i t).nextUid = w.nextUid := rfl
@[simp] theorem putTract_descs (w : World.World) (i : Nat) (t : Obj.TractObj) : (putTract w i t).descs = w.descs := rfl
@[simp] theorem putTract_tracts (w : World.World) (i : Nat) (t : Obj.TractObj) :
    (putTract w i t).tracts = (w.tracts.filter (fun e => e.1 != i)) ++ [(i, t)] := rfl

/-- One operation: its output, and the world it leaves behind (cache aside), do not depend on what the cache holds
    or whether it is enabled — cold, warm, disabled or cleared, as long as the cache invariant holds (and it always
    does, `C15_run_cache_ok`). -/
theorem C15_step_cache_independent (w w' : World.World) (op : Op)
    (hs : SameButCache w w') (hc : CacheOK w) (hc' : CacheOK w') :
    (step w op).2 = (step w' op).2 ∧ SameButCache (step w op).1 (step w' op).1 := by
  have hl : w.look = w'.look := by rw [C15_look_funext w hc, C15_look_funext w' hc']
  obtain ⟨h1, h2, h3, h4⟩ := hs
  have hgd : ∀ id, getDesc w id = getDesc w' id := fun id => by simp [getDesc, h3]
  have hgt : ∀ id, getTract w id = getTract w' id := fun id => by simp [getTract, h4]
  have hs : SameButCache w w' := ⟨h1, h2, h3, h4⟩
  cases op with
  | setMC ns ew => exact ⟨rfl, rfl, h2, h3, h4⟩
  | cacheOn b => exact ⟨rfl, h1, h2, h3, h4⟩
  | cacheClear => exact ⟨rfl, h1, h2, h3, h4⟩
  | warm trs =>
    simp only [step]
    exact ⟨by rw [hl], by simp [SameButCache, h1, h2, h3, h4]⟩
  | toDict trs => exact ⟨rfl, hs⟩
  | toDictObj trs =>
    simp only [step]
    exact ⟨by rw [hl], by simp [SameButCache, h1, h2, h3, h4]⟩
  | newDesc id text layout cfg pq src wait =>
    simp only [step]
    rw [h1, h2, hl]
    split
    · exact ⟨rfl, hs⟩
    · split
      · exact ⟨rfl, hs⟩
      · exact ⟨rfl, by simp [SameButCache, h1, h2, h3, h4]⟩
  | descParse id kw commit =>
    simp only [step]
    rw [hgd id, h1, h2, hl]
    split
    · exact ⟨rfl, hs⟩
    · split
      · exact ⟨rfl, hs⟩
      · split
        · exact ⟨rfl, hs⟩
        · exact ⟨rfl, by simp [SameButCache, h1, h2, h3, h4]⟩
  | descParseTracts id cfg kw =>
    simp only [step]
    rw [hgd id]
    split
    · exact ⟨rfl, hs⟩
    · split
      · exact ⟨rfl, hs⟩
      · exact ⟨rfl, by simp [SameButCache, h1, h2, h3, h4]⟩
  | descPreprocess id commit =>
    simp only [step]
    rw [hgd id, h1]
    split
    · exact ⟨rfl, hs⟩
    · split
      · exact ⟨rfl, hs⟩
      · exact ⟨rfl, by simp [SameButCache, h1, h2, h3, h4]⟩
  | descConfig id cfg =>
    simp only [step]
    rw [hgd id]
    split
    · exact ⟨rfl, hs⟩
    · split
      · exact ⟨rfl, hs⟩
      · exact ⟨rfl, by simp [SameButCache, h1, h2, h3, h4]⟩
  | descSort id key reverse =>
    simp only [step]
    rw [hgd id]
    split
    · exact ⟨rfl, hs⟩
    · split <;> exact ⟨rfl, by simp [SameButCache, h1, h2, h3, h4]⟩
  | newTract id text trs cfg pq =>
    simp only [step]
    rw [h2, hl]
    split
    · exact ⟨rfl, hs⟩
    · split
      · exact ⟨rfl, hs⟩
      · exact ⟨rfl, by simp [SameButCache, h1, h2, h3, h4]⟩
  | tractParse id kw commit =>
    simp only [step]
    rw [hgt id]
    split
    · exact ⟨rfl, hs⟩
    · split
      · exact ⟨rfl, hs⟩
      · split
        · exact ⟨rfl, hs⟩
        · exact ⟨rfl, by simp [SameButCache, h1, h2, h3, h4]⟩
  | tractPreprocess id c commit =>
    simp only [step]
    rw [hgt id]
    split
    · exact ⟨rfl, hs⟩
    · exact ⟨rfl, by simp [SameButCache, h1, h2, h3, h4]⟩
  | tractConfig id cfg =>
    simp only [step]
    rw [hgt id]
    split
    · exact ⟨rfl, hs⟩
    · split
      · exact ⟨rfl, hs⟩
      · exact ⟨rfl, by simp [SameButCache, h1, h2, h3, h4]⟩
  | findTwprge text ns ew pre ocr =>
    simp only [step]
    rw [h1]
    split <;> exact ⟨rfl, hs⟩
  | fromTwprgesec twp rge sec ns ew =>
    simp only [step]
    rw [h1, hl]
    split
    · exact ⟨rfl, hs⟩
    · exact ⟨rfl, by simp [SameButCache, h1, h2, h3, h4]⟩

/-- Whole histories: the sequence of outputs is the same whatever the cache held initially and however the
    history switches it on, off or clears it relative to another run — in particular it equals the outputs of the
    same history run with the cache disabled and empty. -/
theorem C15_run_cache_independent (ops : List Op) : ∀ (w w' : World.World),
    SameButCache w w' → CacheOK w → CacheOK w' → (run w ops).2 = (run w' ops).2 := by
  induction ops with
  | nil => intro w w' _ _ _; rfl
  | cons op rest ih =>
    intro w w' hs hc hc'
    simp only [run]
    obtain ⟨ho, hs'⟩ := C15_step_cache_independent w w' op hs hc hc'
    rw [ho, ih _ _ hs' (C15_step_cache_ok w op hc) (C15_step_cache_ok w' op hc')]

end PyTRS
