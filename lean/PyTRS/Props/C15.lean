/-
C15 — results depend only on text and settings, not on what ran before.
The TRS cache is part of the model's `World`; the theorems show it is semantically transparent.
-/
import PyTRS.Model.World
namespace PyTRS
open PyTRS.World PyTRS.TRS

theorem C15_normIn_idem (s : Option Str) : normIn (some (normIn s)) = normIn s := by
  unfold normIn
  cases s with
  | none => rfl
  | some l => cases l <;> rfl

theorem C15_trsToDict_normIn (s : Option Str) : trsToDict (some (normIn s)) = trsToDict s := by
  unfold trsToDict
  rw [C15_normIn_idem]

/-- the cache invariant holds initially, … -/
theorem C15_cache_ok_init : CacheOK {} := by
  intro e he; simp at he

/-- … is preserved by filling (only `trs_to_dict` results are ever stored), … -/
theorem C15_fill_cache_ok (keys : List Str) : ∀ (c : List (Str × TrsDict)),
    (∀ e ∈ c, e.2 = trsToDict (some e.1)) →
    ∀ e ∈ keys.foldl (fun c k => if c.any (fun e => e.1 == k) then c else c ++ [(k, trsToDict (some k))]) c,
      e.2 = trsToDict (some e.1) := by
  induction keys with
  | nil => intro c h; simpa using h
  | cons k ks ih =>
    intro c h
    simp only [List.foldl_cons]
    split
    · exact ih c h
    · apply ih
      intro e he
      simp only [List.mem_append, List.mem_singleton] at he
      rcases he with he | rfl
      · exact h e he
      · rfl

theorem C15_fill_ok (w : World.World) (keys : List Str) (h : CacheOK w) : CacheOK (w.fill keys) := by
  unfold World.fill
  split
  · exact h
  · exact C15_fill_cache_ok keys w.cache h

/-- … and under it a cache hit returns exactly what a fresh computation returns -/
theorem C15_look_transparent (w : World.World) (h : CacheOK w) (s : Option Str) : w.look s = trsToDict s := by
  unfold World.look
  split
  · rename_i e he
    have hm := List.mem_of_find?_eq_some he
    have hk := List.find?_some he
    have hkey : e.1 = normIn s := by simpa using hk
    rw [h e hm, hkey, C15_trsToDict_normIn]
  · rfl

theorem C15_look_funext (w : World.World) (h : CacheOK w) : w.look = trsToDict :=
  funext (C15_look_transparent w h)

/-- every operation preserves the cache invariant -/
theorem C15_step_cache_ok (w : World.World) (op : Op) (h : CacheOK w) : CacheOK (step w op).1 := by
  have hput_d : ∀ (w : World.World) id d, CacheOK w → CacheOK (putDesc w id d) := fun w id d h => h
  have hput_t : ∀ (w : World.World) id t, CacheOK w → CacheOK (putTract w id t) := fun w id t h => h
  have hfill : ∀ (w : World.World) n keys, CacheOK w → CacheOK ({ w with nextUid := n }.fill keys) :=
    fun w n keys h => C15_fill_ok _ keys h
  cases op <;> simp only [step]
  case setMC => exact h
  case cacheOn => exact h
  case cacheClear => intro e he; simp at he
  case warm => exact C15_fill_ok _ _ h
  case toDict => exact h
  case toDictObj => exact C15_fill_ok _ _ h
  case newDesc => split; exact h; split; exact h; exact hput_d _ _ _ (hfill _ _ _ h)
  case descParse => split; exact h; split; exact h; split; exact h; exact hput_d _ _ _ (hfill _ _ _ h)
  case descParseTracts => split; exact h; split; exact h; exact h
  case descPreprocess => split; exact h; split; exact h; exact h
  case descConfig => split; exact h; split; exact h; exact h
  case descSort => split; exact h; split <;> exact h
  case newTract => split; exact h; split; exact h; exact hput_t _ _ _ (hfill _ _ _ h)
  case tractParse => split; exact h; split; exact h; split <;> exact h
  case tractPreprocess => split; exact h; exact h
  case tractConfig => split; exact h; split; exact h; exact h
  case findTwprge => split <;> exact h

/-- hence the invariant holds after any history -/
theorem C15_run_cache_ok (ops : List Op) : ∀ (w : World.World), CacheOK w → CacheOK (run w ops).1 := by
  induction ops with
  | nil => intro w h; exact h
  | cons op rest ih =>
    intro w h
    simp only [run]
    exact ih _ (C15_step_cache_ok w op h)

end PyTRS
