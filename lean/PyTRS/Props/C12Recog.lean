/-
C12 (continued) — strictness and decomposition, through the declarative recogniser of PyTRS/Lemmas/TrsRecog.lean.

`recognise l = some c ↔ l = c.text ∧ c.Good` (C12_standard_form): the standard form is exactly Twp (1–3 digits +
n/s, or the error / undefined placeholder), Rge (1–3 digits + e/w, or placeholder), and an optional two-character
section (two digits, "xx" or "__"), and nothing else.  The regenerated `trs_unpacker_regex`, run under the
sre-faithful semantics, accepts exactly these strings (C12_fullmatch_iff_standard_form); everything else gives the
error TRS (C12_strict); for a recognised string every attribute is the decomposition of its components (C12_decompose),
with a component that is individually the error or undefined placeholder reported as such and the others kept.
-/
import PyTRS.Lemmas.TrsRecog
namespace PyTRS
open PyTRS.TRS

/-- the grammar of the standard form, declaratively: the components are unique and spell the text -/
theorem C12_standard_form (l : List Char) (c : TrsParts) : recognise l = some c ↔ l = c.text ∧ c.Good :=
  recognise_iff l c

/-- the regenerated pattern accepts exactly the standard form -/
theorem C12_fullmatch_iff_standard_form (l : List Char) :
    (unpacker.rx.fullmatch l).isSome = (recognise l).isSome := fullmatch_iff_recognise l

/-- strict: any string that is not exactly in the standard form yields the error TRS -/
theorem C12_strict (x : Option Str) (h : recognise (pyLower (normIn x)) = none) : trsToDict x = errDict :=
  trsToDict_reject x h

/-- decomposition: for a string in the standard form the attributes are exactly its components -/
theorem C12_decompose (x : Option Str) (c : TrsParts) (h : recognise (pyLower (normIn x)) = some c) :
    trsToDict x = dictOf c := trsToDict_eq_dictOf x c h

/-- a component that is individually the error or undefined placeholder is reported as such, and the numeric
    components next to it are kept: the three groups of `dictOf` do not look at each other -/
theorem C12_components_independent (c : TrsParts) :
    (dictOf c).twpNum = c.twpNum.bind (fun x => pyInt? x.1) ∧
    (dictOf c).rgeNum = c.rgeNum.bind (fun x => pyInt? x.1) ∧
    (dictOf c).secNum = c.sec.bind pyInt? ∧
    (dictOf c).twpUndef = (c.twpNum.isNone && c.twp == undefTR) ∧
    (dictOf c).rgeUndef = (c.rgeNum.isNone && c.rge == undefTR) ∧
    (dictOf c).secUndef = (c.sec == some ['_', '_']) := ⟨rfl, rfl, rfl, rfl, rfl, rfl⟩

/-- non-vacuity: a real string is recognised, another is not -/
example : (recognise (S "154n97w14")).isSome = true ∧ (recognise (S "154n97w1")).isSome = false
    ∧ (recognise (S "xxxz97w__")).isSome = true := by decide +kernel
example : (trsToDict (some (S "T154N-R97W"))) = errDict := by decide +kernel

end PyTRS
