/-
C04 — no description text is silently dropped.
-/
import PyTRS.Lemmas.Slices
import PyTRS.Lemmas.Chunk
namespace PyTRS
open PyTRS.Plss

theorem C04_insertSorted_sorted (x : Nat × Marker) (l : List (Nat × Marker))
    (h : List.Pairwise (fun a b => a.1 ≤ b.1) l) : List.Pairwise (fun a b => a.1 ≤ b.1) (insertSorted x l) := by
  induction l with
  | nil => simp [insertSorted]
  | cons y t ih =>
    rw [insertSorted]
    split
    · rename_i hxy
      refine List.pairwise_cons.mpr ⟨?_, h⟩
      intro z hz
      rcases List.mem_cons.mp hz with rfl | hz
      · exact hxy
      · exact Nat.le_trans hxy (List.rel_of_pairwise_cons h hz)
    · rename_i hxy
      have hyx : y.1 ≤ x.1 := by omega
      have ht := (List.pairwise_cons.mp h)
      refine List.pairwise_cons.mpr ⟨?_, ih ht.2⟩
      intro z hz
      have : z = x ∨ z ∈ t := by
        clear ih
        induction t with
        | nil => simp [insertSorted] at hz; exact Or.inl hz
        | cons w u ihu =>
          rw [insertSorted] at hz
          split at hz
          · rcases List.mem_cons.mp hz with rfl | hz
            · exact Or.inl rfl
            · exact Or.inr hz
          · rcases List.mem_cons.mp hz with rfl | hz
            · exact Or.inr List.mem_cons_self
            · have hp : List.Pairwise (fun a b => a.1 ≤ b.1) (y :: u) := by
                refine List.pairwise_cons.mpr ⟨fun q hq => ht.1 q (List.mem_cons_of_mem _ hq), ?_⟩
                exact (List.pairwise_cons.mp ht.2).2
              rcases ihu hp (List.pairwise_cons.mp hp) hz with h1 | h1
              · exact Or.inl h1
              · exact Or.inr (List.mem_cons_of_mem _ h1)
      rcases this with rfl | hz
      · exact hyx
      · exact ht.1 z hz

/-- the marker list the chunk parser walks is sorted by position -/
theorem C04_markers_sorted (d : List (Nat × Marker)) :
    List.Pairwise (fun a b => a.1 ≤ b.1) (sortMarkers d) := by
  unfold sortMarkers
  induction d with
  | nil => simp
  | cons x t ih => exact C04_insertSorted_sorted x _ ih

/-- the blocks between consecutive (sorted) marker positions, concatenated in order, are exactly the text between
    the first and the last marker: no character between two markers belongs to no block -/
theorem C04_blocks_cover (t : Str) (a : Nat) (ps : List Nat) (h : List.Pairwise (· ≤ ·) (a :: ps)) :
    ((List.zip (a :: ps) ps).map (fun p => slice t p.1 p.2)).flatten = slice t a ((a :: ps).getLast (by simp)) :=
  blocks_cover t a ps h

/-- with markers at 0 and at the end (TEXT_START / TEXT_END) the blocks are the whole text -/
theorem C04_blocks_are_whole_text (t : Str) (ps : List Nat) (h : List.Pairwise (· ≤ ·) (0 :: ps))
    (hlast : (0 :: ps).getLast (by simp) = t.length) :
    ((List.zip (0 :: ps) ps).map (fun p => slice t p.1 p.2)).flatten = t := by
  rw [blocks_cover t 0 ps h, hlast, slice_full]

/-- staging a tract or an unused component never removes an earlier one -/
theorem C04_stage_monotone (c : Chunk) (d : Str) (s : Option (List Str)) (tr : Option Str) :
    c.comps <+: (stage c d s tr).comps := by
  simp

end PyTRS
