/-
Non-vacuity: concrete descriptions on which the hypotheses of the main theorems hold, checked by kernel evaluation of the
model (regenerated patterns included).  These are examples (tests of satisfiability), not property theorems.
-/
import PyTRS.Lemmas.Walk
import PyTRS.Lemmas.Modes
import PyTRS.Lemmas.CfgText
import PyTRS.Lemmas.TractsOf
import PyTRS.Props.C03Total
namespace PyTRS.Examples
open PyTRS PyTRS.Obj PyTRS.Plss

def txt : Str := S "T154N-R97W Sec 14: NE/4, Sec 15: W/2"

/-- the whole pipeline, evaluated by the kernel on a real description: two tracts, in order, descriptions verbatim -/
example : (match plssParser {} 0 txt {} with
    | .ok out => (out.tracts.map (fun t => (t.trs.trs, t.desc)), out.layout, out.fl.e.length)
    | .error _ => ([], [], 1)) = ([(S "154n97w14", S "NE/4"), (S "154n97w15", S "W/2")], TRS_DESC, 0) := by decide +kernel

/-- C01_walk_trs_desc is not vacuous: on this text the finders produce exactly the marker arrangement `trsDescMarkers` of one
    Twp/Rge group with two section references -/
example : (match twprgeFinder {} txt TRS_DESC, secFinder txt TRS_DESC .no with
    | .ok t, .ok s => populateMarkers txt.length s.1 t.1
    | _, _ => []) = trsDescMarkers [⟨0, 10, S "154n97w", [⟨11, 18, [S "14"]⟩, ⟨25, 32, [S "15"]⟩]⟩] 36 := by decide +kernel

/-- C20: every section of this text is followed by a colon (AllColons), none in the other (NoColons) -/
example : AllColons txt := by unfold AllColons; decide +kernel
example : NoColons (S "T154N-R97W Sec 14 NE/4") := by unfold NoColons; decide +kernel

/-- C13: a well-formed configuration -/
example : CfgWF [("parse_qq", .b true), ("qq_depth", .i 2), ("default_ns", .s (S "s")), ("layout", .s (S "TRS_desc"))] := by
  unfold CfgWF; decide

/-- C09: the text has no underscore, so C09_no_undefined_tracts applies to it -/
example : NoUS txt := by unfold NoUS; decide

end PyTRS.Examples
