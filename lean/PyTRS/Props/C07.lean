/-
C07 — aliquot spelling does not matter and preprocessing is a fixed point.
-/
import PyTRS.Model.Tract
namespace PyTRS
open PyTRS.Tract

/-- whatever a substitute-until-stable loop returns is a fixed point of its substitution step -/
theorem C07_untilStable_fixed (f : Str → Str) (n : Nat) (t r : Str)
    (h : untilStable f n t = some r) : f r = r := by
  induction n generalizing t with
  | zero => simp [untilStable] at h
  | succ k ih =>
    rw [untilStable] at h
    by_cases hc : (f t == t) = true
    · simp only [hc, if_true] at h
      cases h
      simpa using hc
    · simp only [hc] at h
      exact ih _ h

/-- … and running the loop again on its own output returns it unchanged (given any fuel) -/
theorem C07_untilStable_idem (f : Str → Str) (n m : Nat) (t r : Str)
    (h : untilStable f n t = some r) : untilStable f (m+1) r = some r := by
  have hf := C07_untilStable_fixed f n t r h
  rw [untilStable]
  simp [hf]

/-- each scrubber's output is stable under that scrubber: `sub_scrubber(sub_scrubber(x, rgx), rgx)` changes nothing -/
theorem C07_subScrubber_stable (name : String) (t r : Str) (h : subScrubber name t = some r) :
    subScrubber name r = some r := by
  unfold subScrubber at h ⊢
  exact C07_untilStable_idem _ _ _ _ _ h

theorem C07_interveners_stable (t r : Str) (h : removeAliquotInterveners t = some r) :
    removeAliquotInterveners r = some r := by
  unfold removeAliquotInterveners at h ⊢
  have hf := C07_untilStable_fixed _ _ _ _ h
  unfold stableBudget
  rw [untilStable]
  simp [hf]

end PyTRS
