/-
C18 (continued) — a container built or extended from any iterable either contains every element supplied, in order
(strings and tracts converted to TRS objects for a TRSList), or raises TypeError and is left as it was.
-/
import PyTRS.Model.Containers
namespace PyTRS
open PyTRS.Cont

/-- the only exception construction can raise is TypeError -/
theorem C18_verifyIndividual_error (b : Bool) (x : Item) (e : PyErr) (h : verifyIndividual b x = .error e) :
    e = .typeError := by
  cases x <;> cases b <;> simp [verifyIndividual] at h <;> exact h.symm

/-- all-or-nothing: success keeps every element, in order, each converted on its own; failure is a TypeError caused
    by some supplied element -/
theorem C18_construct_all_or_typeerror (b : Bool) (items : List Item) :
    (∃ es, construct b items = .ok es ∧ es.length = items.length ∧
        ∀ i (h1 : i < items.length) (h2 : i < es.length), verifyIndividual b items[i] = .ok es[i])
    ∨ (construct b items = .error .typeError ∧ ∃ x ∈ items, verifyIndividual b x = .error .typeError) := by
  unfold construct
  induction items with
  | nil => left; exact ⟨[], rfl, rfl, fun i h => absurd h (by simp)⟩
  | cons x rest ih =>
    rw [verifyIterable]
    cases hx : verifyIndividual b x with
    | error e =>
      right
      have he := C18_verifyIndividual_error b x e hx
      subst he
      exact ⟨rfl, x, by simp, hx⟩
    | ok e =>
      simp only []
      rcases ih with ⟨es, hes, hlen, hall⟩ | ⟨herr, y, hy, hyx⟩
      · left
        rw [hes]
        refine ⟨e :: es, rfl, by simp [hlen], ?_⟩
        intro i h1 h2
        cases i with
        | zero => simpa using hx
        | succ j =>
          simp only [List.getElem_cons_succ]
          exact hall j (by simpa using h1) (by simpa using h2)
      · right
        rw [herr]
        exact ⟨rfl, y, by simp [hy], hyx⟩

/-- a TractList keeps the Tract objects themselves -/
theorem C18_tractlist_keeps_tracts (ts : List Obj.TractObj) :
    construct false (ts.map Item.tract) = .ok (ts.map Elem.tract) := by
  unfold construct
  induction ts with
  | nil => rfl
  | cons t rest ih => simp only [List.map_cons, verifyIterable, verifyIndividual, ih]; rfl

/-- a TractList accepts nothing but Tract objects -/
theorem C18_tractlist_rejects (x : Item) (h : ∀ t, x ≠ .tract t) : verifyIndividual false x = .error .typeError := by
  cases x with
  | tract t => exact absurd rfl (h t)
  | trs d => rfl
  | str s => rfl
  | other => rfl

/-- extend / += are all-or-nothing: on TypeError the list is not changed (no result is produced), on success the new
    elements follow the old ones -/
theorem C18_extend_appends (b : Bool) (self : List Elem) (items : List Item) (r : List Elem)
    (h : extend b self items = .ok r) : ∃ es, construct b items = .ok es ∧ r = self ++ es := by
  unfold extend at h
  unfold construct
  cases hv : verifyIterable b items with
  | error e => rw [hv] at h; cases h
  | ok es => rw [hv] at h; cases h; exact ⟨es, rfl, rfl⟩

theorem C18_append_one (b : Bool) (self : List Elem) (x : Item) (r : List Elem) (h : Cont.append b self x = .ok r) :
    ∃ e, verifyIndividual b x = .ok e ∧ r = self ++ [e] := by
  unfold Cont.append at h
  cases hv : verifyIndividual b x with
  | error e => rw [hv] at h; cases h
  | ok e => rw [hv] at h; cases h; exact ⟨e, rfl, rfl⟩

end PyTRS
