/-
C09 — every tract is well-formed and traceable to its source.
-/
import PyTRS.Lemmas.Objects
namespace PyTRS
open PyTRS.Obj PyTRS.Plss

/-- provenance: the i-th tract built by `construct_tracts` records the complete original text, the parent's source
    tag, its zero-based creation position and the trs string it was given (for every engine outcome: the specs are
    arbitrary) -/
theorem C09_provenance (uid0 : Nat) (hd : Str) (pq : Bool) (src : OptStr) (text : Str)
    (look : Option Str → TRS.TrsDict) :
    ∀ (specs : List (Str × Str × Bool)) (idx : Nat) (ts : List TractObj),
      buildTracts uid0 hd pq src text look idx specs = .ok ts →
      ts.length = specs.length ∧
      ∀ i (h : i < ts.length) (h' : i < specs.length),
        (ts[i]).origIndex = ((idx + i : Nat) : Int) ∧ (ts[i]).origDesc = some text ∧ (ts[i]).source = src
          ∧ (ts[i]).uid = uid0 + idx + i ∧ (ts[i]).desc = (specs[i]).1
          ∧ (ts[i]).trs = look (some (specs[i]).2.1) := by
  intro specs
  induction specs with
  | nil =>
    intro idx ts h
    simp [buildTracts] at h
    subst h
    exact ⟨rfl, fun i h => absurd h (by simp)⟩
  | cons sp rest ih =>
    intro idx ts h
    obtain ⟨desc, trs, sw⟩ := sp
    rw [buildTracts] at h
    split at h
    · cases h
    · rename_i t ht
      split at h
      · cases h
      · rename_i ts' hts
        cases h
        have hp := tractInit_prov _ _ _ _ _ _ _ _ _ _ ht
        obtain ⟨hlen, hrest⟩ := ih (idx + 1) ts' hts
        refine ⟨by simp [hlen], ?_⟩
        intro i h1 h2
        cases i with
        | zero =>
          simp only [prov, Prod.mk.injEq] at hp
          obtain ⟨h_uid, h_trs, h_desc, h_od, h_oi, h_src⟩ := hp
          simp [h_uid, h_trs, h_desc, h_od, h_oi, h_src]
        | succ j =>
          have := hrest j (by simpa using h1) (by simpa using h2)
          simp only [List.getElem_cons_succ]
          obtain ⟨a, b, c, d, e, f⟩ := this
          refine ⟨?_, b, c, ?_, e, f⟩
          · rw [a]; congr 1; omega
          · rw [d]; omega

/-- the Twp/Rge/Sec attributes of every tract are exactly the decomposition of its `trs` string
    (they are read from the same `trs_to_dict` record) -/
theorem C09_attributes_decompose (uid : Nat) (desc : Str) (trs : Option Str) (cfg : CfgArg) (pq : Option Bool)
    (src od : OptStr) (oi : Int) (t : TractObj) (h : tractInit uid desc trs cfg pq src od oi = .ok t) :
    t.trs = TRS.trsToDict trs ∧ t.trs.trs = t.trs.twp ++ t.trs.rge ++ (t.trs.sec.getD (S "None")) := by
  have hp := tractInit_prov _ _ _ _ _ _ _ _ _ _ h
  simp only [prov, Prod.mk.injEq] at hp
  refine ⟨hp.2.1, ?_⟩
  rw [hp.2.1]
  unfold TRS.trsToDict
  simp only []
  cases TRS.unpacker.rx.fullmatch (pyLower (TRS.normIn trs)) with
  | none => show TRS.errDict.trs = TRS.errDict.twp ++ TRS.errDict.rge ++ TRS.errDict.sec.getD (S "None"); decide
  | some mo => rfl

/-- one tract per (component, section) pair, in order -/
theorem C09_specs_length (cleanUp : Bool) (comps : List Component) (specs : List (Str × Str × Bool))
    (h : tractSpecs cleanUp comps = .ok specs) :
    specs.length = (comps.map (fun c => (c.sec.getD []).length)).sum := by
  induction comps generalizing specs with
  | nil => simp [tractSpecs] at h; subst h; rfl
  | cons c rest ih =>
    rw [tractSpecs] at h
    split at h
    · cases h
    · rename_i secs hs
      split at h
      · cases h
      · rename_i more hm
        cases h
        simp [ih _ hm, hs]

end PyTRS
