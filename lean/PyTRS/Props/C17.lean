/-
C17 — sorting is a stable multi-key permutation with errors last.
Python's `list.sort(key, reverse)` is modelled by Lean's stable merge sort (`pySort`).
-/
import PyTRS.Model.Containers
namespace PyTRS
open PyTRS.Cont

theorem C17_le_trans (f : Elem → Int) : ∀ a b c : Elem,
    decide (f a ≤ f b) = true → decide (f b ≤ f c) = true → decide (f a ≤ f c) = true := by
  intro a b c h1 h2; simp only [decide_eq_true_eq] at *; omega

theorem C17_le_total (f : Elem → Int) : ∀ a b : Elem, (decide (f a ≤ f b) || decide (f b ≤ f a)) = true := by
  intro a b; simp only [Bool.or_eq_true, decide_eq_true_eq]; omega

theorem C17_ge_trans (f : Elem → Int) : ∀ a b c : Elem,
    decide (f b ≤ f a) = true → decide (f c ≤ f b) = true → decide (f c ≤ f a) = true := by
  intro a b c h1 h2; simp only [decide_eq_true_eq] at *; omega

theorem C17_ge_total (f : Elem → Int) : ∀ a b : Elem, (decide (f b ≤ f a) || decide (f a ≤ f b)) = true := by
  intro a b; simp only [Bool.or_eq_true, decide_eq_true_eq]; omega

/-- one sort pass neither loses nor duplicates elements -/
theorem C17_pySort_perm (l : List Elem) (f : Elem → Int) (rev : Bool) : (pySort l f rev).Perm l := by
  unfold pySort; split <;> exact List.mergeSort_perm _ _

/-- one sort pass orders the list by its key (ascending, or descending when reversed) -/
theorem C17_pySort_sorted (l : List Elem) (f : Elem → Int) :
    (pySort l f false).Pairwise (fun a b => f a ≤ f b) ∧ (pySort l f true).Pairwise (fun a b => f b ≤ f a) := by
  unfold pySort
  constructor
  · have := List.pairwise_mergeSort (le := fun a b => decide (f a ≤ f b)) (C17_le_trans f) (C17_le_total f) l
    simpa using this
  · have := List.pairwise_mergeSort (le := fun a b => decide (f b ≤ f a)) (C17_ge_trans f) (C17_ge_total f) l
    simpa using this

/-- stability: two elements with equal keys keep their relative order, also under `reverse=True`.  This is what
    makes successive passes a lexicographic multi-key sort. -/
theorem C17_pySort_stable (l : List Elem) (f : Elem → Int) (rev : Bool) (a b : Elem)
    (hk : f a = f b) (h : List.Sublist [a, b] l) : List.Sublist [a, b] (pySort l f rev) := by
  unfold pySort
  split
  · exact List.pair_sublist_mergeSort (C17_ge_trans f) (C17_ge_total f) (by simp [hk]) h
  · exact List.pair_sublist_mergeSort (C17_le_trans f) (C17_le_total f) (by simp [hk]) h

theorem C17_go_perm (df : Defaults) : ∀ (keys : List Str) (l : List Elem),
    (sortCustom.go df l keys).1.Perm l := by
  intro keys
  induction keys with
  | nil => intro l; simp [sortCustom.go]
  | cons k ks ih =>
    intro l
    rw [sortCustom.go]
    split
    · exact List.Perm.refl _
    · exact (ih _).trans (C17_pySort_perm _ _ _)

/-- `custom_sort` with any key string (legal or not) and any `reverse` flag returns a permutation of the list:
    no element is lost or duplicated, even when an illegal key aborts the sort half-way -/
theorem C17_custom_sort_perm (l : List Elem) (key : Str) (reverse : Bool) :
    (customSort l key reverse).1.Perm l := by
  unfold customSort
  split
  · exact List.Perm.refl _
  · unfold sortCustom
    simp only []
    have h := C17_go_perm (defaultsOf l) (normKeys key) l
    split
    · rename_i l' e heq; rw [heq] at h; exact h
    · rename_i l' heq
      rw [heq] at h
      split
      · exact (List.reverse_perm _).trans h
      · exact h

/-- a key part that names no known variable is rejected with ValueError -/
theorem C17_unknown_key_rejected (k : Str) (h : sortPat.rx.search (pyLower k) = none) :
    parseKey k = .error .valueError := by
  unfold parseKey; simp [h]

end PyTRS
