/-
C03 — parsing is total: any text, any valid configuration, never an exception.
Every function of the model is a total Lean function (structural / well-founded recursion, or explicit fuel whose
exhaustion is reported as `diverged`, never as success); the theorems below are the pieces of "never raises".
-/
import PyTRS.Model.Objects
import PyTRS.Lemmas.Chunk
namespace PyTRS
open PyTRS.Obj PyTRS.Config

/-- a config argument that is neither None, str nor Config is rejected with ConfigError, and with nothing else -/
theorem C03_bad_config_type : resolveCfgArg .other = .error .configError := rfl

/-- an item whose attribute part is not a documented setting raises ValueError -/
theorem C03_unknown_setting_rejected (c : Cfg) (line : Str) (db : Option Bool)
    (h : isCfgAttr (splitAttrVal line).1 = false) :
    setStrToValues c line db = .error .valueError := by
  unfold setStrToValues
  simp only [h, Bool.not_false, if_true]

/-- the aliquot of a lot division is applied to at most as many lots as were unpacked: `new_lots[idx]` never
    leaves the list (no IndexError), for every text -/
theorem C03_aliquots_through_le (t : Str) :
    (Unpack.unpackLots t).aliquotsThrough ≤ (Unpack.unpackLots t).lotList.length := by
  unfold Unpack.unpackLots
  simp only [List.length_map, List.length_reverse]
  omega

theorem C03_applyLeading_total (lead : Str) (lots : List Str) (n : Int) (h : n ≤ lots.length) :
    ∃ r, Tract.applyLeading lead lots n = .ok r := by
  unfold Tract.applyLeading
  simp only []
  split
  · omega
  · exact ⟨_, rfl⟩

/-- `_parse_copyall`, the fallback that guarantees at least one tract, cannot fail when every staged section list
    is non-empty -/
theorem C03_copyall_total (c : Plss.Chunk) (txt : Str) (hne : ∀ s ∈ c.secList, s ≠ []) :
    ∃ c', Plss.parseCopyAll c txt = .ok c' ∧ c'.comps.length = c.comps.length + 1 := by
  unfold Plss.parseCopyAll
  simp only [Plss.getNextSec_workingSec]
  cases hs : c.secList with
  | nil => exact ⟨_, rfl, by simp⟩
  | cons s rest =>
    cases s with
    | nil => exact absurd rfl (hne [] (by simp [hs]))
    | cons a b => exact ⟨_, rfl, by simp⟩

end PyTRS
