/-
Model of the objects: Tract (tract.py), PLSSParser (plss_parse.py), PLSSDesc (plssdesc.py).
Settings are kept as an attribute map so that the generic `for attrib in _XXX_ATTRIBUTES` loops
of the config setters are mirrored over the regenerated attribute tuples.
-/
import PyTRS.Model.Plss
import PyTRS.Model.Config
namespace PyTRS.Obj
open PyTRS PyTRS.Config PyTRS.Plss

abbrev Attrs := Cfg

def getB (a : Attrs) (n : String) : Bool := match a.get n with | some v => cvTruthy v | none => false
def getOptB (a : Attrs) (n : String) : Option Bool := (a.get n).map cvTruthy
def getOptI (a : Attrs) (n : String) : Option Int := match a.get n with | some (.i v) => some v | some (.b v) => some (if v then 1 else 0) | _ => none
def getOptS (a : Attrs) (n : String) : Option Str := match a.get n with | some (.s v) => some v | _ => none

/-- an optional python str that may also be None -/
abbrev OptStr := Option Str

structure TractObj where
  uid : Nat
  trsKey : Str := []             -- the string the `trs` setter was given (cache key)
  trs : TRS.TrsDict
  desc : Str
  origDesc : OptStr
  origIndex : Int
  source : OptStr
  parseComplete : Bool := false
  fl : Tract.Flags := {}
  generated : Tract.Flags := {}      -- `_parse_generated_flags`: what the last committed parse added
  lots : List Str := []
  qqs : List Str := []
  lotAcres : List (Str × Str) := []
  aliquotsWhole : List Str := []
  attrs : Attrs
  config : Cfg := []
  ppDesc : Str
  diverged : Bool := false
  deriving Inhabited

def tractDefaults : Attrs :=
  [("qq_depth_min", .i 2), ("break_halves", .b false), ("parse_qq", .b false), ("clean_qq", .b false),
   ("suppress_lot_divs", .b false), ("ocr_scrub", .b false)]

/-- the `config.setter` shared by Tract and PLSSDesc -/
def applyConfig (attrs : Attrs) (names : List String) (c : Cfg) : Attrs :=
  names.foldl (fun a n => match c.get n with | some v => a.set n v | none => a) attrs

/-- config argument: None | str | an already built Config (given by its attribute map) | something else -/
inductive CfgArg where
  | none | text (t : Str) | obj (c : Cfg) | other
  deriving Inhabited, Repr

def resolveCfgArg : CfgArg → Except PyErr Cfg
  | .none => Config.ofText []
  | .text t => Config.ofText t
  | .obj c => .ok c
  | .other => .error .configError

structure TractKw where
  cleanQQ : Option Bool := none
  suppressLotDivs : Option Bool := none
  qqDepthMin : Option Int := none
  qqDepthMax : Option Int := none
  qqDepth : Option Int := none
  breakHalves : Option Bool := none
  deriving Inhabited, Repr

/-- parameter lock-down at the top of `Tract.parse` -/
def effectiveTract (attrs : Attrs) (kw : TractKw) : Tract.ParseArgs :=
  let cleanQQ := kw.cleanQQ.getD (getB attrs "clean_qq")
  let sup := kw.suppressLotDivs.getD (getB attrs "suppress_lot_divs")
  let bh := kw.breakHalves.getD (getB attrs "break_halves")
  let useMinMax := kw.qqDepthMin.isSome || kw.qqDepthMax.isSome
  let mn : Int := kw.qqDepthMin.getD ((getOptI attrs "qq_depth_min").getD 2)
  let mx : Option Int := match kw.qqDepthMax with | some m => some m | none => getOptI attrs "qq_depth_max"
  let (mn, mx) : Int × Option Int := match kw.qqDepth with
    | some d => (d, some d)
    | none => match getOptI attrs "qq_depth" with
      | some d => if !useMinMax then (d, some d) else (mn, mx)
      | none => (mn, mx)
  { cleanQQ := cleanQQ, suppressLotDivs := sup,
    depth := { qqMin := mn, qqMax := mx, qqDepth := kw.qqDepth, breakHalves := bh } }

/-- `list.remove(x)` for each x of `gone`, when present -/
def removeEach (l gone : List PyVal) : List PyVal :=
  gone.foldl (fun acc x => if acc.contains x then acc.erase x else acc) l

/-- the flags a TractParser copies from its parent: everything except what the previous parse generated -/
def inheritedFlags (t : TractObj) : Tract.Flags :=
  { w := removeEach t.fl.w t.generated.w, wl := removeEach t.fl.wl t.generated.wl,
    e := removeEach t.fl.e t.generated.e, el := removeEach t.fl.el t.generated.el }

/-- `Tract.parse(commit, **kw)`; returns (object, returned lots+qqs) -/
def tractParseMethod (t : TractObj) (commit : Bool) (kw : TractKw) : Except PyErr (TractObj × List Str) :=
  let inh := inheritedFlags t
  match Tract.tractParse t.desc (effectiveTract t.attrs kw) inh with
  | .error e => .error e
  | .ok r =>
    if commit then
      .ok ({ t with parseComplete := true, lots := r.lots, qqs := r.qqs, lotAcres := r.lotAcres,
                    aliquotsWhole := r.aliquotsWhole, fl := r.flags, ppDesc := r.text,
                    generated := { w := r.flags.w.drop inh.w.length, wl := r.flags.wl.drop inh.wl.length,
                                   e := r.flags.e.drop inh.e.length, el := r.flags.el.drop inh.el.length },
                    diverged := t.diverged || r.diverged }, r.lots ++ r.qqs)
    else .ok ({ t with diverged := t.diverged || r.diverged }, r.lots ++ r.qqs)

def tractPreprocess (t : TractObj) (cleanQQ : Option Bool) (commit : Bool) : TractObj × Str :=
  let c := cleanQQ.getD (getB t.attrs "clean_qq")
  match Tract.scrubAliquots t.desc c with
  | some p => (if commit then { t with ppDesc := p } else t, p)
  | none => ({ t with diverged := true }, t.desc)

/-- the tail of `Tract.__init__`: parse now if `parse_qq`, else only preprocess -/
def tractInitCore (t : TractObj) : Except PyErr TractObj :=
  if getB t.attrs "parse_qq" then
    match tractParseMethod t true {} with
    | .error e => .error e
    | .ok r => .ok r.1
  else .ok (tractPreprocess t none true).1

def tractInitAttrs (c : Cfg) (parseQQ : Option Bool) : Attrs :=
  let attrs := applyConfig tractDefaults Gen.TRACT_ATTRIBUTES c
  match parseQQ with | some b => attrs.set "parse_qq" (.b b) | none => attrs

/-- `Tract(desc, trs, config, parse_qq, source, orig_desc, orig_index)` for str/None `trs` -/
def tractInit (uid : Nat) (desc : Str) (trs : Option Str) (config : CfgArg) (parseQQ : Option Bool)
    (source : OptStr) (origDesc : OptStr) (origIndex : Int)
    (look : Option Str → TRS.TrsDict := TRS.trsToDict) : Except PyErr TractObj :=
  match resolveCfgArg config with
  | .error e => .error e
  | .ok c =>
    tractInitCore { uid := uid, trsKey := TRS.normIn trs, trs := look trs, desc := desc, origDesc := origDesc, origIndex := origIndex,
                    source := source, attrs := tractInitAttrs c parseQQ, config := c, ppDesc := desc }

/-! ### PLSSParser -/

structure ParserArgs where
  layout : Option Str := none
  defaultNS : Option Str := none
  defaultEW : Option Str := none
  ocrScrub : Bool := false
  cleanUp : Option Bool := none
  parseQQ : Bool := false
  cleanQQ : Bool := false
  requireColon : ReqColon := .no
  segment : Bool := false
  qqDepthMin : Option Int := some 2
  qqDepthMax : Option Int := none
  qqDepth : Option Int := none
  breakHalves : Bool := false
  secWithin : Bool := false
  handedDownConfig : Str := []
  source : OptStr := none
  deriving Inhabited, Repr

structure ParserOut where
  tracts : List TractObj
  fl : Tract.Flags
  layout : Str
  text : Str            -- preprocessed text
  nextUid : Nat
  diverged : Bool := false
  handedDown : Str := []
  deriving Inhabited

def quickDescShort (t : TractObj) (maxLen : Nat := 30) : Str :=
  let qd := t.trs.trs ++ S ": " ++ t.desc
  if qd.length > maxLen then qd.take (maxLen - 3) ++ S "..." else qd

def optI (o : Option Int) : Option CV := o.map CV.i

/-- what `construct_tracts` feeds to `Tract(...)`, one entry per tract: (desc, trs, sec_within) -/
def tractSpecs (cleanUp : Bool) : List Component → Except PyErr (List (Str × Str × Bool))
  | [] => .ok []
  | comp :: rest =>
    let desc := if cleanUp then cleanupDesc comp.desc else comp.desc
    -- `for sec in tract_data['sec']` raises TypeError on None; a None twprge is formatted as 'None'
    match comp.sec with
    | none => .error PyErr.typeError
    | some secs =>
      match tractSpecs cleanUp rest with
      | .error e => .error e
      | .ok more => .ok (secs.map (fun sec => (desc, optStrPy comp.twprge ++ sec, comp.secWithin)) ++ more)

/-- build the Tract objects, numbering them in creation order from `idx` -/
def buildTracts (uid0 : Nat) (handedDown : Str) (parseQQ : Bool) (source : OptStr) (text : Str)
    (look : Option Str → TRS.TrsDict) :
    Nat → List (Str × Str × Bool) → Except PyErr (List TractObj)
  | _, [] => .ok []
  | idx, (desc, trs, _) :: rest =>
    match tractInit (uid0 + idx) desc (some trs) (.text handedDown) (some parseQQ) source (some text) idx look with
    | .error e => .error e
    | .ok t =>
      match buildTracts uid0 handedDown parseQQ source text look (idx + 1) rest with
      | .error e => .error e
      | .ok ts => .ok (t :: ts)

def secWithinIndexes (specs : List (Str × Str × Bool)) : List Nat :=
  (List.range specs.length).filter (fun i => match specs[i]? with | some s => s.2.2 | none => false)

/-- the config text handed down to every tract -/
def handedDownText (a : ParserArgs) : Except PyErr Str :=
  let hd0 : Str := if a.parseQQ then a.handedDownConfig ++ S ",parse_qq" else a.handedDownConfig
  match Config.ofText hd0 with
  | .error e => .error e
  | .ok c0 =>
    .ok (Config.toText (((((c0.set "clean_qq" (.b a.cleanQQ)).setOpt "qq_depth_min" (optI a.qqDepthMin)).setOpt
          "qq_depth_max" (optI a.qqDepthMax)).setOpt "qq_depth" (optI a.qqDepth)).set "break_halves" (.b a.breakHalves)))

/-- the `fixed_twprge<…>` warning of the preprocessor -/
def fixedFlags (fixed : List Str) : Tract.Flags :=
  if fixed.isEmpty then {} else
  let flag := S "fixed_twprge<" ++ pyJoin (S ",") (fixed.map Unpack.twprgeNaturalToShort) ++ S ">"
  { w := [.str flag], wl := [.tup [.str flag, .str flag]] }

/-- `for chunk in blocks: ChunkParser(chunk, …, parent=self)` -/
def parseBlocks (mc : MC) (pc : ParserCfg) (copyAll : Bool) (layout : Str) :
    List Str → ParentSt → Except PyErr ParentSt
  | [], parent => .ok parent
  | chunk :: rest, parent =>
    match chunkParser mc pc chunk copyAll layout parent with
    | .error e => .error e
    | .ok p => parseBlocks mc pc copyAll layout rest p

def addEFlag (fl : Tract.Flags) (flag ctx : Str) : Tract.Flags :=
  { fl with e := fl.e ++ [.str flag], el := fl.el ++ [.tup [.str flag, .str ctx]] }
def addWFlag (fl : Tract.Flags) (flag ctx : Str) : Tract.Flags :=
  { fl with w := fl.w ++ [.str flag], wl := fl.wl ++ [.tup [.str flag, .str ctx]] }

/-- `examine_unused` -/
def examineUnused (fl : Tract.Flags) (unused : List (Nat × Str)) : Tract.Flags :=
  unused.foldl (fun fl u =>
    if u.2.length ≥ Gen.MIN_REPORTABLE_UNUSED_LEN then addEFlag fl (S "unused_desc<" ++ u.2 ++ S ">") u.2 else fl) fl

/-- `check_sec_within_tracts` -/
def secWithinFlags (tracts : List TractObj) : Tract.Flags → List Nat → Except PyErr Tract.Flags
  | fl, [] => .ok fl
  | fl, i :: rest =>
    match tracts[i]? with
    | some t => secWithinFlags tracts (addWFlag fl (S "sec_within<" ++ t.trs.trs ++ S ">") (quickDescShort t)) rest
    | none => .error .indexError

/-- `check_error_tracts` -/
def errorTractFlag (fl : Tract.Flags) (tracts : List TractObj) : Tract.Flags :=
  if tracts.any (fun t => TRS.isError t.trs) then addEFlag fl (S "twprge_error") (S "twprge_error") else fl

/-- `hand_down_flags`: the description's flags are prepended to each tract's own -/
def handDownFlags (dfl : Tract.Flags) (tracts : List TractObj) : List TractObj :=
  tracts.map (fun t => { t with fl := { w := dfl.w ++ t.fl.w, wl := dfl.wl ++ t.fl.wl, e := dfl.e ++ t.fl.e, el := dfl.el ++ t.fl.el } })

/-- chunk the text (when segmenting), parse each chunk, and (sec_within) merge the leftovers -/
def parseAllBlocks (mc : MC) (ptext : Str) (layout : Str) (a : ParserArgs) (fl : Tract.Flags) : Except PyErr ParentSt :=
  let pc : ParserCfg := { mandateLayout := !a.segment && a.layout.isSome, requireColon := a.requireColon, secWithin := a.secWithin }
  let start : Except PyErr (List Str × ParentSt) :=
    if a.segment then
      match plssChunker mc ptext layout with
      | .error e => .error e
      | .ok (bs, un) => .ok (bs, { fl := fl, unused := un })
    else .ok ([ptext], { fl := fl })
  match start with
  | .error e => .error e
  | .ok (blocks, parent) =>
    match parseBlocks mc pc (layout == COPY_ALL) layout blocks parent with
    | .error e => .error e
    | .ok parent =>
      if a.secWithin then
        let r := rebuildSecWithin parent.comps parent.unused Gen.MIN_REPORTABLE_UNUSED_LEN
        .ok { parent with comps := r.1, unused := r.2 }
      else .ok parent

def plssParser (mc : MC) (uid0 : Nat) (text : Str) (a : ParserArgs)
    (look : Option Str → TRS.TrsDict := TRS.trsToDict) : Except PyErr ParserOut :=
  match handedDownText a with
  | .error e => .error e
  | .ok handedDown =>
    match plssPreprocess mc text a.defaultNS a.defaultEW a.ocrScrub with
    | .error e => .error e
    | .ok pp =>
      let ptext := pp.text
      let layout := match a.layout with | some l => l | none => deduceLayout ptext
      let cleanUp := match a.cleanUp with | some b => b | none => layout != COPY_ALL
      match parseAllBlocks mc ptext layout a (fixedFlags pp.fixed) with
      | .error e => .error e
      | .ok parent =>
        -- construct_tracts
        match tractSpecs cleanUp parent.comps with
        | .error e => .error e
        | .ok specs =>
          match buildTracts uid0 handedDown a.parseQQ a.source text look 0 specs with
          | .error e => .error e
          | .ok tracts =>
            match secWithinFlags tracts (examineUnused parent.fl parent.unused) (secWithinIndexes specs) with
            | .error e => .error e
            | .ok fl1 =>
              let fl := errorTractFlag fl1 tracts
              let tracts := handDownFlags fl tracts
              .ok { tracts := tracts, fl := fl, layout := layout, text := ptext, nextUid := uid0 + specs.length,
                    diverged := pp.diverged || tracts.any (·.diverged), handedDown := handedDown }

/-! ### PLSSDesc -/

structure DescObj where
  origDesc : Str
  source : OptStr
  attrs : Attrs
  config : Cfg
  currentLayout : Option Str := none
  layoutSpecified : Bool := false
  tracts : List TractObj := []
  fl : Tract.Flags := {}
  ppDesc : Str
  diverged : Bool := false
  deriving Inhabited

def descDefaults : Attrs :=
  [("parse_qq", .b false), ("clean_qq", .b false), ("sec_colon_required", .b false), ("suppress_lot_divs", .b false),
   ("ocr_scrub", .b false), ("segment", .b false), ("qq_depth_min", .i 2), ("break_halves", .b false),
   ("sec_within", .b false)]

structure DescKw where
  layout : Option Str := none
  defaultNS : Option Str := none
  defaultEW : Option Str := none
  cleanUp : Option Bool := none
  parseQQ : Option Bool := none
  cleanQQ : Option Bool := none
  secColonCautious : Option Bool := none
  secColonRequired : Option Bool := none
  segment : Option Bool := none
  ocrScrub : Option Bool := none
  secWithin : Option Bool := none
  qqDepthMin : Option Int := none
  qqDepthMax : Option Int := none
  qqDepth : Option Int := none
  breakHalves : Option Bool := none
  deriving Inhabited, Repr

def nonEmpty (o : Option Str) : Option Str := match o with | some [] => none | x => x

/-- parameter lock-down at the top of `PLSSDesc.parse` -/
def effectiveDesc (d : DescObj) (kw : DescKw) : ParserArgs :=
  let a := d.attrs
  let req := kw.secColonRequired.getD (getB a "sec_colon_required")
  let caut := kw.secColonCautious.getD (getB a "sec_colon_cautious")
  let rc : ReqColon := if req then .yes else if caut then .cautious else .no
  let layout := match kw.layout with | some l => some l | none => getOptS a "layout"
  let segment := kw.segment.getD (getB a "segment")
  let segment := if layout == some COPY_ALL then false else segment
  let allNone := kw.qqDepth.isNone && kw.qqDepthMin.isNone && kw.qqDepthMax.isNone
  let qqDepth := if allNone then getOptI a "qq_depth" else kw.qqDepth
  let qqMin := match kw.qqDepthMin with | some m => some m | none => getOptI a "qq_depth_min"
  let qqMax := match kw.qqDepthMax with | some m => some m | none => getOptI a "qq_depth_max"
  { layout := layout,
    defaultNS := match nonEmpty kw.defaultNS with | some x => some x | none => getOptS a "default_ns",
    defaultEW := match nonEmpty kw.defaultEW with | some x => some x | none => getOptS a "default_ew",
    ocrScrub := kw.ocrScrub.getD (getB a "ocr_scrub"),
    cleanUp := kw.cleanUp,
    parseQQ := kw.parseQQ.getD (getB a "parse_qq"),
    cleanQQ := kw.cleanQQ.getD (getB a "clean_qq"),
    requireColon := rc, segment := segment,
    qqDepthMin := qqMin, qqDepthMax := qqMax, qqDepth := qqDepth,
    breakHalves := kw.breakHalves.getD (getB a "break_halves"),
    secWithin := kw.secWithin.getD (getB a "sec_within"),
    -- the stored Config's text; `suppress_lot_divs` (no keyword here, read by the tracts only) is handed down from the
    -- object's attribute, which also holds what an earlier config said before `.config` was assigned again
    handedDownConfig := if getB a "suppress_lot_divs" then Config.toText d.config ++ S ",suppress_lot_divs" else Config.toText d.config,
    source := d.source }

def descParse (mc : MC) (uid0 : Nat) (d : DescObj) (kw : DescKw) (commit : Bool)
    (look : Option Str → TRS.TrsDict := TRS.trsToDict) :
    Except PyErr (DescObj × ParserOut) :=
  match plssParser mc uid0 d.origDesc (effectiveDesc d kw) look with
  | .error e => .error e
  | .ok out =>
    if commit then
      .ok ({ d with tracts := out.tracts, fl := out.fl, currentLayout := some out.layout, ppDesc := out.text,
                    diverged := d.diverged || out.diverged }, out)
    else .ok ({ d with diverged := d.diverged || out.diverged }, out)

def descPreprocess (mc : MC) (d : DescObj) (defNS defEW : Option Str) (ocr : Option Bool) (commit : Bool) :
    Except PyErr (DescObj × Str) :=
  let ns := match defNS with | some x => some x | none => getOptS d.attrs "default_ns"
  let ew := match defEW with | some x => some x | none => getOptS d.attrs "default_ew"
  let o := ocr.getD (getB d.attrs "ocr_scrub")
  match plssPreprocess mc d.origDesc ns ew o with
  | .error e => .error e
  | .ok pp => .ok (if commit then { d with ppDesc := pp.text } else d, pp.text)

/-- the attributes of a new PLSSDesc: defaults, then the config, then the explicit arguments -/
def descInitAttrs (c : Cfg) (layout : Option Str) (parseQQ waitToParse : Option Bool) : Attrs :=
  let attrs := applyConfig descDefaults Gen.PLSSDESC_ATTRIBUTES c
  let attrs := match parseQQ with | some b => attrs.set "parse_qq" (.b b) | none => attrs
  let attrs := match waitToParse with | some b => attrs.set "wait_to_parse" (.b b) | none => attrs
  match layout with | some l => attrs.set "layout" (.s l) | none => attrs

/-- `PLSSDesc(raw, layout, config, parse_qq, source, wait_to_parse)` for a str `raw` -/
def descInit (mc : MC) (uid0 : Nat) (raw : Str) (layout : Option Str) (config : CfgArg) (parseQQ : Option Bool)
    (source : OptStr) (waitToParse : Option Bool) (look : Option Str → TRS.TrsDict := TRS.trsToDict) :
    Except PyErr (DescObj × Nat) :=
  match resolveCfgArg config with
  | .error e => .error e
  | .ok c =>
    let attrs := descInitAttrs c layout parseQQ waitToParse
    let d : DescObj := { origDesc := raw, source := source, attrs := attrs, config := c, ppDesc := raw,
                         layoutSpecified := (getOptS attrs "layout").isSome }
    if !getB attrs "wait_to_parse" then
      match descParse mc uid0 d {} true look with
      | .error e => .error e
      | .ok r => .ok (r.1, r.2.nextUid)
    else
      match descPreprocess mc d none none none true with
      | .error e => .error e
      | .ok r => .ok (r.1, uid0)

end PyTRS.Obj
