/-
Process-wide state and operation histories: MasterConfig, the Tract UID counter, the TRS cache, and a store of
live PLSSDesc / Tract objects.  `step` interprets one public operation.
-/
import PyTRS.Model.Export
namespace PyTRS.World
open PyTRS PyTRS.Obj PyTRS.Plss PyTRS.Config

structure World where
  mc : MC := {}
  nextUid : Nat := 0
  useCache : Bool := true
  cache : List (Str × TRS.TrsDict) := []      -- TRS.__CACHE : key string ↦ dict
  descs : List (Nat × DescObj) := []
  tracts : List (Nat × TractObj) := []
  deriving Inhabited

/-- the `trs` setter: the cache is consulted whether or not caching is on -/
def World.look (w : World) (s : Option Str) : TRS.TrsDict :=
  match w.cache.find? (fun e => e.1 == TRS.normIn s) with
  | some e => e.2
  | none => TRS.trsToDict s

/-- `_cache_trs_to_dict`: entries are added only while `_USE_CACHE` is on -/
def World.fill (w : World) (keys : List Str) : World :=
  if !w.useCache then w else
  { w with cache := keys.foldl (fun c k =>
      if c.any (fun e => e.1 == k) then c else c ++ [(k, TRS.trsToDict (some k))]) w.cache }

/-- the cache invariant: every entry is what `trs_to_dict` computes for its key -/
def CacheOK (w : World) : Prop := ∀ e ∈ w.cache, e.2 = TRS.trsToDict (some e.1)

def putDesc (w : World) (id : Nat) (d : DescObj) : World :=
  { w with descs := (w.descs.filter (fun e => e.1 != id)) ++ [(id, d)] }
def putTract (w : World) (id : Nat) (t : TractObj) : World :=
  { w with tracts := (w.tracts.filter (fun e => e.1 != id)) ++ [(id, t)] }
def getDesc (w : World) (id : Nat) : Option DescObj := (w.descs.find? (fun e => e.1 == id)).map (·.2)
def getTract (w : World) (id : Nat) : Option TractObj := (w.tracts.find? (fun e => e.1 == id)).map (·.2)

inductive Op where
  | setMC (ns ew : Str)
  | cacheOn (b : Bool)
  | cacheClear
  | warm (trs : Str)                               -- TRS(trs)
  | toDict (trs : Option Str)                      -- public trs_to_dict; the caller may mutate the returned dict
  | toDictObj (trs : Str)                          -- trs_to_dict(TRS(trs)): builds a TRS (cache fill), returns a fresh dict
  | newDesc (id : Nat) (text : Str) (layout : Option Str) (cfg : CfgArg) (pq : Option Bool) (src : OptStr) (wait : Option Bool)
  | descParse (id : Nat) (kw : DescKw) (commit : Bool)
  | descParseTracts (id : Nat) (cfg : Option Str) (kw : TractKw)
  | descPreprocess (id : Nat) (commit : Bool)
  | descConfig (id : Nat) (cfg : CfgArg)
  | descSort (id : Nat) (key : Str) (reverse : Bool)
  | newTract (id : Nat) (text : Str) (trs : Option Str) (cfg : CfgArg) (pq : Option Bool)
  | tractParse (id : Nat) (kw : TractKw) (commit : Bool)
  | tractPreprocess (id : Nat) (cleanQQ : Option Bool) (commit : Bool)
  | tractConfig (id : Nat) (cfg : CfgArg)
  | findTwprge (text : Str) (ns ew : Option Str) (pre ocr : Bool)
  | fromTwprgesec (twp rge sec : TRS.Arg) (ns ew : Option Str)       -- TRS.from_twprgesec(twp, rge, sec, default_ns, default_ew)
  deriving Inhabited

inductive Out where
  | none
  | err (e : PyErr)
  | diverged
  | dict (d : TRS.TrsDict)
  | desc (d : DescObj)
  | descAndTracts (d : DescObj) (ts : List TractObj)
  | descAndStr (d : DescObj) (s : Str)
  | tract (t : TractObj)
  | tractAndRet (t : TractObj) (r : List Str)
  | tractAndStr (t : TractObj) (s : Str)
  | strs (l : List Str)
  deriving Inhabited

def tractKeys (ts : List TractObj) : List Str := ts.map (·.trsKey)

/-- `tract.config = cfg` -/
def tractSetConfig (t : TractObj) (cfg : CfgArg) : Except PyErr TractObj :=
  match resolveCfgArg cfg with
  | .error e => .error e
  | .ok c => .ok { t with attrs := applyConfig t.attrs Gen.TRACT_ATTRIBUTES c, config := c }

def descSetConfig (d : DescObj) (cfg : CfgArg) : Except PyErr DescObj :=
  match resolveCfgArg cfg with
  | .error e => .error e
  | .ok c => .ok { d with attrs := applyConfig d.attrs Gen.PLSSDESC_ATTRIBUTES c, config := c }

/-- `TractList.parse_tracts(config, **kw)`: configure every tract first, then parse each (committed) -/
def parseTracts (ts : List TractObj) (cfg : Option Str) (kw : TractKw) : Except PyErr (List TractObj) := do
  let ts ← match cfg with
    | some c => if c.isEmpty then pure ts else ts.mapM (fun t => tractSetConfig t (.text c))
    | none => pure ts
  ts.mapM (fun t => (tractParseMethod t true kw).map (·.1))

def step (w : World) : Op → World × Out
  | .setMC ns ew => ({ w with mc := { ns := ns, ew := ew } }, .none)
  | .cacheOn b => ({ w with useCache := b }, .none)
  | .cacheClear => ({ w with cache := [] }, .none)
  | .warm trs => (w.fill [TRS.normIn (some trs)], .dict (w.look (some trs)))
  | .toDict trs => (w, .dict (TRS.trsToDict trs))
  | .toDictObj trs => (w.fill [TRS.normIn (some trs)], .dict (TRS.trsToDict (some (w.look (some trs)).trs)))
  | .newDesc id text layout cfg pq src wait =>
    match descInit w.mc w.nextUid text layout cfg pq src wait w.look with
    | .error e => (w, .err e)
    | .ok (d, uid) =>
      if d.diverged then (w, .diverged) else
      (putDesc ({ w with nextUid := uid }.fill (tractKeys d.tracts)) id d, .desc d)
  | .descParse id kw commit =>
    match getDesc w id with
    | none => (w, .none)
    | some d =>
      match descParse w.mc w.nextUid d kw commit w.look with
      | .error e => (w, .err e)
      | .ok (d', out) =>
        if out.diverged then (w, .diverged) else
        (putDesc ({ w with nextUid := out.nextUid }.fill (tractKeys out.tracts)) id d', .descAndTracts d' out.tracts)
  | .descParseTracts id cfg kw =>
    match getDesc w id with
    | none => (w, .none)
    | some d =>
      match parseTracts d.tracts cfg kw with
      | .error e => (w, .err e)
      | .ok ts => let d' := { d with tracts := ts }; (putDesc w id d', .desc d')
  | .descPreprocess id commit =>
    match getDesc w id with
    | none => (w, .none)
    | some d =>
      match descPreprocess w.mc d none none none commit with
      | .error e => (w, .err e)
      | .ok (d', s) => (putDesc w id d', .descAndStr d' s)
  | .descConfig id cfg =>
    match getDesc w id with
    | none => (w, .none)
    | some d =>
      match descSetConfig d cfg with
      | .error e => (w, .err e)
      | .ok d' => (putDesc w id d', .desc d')
  | .descSort id key reverse =>
    match getDesc w id with
    | none => (w, .none)
    | some d =>
      let (l, e) := Cont.customSort (d.tracts.map Cont.Elem.tract) key reverse
      let ts := l.filterMap (fun x => match x with | .tract t => some t | _ => none)
      let d' := { d with tracts := ts }
      match e with
      | some err => (putDesc w id d', .err err)
      | none => (putDesc w id d', .desc d')
  | .newTract id text trs cfg pq =>
    match tractInit w.nextUid text trs cfg pq none none 0 w.look with
    | .error e => (w, .err e)      -- NB: the UID counter is bumped before config validation in Python
    | .ok t =>
      if t.diverged then (w, .diverged) else
      (putTract ({ w with nextUid := w.nextUid + 1 }.fill [t.trsKey]) id t, .tract t)
  | .tractParse id kw commit =>
    match getTract w id with
    | none => (w, .none)
    | some t =>
      match tractParseMethod t commit kw with
      | .error e => (w, .err e)
      | .ok (t', r) => if t'.diverged then (w, .diverged) else (putTract w id t', .tractAndRet t' r)
  | .tractPreprocess id c commit =>
    match getTract w id with
    | none => (w, .none)
    | some t => let (t', s) := tractPreprocess t c commit; (putTract w id t', .tractAndStr t' s)
  | .tractConfig id cfg =>
    match getTract w id with
    | none => (w, .none)
    | some t =>
      match tractSetConfig t cfg with
      | .error e => (w, .err e)
      | .ok t' => (putTract w id t', .tract t')
  | .findTwprge text ns ew pre ocr =>
    match Plss.findTwprge w.mc text ns ew pre ocr with
    | .error e => (w, .err e)
    | .ok l => (w, .strs l)
  | .fromTwprgesec twp rge sec ns ew =>
    -- missing defaults come from MasterConfig *at the time of the call*; the result is wrapped in a TRS (cache fill)
    match TRS.constructTrs twp rge sec (ns.getD w.mc.ns) (ew.getD w.mc.ew) false with
    | .error e => (w, .err e)
    | .ok s => (w.fill [TRS.normIn (some s)], .dict (w.look (some s)))

def run (w : World) : List Op → World × List Out
  | [] => (w, [])
  | op :: rest =>
    let (w1, o) := step w op
    let (w2, os) := run w1 rest
    (w2, o :: os)

end PyTRS.World
