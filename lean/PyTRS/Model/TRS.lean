/-
Model of pytrs/parser/trs/trs.py: construct_trs, trs_to_dict, cache, pretty_twprge.
-/
import PyTRS.Model.Unpack
namespace PyTRS.TRS
open PyTRS PyTRS.Unpack


/-- the `dict` returned by `trs_to_dict` -/
structure TrsDict where
  trs : Str
  twp : Str
  twpNum : Option Int
  twpNs : Option Str
  twpUndef : Bool
  rge : Str
  rgeNum : Option Int
  rgeEw : Option Str
  rgeUndef : Bool
  sec : Option Str          -- `None` when the optional `sec` group did not participate
  secNum : Option Int
  secUndef : Bool
  deriving Inhabited, BEq, Repr, DecidableEq

def errDict : TrsDict :=
  { trs := S Gen.ERR_TRS, twp := S Gen.ERR_TWP, twpNum := none, twpNs := none, twpUndef := false,
    rge := S Gen.ERR_RGE, rgeNum := none, rgeEw := none, rgeUndef := false,
    sec := some (S Gen.ERR_SEC), secNum := none, secUndef := false }

def unpacker : Pat := ⟨Gen.trs_unpacker_regex, Gen.trs_unpacker_regex_groups, Gen.trs_unpacker_regex_ngroups⟩

def truthy (s : Option Str) : Bool := match s with | some (_ :: _) => true | _ => false

/-- `dct['trs'] = f"{dct['twp']}{dct['rge']}{dct['sec']}"` -/
def finalize (d : TrsDict) : TrsDict := { d with trs := d.twp ++ d.rge ++ (d.sec.getD (S "None")) }

/-- the component break-down of `trs_to_dict` once the pattern has matched -/
def buildDict (mo : Match) (trs : Str) : TrsDict :=
  let g := fun n => unpacker.group mo trs n
  let d := errDict
  let d := if truthy (g "twp_num") && truthy (g "ns") then
      { d with twp := (g "twp").getD [], twpNum := pyInt? ((g "twp_num").getD []), twpNs := g "ns" }
    else if g "twp" == some (S Gen.UNDEF_TWP) then { d with twp := (g "twp").getD [], twpUndef := true }
    else d
  let d := if truthy (g "rge_num") && truthy (g "ew") then
      { d with rge := (g "rge").getD [], rgeNum := pyInt? ((g "rge_num").getD []), rgeEw := g "ew" }
    else if g "rge" == some (S Gen.UNDEF_RGE) then { d with rge := (g "rge").getD [], rgeUndef := true }
    else d
  -- try: int(sec) / except (ValueError, TypeError) / finally: dct['sec'] = sec
  match g "sec" with
  | none => { d with sec := some (S Gen.ERR_SEC) }       -- TypeError; sec != UNDEF -> ERR_SEC
  | some s =>
    match pyInt? s with
    | some i => { d with secNum := some i, sec := some s }
    | none =>
      if s == S Gen.UNDEF_SEC then { d with secUndef := true, sec := some s }
      else { d with sec := some (S Gen.ERR_SEC) }

def normIn (trsIn : Option Str) : Str :=
  match trsIn with
  | none => S Gen.UNDEF_TRS
  | some [] => S Gen.UNDEF_TRS
  | some s => s

/-- `TRS.trs_to_dict(trs)` for a `str` (or None) argument -/
def trsToDict (trsIn : Option Str) : TrsDict :=
  let trs := pyLower (normIn trsIn)
  match unpacker.rx.fullmatch trs with
  | none => errDict
  | some mo => finalize (buildDict mo trs)

def isUndef (d : TrsDict) (twp rge sec : Bool := true) : Bool :=
  (twp && d.twpUndef) || (rge && d.rgeUndef) || (sec && d.secUndef)

def isError (d : TrsDict) (twp rge sec : Bool := true) : Bool :=
  (twp && d.twpNum.isNone && !d.twpUndef) || (rge && d.rgeNum.isNone && !d.rgeUndef)
    || (sec && d.secNum.isNone && !d.secUndef)

def TrsDict.toPy (d : TrsDict) : PyVal :=
  .dict [(.str (S "trs"), .str d.trs), (.str (S "twp"), .str d.twp),
    (.str (S "twp_num"), match d.twpNum with | some i => .int i | none => .none),
    (.str (S "twp_ns"), .ofOptStr d.twpNs), (.str (S "twp_undef"), .bool d.twpUndef),
    (.str (S "rge"), .str d.rge),
    (.str (S "rge_num"), match d.rgeNum with | some i => .int i | none => .none),
    (.str (S "rge_ew"), .ofOptStr d.rgeEw), (.str (S "rge_undef"), .bool d.rgeUndef),
    (.str (S "sec"), .ofOptStr d.sec),
    (.str (S "sec_num"), match d.secNum with | some i => .int i | none => .none),
    (.str (S "sec_undef"), .bool d.secUndef)]

/-- arguments of `construct_trs`: None | int | str -/
inductive Arg where
  | none | int (i : Int) | str (s : Str)
  deriving Inhabited, BEq, Repr

/-- the inner `scrub` of construct_trs; returns (number part, direction?) -/
def scrub (a : Arg) (kind : Option Bool) (defNS defEW : Str) (ocr : Bool) : Arg × Option Str :=
  -- kind: some true = 'ns', some false = 'ew', none = sec
  match a with
  | .str s =>
    let direction : Option Str := match kind with
      | some true => some defNS | some false => some defEW | none => none
    let opts : List String := if kind == some false then Gen.LEGAL_EW else Gen.LEGAL_NS
    let low := pyLower s
    let (num, dir) :=
      if direction.isSome && opts.any (fun o => pyEndsWith low o.toList) then
        (s.dropLast, some (pyLower (match s.getLast? with | some c => [c] | none => [])))
      else (s, direction)
    let num := if ocr then ocrScrubAlphaToNum num else num
    (.str num, dir)
  | other => (other, none)

/-- one of twp / rge after scrub: the `int()` attempt, suffixing and validation -/
def finishTwpRge (a : Arg) (dir : Str) (undef err : Str) (rx : Rx) : Str :=
  let a := match a with
    | .none => Arg.str undef
    | .str [] => Arg.str undef
    | x => x
  -- try: int(x)
  let a := match a with
    | .str s => (match pyInt? s with | some i => Arg.int i | none => Arg.str s)
    | x => x
  let s : Str := match a with
    | .int i => intToStr i ++ pyLower dir
    | .str s => s
    | .none => undef
  if s != undef && (rx.search s).isNone then err else s

def finishSec (a : Arg) : Str :=
  let s : Str := match a with
    | .none => S Gen.UNDEF_SEC
    | .str [] => S Gen.UNDEF_SEC
    | .str s => pyRJust s 2 '0'
    | .int i => pyRJust (intToStr i) 2 '0'
  if s != S Gen.UNDEF_SEC && (Gen.inl_trs_TRS_construct_trs_2.search s).isNone then S Gen.ERR_SEC else s

/-- `TRS.construct_trs`; `defNS/defEW` already resolved against MasterConfig when None -/
def constructTrs (twp rge sec : Arg) (defNS defEW : Str) (ocr : Bool) : Except PyErr Str := do
  if !isLegal Gen.LEGAL_NS (pyLower defNS) then throw .defaultNS
  if !isLegal Gen.LEGAL_EW (pyLower defEW) then throw .defaultEW
  let (twp, ns) := scrub twp (some true) defNS defEW ocr
  let (rge, ew) := scrub rge (some false) defNS defEW ocr
  let (sec, _) := scrub sec none defNS defEW ocr
  let ns := ns.getD defNS
  let ew := ew.getD defEW
  let t := finishTwpRge twp ns (S Gen.UNDEF_TWP) (S Gen.ERR_TWP) Gen.inl_trs_TRS_construct_trs_0
  let r := finishTwpRge rge ew (S Gen.UNDEF_RGE) (S Gen.ERR_RGE) Gen.inl_trs_TRS_construct_trs_1
  return t ++ r ++ finishSec sec

/-- `TRS.pretty_twprge()` with default arguments -/
def prettyTwprge (d : TrsDict) : Str :=
  let num (n : Option Int) : Str := match n with | some i => intToStr i | none => S "---X"
  S "T" ++ num d.twpNum ++ pyUpper (d.twpNs.getD []) ++ S "-R" ++ num d.rgeNum ++ pyUpper (d.rgeEw.getD [])

end PyTRS.TRS
