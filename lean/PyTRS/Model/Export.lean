/-
Model of attribute access and bulk export: Tract.to_dict/to_list, get_headers, TractList.tracts_to_dict/list,
tracts_to_csv and TractWriter row scrubbing, the csv 'excel' dialect's minimal quoting and a reader for it.
-/
import PyTRS.Model.Containers
namespace PyTRS.Export
open PyTRS PyTRS.Obj PyTRS.Cont

def optInt (o : Option Int) : PyVal := match o with | some i => .int i | none => .none
def dictPy (d : List (Str × Str)) : PyVal := .dict (d.map (fun kv => (.str kv.1, .str kv.2)))

/-- `getattr(tract, name)` for the attributes a Tract object has; `none` = AttributeError (→ the 'n/a' default) -/
def tractAttr (t : TractObj) (name : String) : Option PyVal :=
  let d := t.trs
  match name with
  | "trs" => some (.str d.trs)
  | "twp" => some (.str d.twp)
  | "twp_num" => some (optInt d.twpNum)
  | "twp_ns" => some (.ofOptStr d.twpNs)
  | "ns" => some (.ofOptStr d.twpNs)
  | "rge" => some (.str d.rge)
  | "rge_num" => some (optInt d.rgeNum)
  | "rge_ew" => some (.ofOptStr d.rgeEw)
  | "ew" => some (.ofOptStr d.rgeEw)
  | "twprge" => some (.str (d.twp ++ d.rge))
  | "sec" => some (.ofOptStr d.sec)
  | "sec_num" => some (optInt d.secNum)
  | "twp_undef" => some (.bool d.twpUndef)
  | "rge_undef" => some (.bool d.rgeUndef)
  | "sec_undef" => some (.bool d.secUndef)
  | "qqs" => some (.strs t.qqs)
  | "aliquots_whole" => some (.strs t.aliquotsWhole)
  | "lots" => some (.strs t.lots)
  | "ilots" => (match Tract.ilots t.lots with | .ok l => some (.list (l.map .int)) | .error _ => none)
  | "lots_qqs" => some (.strs (t.lots ++ t.qqs))
  | "desc" => some (.str t.desc)
  | "orig_desc" => some (.ofOptStr t.origDesc)
  | "pp_desc" => some (.str t.ppDesc)
  | "desc_is_flawed" => some (.bool (!t.fl.e.isEmpty))
  | "w_flags" => some (.list t.fl.w)
  | "w_flag_lines" => some (.list t.fl.wl)
  | "e_flags" => some (.list t.fl.e)
  | "e_flag_lines" => some (.list t.fl.el)
  | "flags" => some (.list (t.fl.e ++ t.fl.w))
  | "flag_lines" => some (.list (t.fl.el ++ t.fl.wl))
  | "lot_acres" => some (dictPy t.lotAcres)
  | "source" => some (.ofOptStr t.source)
  | "orig_index" => some (.int t.origIndex)
  | "parse_complete" => some (.bool t.parseComplete)
  | _ => none

def naDefault (name : String) : PyVal := .str (name.toList ++ S ": n/a")

def getAttrNA (t : TractObj) (name : String) : PyVal := (tractAttr t name).getD (naDefault name)

def elemAttr (e : Elem) (name : String) : PyVal :=
  match e with
  | .tract t => getAttrNA t name
  | .trs d =>
    match name with
    | "trs" => .str d.trs | "twp" => .str d.twp | "rge" => .str d.rge | "sec" => .ofOptStr d.sec
    | "twp_num" => optInt d.twpNum | "rge_num" => optInt d.rgeNum | "sec_num" => optInt d.secNum
    | "twp_ns" => .ofOptStr d.twpNs | "rge_ew" => .ofOptStr d.rgeEw | "twprge" => .str (d.twp ++ d.rge)
    | _ => naDefault name

/-- `Tract.to_dict(*attributes)` / `to_list` -/
def toDict (t : TractObj) (atts : List String) : PyVal :=
  -- a dict comprehension: a repeated name keeps its first position
  .dict (atts.eraseDups.map (fun a => (.str a.toList, getAttrNA t a)))
def toList (t : TractObj) (atts : List String) : List PyVal := atts.map (getAttrNA t)

/-- `utils.flatten` on a list/tuple value -/
partial def flattenVals : List PyVal → List PyVal
  | [] => []
  | .list xs :: rest => flattenVals (xs ++ rest)
  | .tup xs :: rest => flattenVals (xs ++ rest)
  | x :: rest => x :: flattenVals rest

/-- `str(x)` for the values that can sit in a flag / lot list -/
partial def pyStr : PyVal → Str
  | .none => S "None"
  | .bool true => S "True"
  | .bool false => S "False"
  | .int i => intToStr i
  | .str s => s
  | .tup xs => S "(" ++ pyJoin (S ", ") (xs.map pyRepr) ++ (if xs.length == 1 then S ",)" else S ")")
  | .list xs => S "[" ++ pyJoin (S ", ") (xs.map pyRepr) ++ S "]"
  | .dict kvs => S "{" ++ pyJoin (S ", ") (kvs.map (fun kv => pyRepr kv.1 ++ S ": " ++ pyRepr kv.2)) ++ S "}"
where
  pyRepr : PyVal → Str
    | .str s => S "'" ++ s ++ S "'"       -- (no quote characters occur in the modelled values)
    | v => pyStr v

/-- cell scrubbing shared by `tracts_to_csv.scrub_row` and `TractWriter._scrub_row` (after the fix they agree) -/
def scrubCell : PyVal → PyVal
  | .dict kvs => .str (pyJoin (S ",") (kvs.map (fun kv => pyStr kv.1 ++ S ":" ++ pyStr kv.2)))
  | .list xs => .str (pyJoin (S ", ") ((flattenVals xs).map pyStr))
  | .tup xs => .str (pyJoin (S ", ") ((flattenVals xs).map pyStr))
  | v => v

/-- what `csv.writer` writes for a scrubbed cell: `str(value)`, None as '' -/
def cellText : PyVal → Str
  | .none => []
  | v => pyStr v

/-- `Tract.get_headers(attributes, nice_headers)` for nice_headers in {False, True} -/
def getHeaders (atts : List String) (nice : Bool) (plus : List Str := []) : List Str :=
  let hdr := if nice then atts.map (fun a =>
      match Gen.TRACT_ATTRIBUTE_HEADERS.find? (fun h => h.1 == a) with
      | some h => h.2.toList
      | none => a.toList)
    else atts.map String.toList
  hdr ++ plus

/-! ### csv 'excel' dialect, QUOTE_MINIMAL -/

def needsQuote (s : Str) : Bool := s.any (fun c => c == ',' || c == '"' || c == '\n' || c == '\r')

def quoteField (s : Str) : Str :=
  if needsQuote s then ['"'] ++ s.flatMap (fun c => if c == '"' then ['"', '"'] else [c]) ++ ['"'] else s

/-- one row as written by `csv.writer(...).writerow` (lineterminator '\r\n').  A row consisting of one empty
    field is written as `""`. -/
def writeRow (fields : List Str) : Str :=
  (match fields with
   | [[]] => S "\"\""
   | _ => pyJoin (S ",") (fields.map quoteField)) ++ S "\r\n"

/-- reader automaton for the same dialect: records of fields -/
inductive RS where
  | startField | inField | inQuoted | quoteInQuoted | afterCR
  deriving BEq

def readCsv (text : Str) : List (List Str) :=
  let rec go : Str → RS → Str → List Str → List (List Str) → List (List Str)
    | [], st, cur, row, acc =>
      if st == .startField && row.isEmpty then acc else
      if st == .afterCR then acc else acc ++ [row ++ [cur.reverse]]
    | c :: t, st, cur, row, acc =>
      match st with
      | .afterCR =>
        -- (a lone CR ended the record; this character starts a new field)
        if c == '\n' then go t .startField [] [] acc
        else if c == '"' then go t .inQuoted [] [] acc
        else if c == ',' then go t .startField [] [[]] acc
        else if c == '\r' then go t .afterCR [] [] (acc ++ [[[]]])
        else go t .inField [c] [] acc
      | .startField =>
        if c == '"' then go t .inQuoted cur row acc
        else if c == ',' then go t .startField [] (row ++ [cur.reverse]) acc
        else if c == '\r' then go t .afterCR [] [] (acc ++ [row ++ [cur.reverse]])
        else if c == '\n' then go t .startField [] [] (acc ++ [row ++ [cur.reverse]])
        else go t .inField (c :: cur) row acc
      | .inField =>
        if c == ',' then go t .startField [] (row ++ [cur.reverse]) acc
        else if c == '\r' then go t .afterCR [] [] (acc ++ [row ++ [cur.reverse]])
        else if c == '\n' then go t .startField [] [] (acc ++ [row ++ [cur.reverse]])
        else go t .inField (c :: cur) row acc
      | .inQuoted =>
        if c == '"' then go t .quoteInQuoted cur row acc
        else go t .inQuoted (c :: cur) row acc
      | .quoteInQuoted =>
        if c == '"' then go t .inQuoted ('"' :: cur) row acc
        else if c == ',' then go t .startField [] (row ++ [cur.reverse]) acc
        else if c == '\r' then go t .afterCR [] [] (acc ++ [row ++ [cur.reverse]])
        else if c == '\n' then go t .startField [] [] (acc ++ [row ++ [cur.reverse]])
        else go t .inField (c :: cur) row acc
  go text .startField [] [] []

/-- the rows `tracts_to_csv(attributes, fp, mode, nice_headers)` writes, as text; `exists` = file exists -/
def tractsToCsvRows (ts : List TractObj) (atts : List String) (nice : Bool) (fileExists : Bool) (mode : String) :
    List (List Str) :=
  let headers := !(fileExists && mode == "a")
  (if headers then [getHeaders atts nice] else []) ++ ts.map (fun t => (toList t atts).map (fun v => cellText (scrubCell v)))

/-! ### pretty_desc -/

/-- consecutive tracts with the same Twp/Rge, in order (`pretty_desc` groups only as far as the order allows) -/
def groupConsecutive : List TractObj → List (Str × List TractObj)
  | [] => []
  | t :: rest =>
    match groupConsecutive rest with
    | (k, g) :: more => if k == t.trs.twp ++ t.trs.rge then (k, t :: g) :: more else (t.trs.twp ++ t.trs.rge, [t]) :: (k, g) :: more
    | [] => [(t.trs.twp ++ t.trs.rge, [t])]

/-- one tract's lines: `Sec <sec>: <desc>` with line breaks inside the description justified -/
def prettyTract (wordSec jst : Str) (t : TractObj) : Str :=
  S "\n" ++ wordSec ++ t.trs.sec.getD (S "None") ++ S ": " ++ pyReplace t.desc (S "\n") (S "\n" ++ jst)

/-- `TractList.pretty_desc(word_sec, justify_linebreaks)`; `none` for an empty list -/
def prettyDesc (ts : List TractObj) (wordSec : Str := S "Sec ") (justify : Option Str := none) : Option Str :=
  if ts.isEmpty then none else
  let jst := justify.getD (List.replicate (wordSec.length + 4) ' ')
  some (pyStrip ((groupConsecutive ts).flatMap (fun kg =>
    S "\n" ++ TRS.prettyTwprge (TRS.trsToDict (some kg.1)) ++ kg.2.flatMap (prettyTract wordSec jst))))

/-- `Tract.quick_desc(delim)` -/
def quickDesc (t : TractObj) (delim : Str := S ": ") : Str := t.trs.trs ++ delim ++ t.desc

end PyTRS.Export
