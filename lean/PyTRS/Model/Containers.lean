/-
Model of pytrs/parser/containers/containers.py: _TRSTractList (sort, filter, group, construction), TractList, TRSList.
-/
import PyTRS.Model.Objects
namespace PyTRS.Cont
open PyTRS PyTRS.Obj

inductive Elem where
  | tract (t : TractObj)
  | trs (d : TRS.TrsDict)
  deriving Inhabited

def Elem.d : Elem → TRS.TrsDict
  | .tract t => t.trs
  | .trs d => d

def Elem.isTract : Elem → Bool
  | .tract _ => true
  | .trs _ => false

/-- `i_sort_evaluate`: the creation counter for a Tract, 0 otherwise -/
def Elem.uidKey : Elem → Int
  | .tract t => t.uid
  | .trs _ => 0

/-! ### custom sort -/

def getMax (l : List Elem) (f : TRS.TrsDict → Option Int) : Int :=
  match (l.filterMap (fun e => f e.d)) with
  | [] => 0
  | x :: xs => xs.foldl max x

structure Defaults where
  twp : Int
  rge : Int
  sec : Int

def defaultsOf (l : List Elem) : Defaults :=
  { twp := getMax l (·.twpNum) + 1, rge := getMax l (·.rgeNum) + 1, sec := getMax l (·.secNum) + 1 }

def nToS (df : Defaults) (e : Elem) (reverse : Bool) : Int :=
  let num := e.d.twpNum.getD df.twp
  let m : Int := if e.d.twpNs == some (S "s") then 1 else if e.d.twpNs == some (S "n") then -1 else 1
  let m := if reverse then -m else m
  let m := if e.d.twpNs.isNone then (if reverse then -m else m) else m
  m * num

def wToE (df : Defaults) (e : Elem) (reverse : Bool) : Int :=
  let num := e.d.rgeNum.getD df.rge
  let m : Int := if e.d.rgeEw == some (S "e") then 1 else if e.d.rgeEw == some (S "w") then -1 else 1
  let m := if reverse then -m else m
  let m := if e.d.rgeEw.isNone then (if reverse then -m else m) else m
  m * num

/-- the key functions of `sort_defs` -/
def sortKey (df : Defaults) (varMethod : String) (e : Elem) : Int :=
  match varMethod with
  | "i.num" => e.uidKey
  | "t.num" => e.d.twpNum.getD df.twp
  | "t.ns" => nToS df e false
  | "t.sn" => nToS df e true
  | "r.num" => e.d.rgeNum.getD df.rge
  | "r.we" => wToE df e false
  | "r.ew" => wToE df e true
  | "s.num" => e.d.secNum.getD df.sec
  | _ => 0

/-- Python's `list.sort(key=f, reverse=rev)`: stable; with reverse, descending with ties in original order -/
def pySort (l : List Elem) (f : Elem → Int) (rev : Bool) : List Elem :=
  if rev then l.mergeSort (fun a b => decide (f b ≤ f a)) else l.mergeSort (fun a b => decide (f a ≤ f b))

def sortPat : Unpack.Pat :=
  ⟨Gen.inl_containers__TRSTractList__sort_custom_0, Gen.inl_containers__TRSTractList__sort_custom_0_groups,
   Gen.inl_containers__TRSTractList__sort_custom_0_ngroups⟩

def legalMethods (v : Str) : List String :=
  if v == S "i" then ["num"] else if v == S "t" then ["ns", "sn", "num"] else if v == S "r" then ["ew", "we", "num"]
  else if v == S "s" then ["num"] else []

/-- `parse_key(k_)`: (var.method, rev) or ValueError -/
def parseKey (k : Str) : Except PyErr (String × Bool) :=
  let k := pyLower k
  match sortPat.rx.search k with
  | none => .error .valueError
  | some mo =>
    let var := (sortPat.group mo k "var").getD []
    let method := match sortPat.group mo k "method" with | some m => String.ofList m | none => "num"
    let rev := (sortPat.group mo k "rev").isSome
    if !(legalMethods var).contains method then .error .valueError
    else .ok (String.ofList var ++ "." ++ method, rev)

def normKeys (key : Str) : List Str :=
  let k := pyLower key
  let k := Gen.inl_containers__TRSTractList__sort_custom_1.sub [] k
  let k := Gen.inl_containers__TRSTractList__sort_custom_2.sub (S "rev") k
  pySplitChar ',' k

/-- `_sort_custom(key, reverse)`: returns the list as mutated so far together with the error, if any
    (Python sorts in place, so keys before an illegal one have already taken effect) -/
def sortCustom (l : List Elem) (key : Str) (reverse : Bool) : List Elem × Option PyErr :=
  let df := defaultsOf l
  let rec go (l : List Elem) : List Str → List Elem × Option PyErr
    | [] => (l, none)
    | k :: ks =>
      match parseKey k with
      | .error e => (l, some e)
      | .ok (vm, rev) => go (pySort l (sortKey df vm) rev) ks
  match go l (normKeys key) with
  | (l', some e) => (l', some e)
  | (l', none) => (if reverse then l'.reverse else l', none)

/-- `custom_sort(key, reverse)` for a str key (empty key: no-op) -/
def customSort (l : List Elem) (key : Str) (reverse : Bool) : List Elem × Option PyErr :=
  if key.isEmpty then (l, none) else sortCustom l key reverse

/-! ### filters -/

/-- `_new_list_from_self(indexes, drop)`: (new list, what remains in self) -/
def newListFromSelf {α} (l : List α) (indexes : List Nat) (drop : Bool) : List α × List α :=
  -- walk the indexes in reverse: append self[ind] to the new list, pop it if drop; finally reverse the new list
  let rec go : List Nat → List α → List α → List α × List α
    | [], cur, acc => (acc.reverse, cur)
    | i :: rest, cur, acc =>
      match cur[i]? with
      | some x => go rest (if drop then cur.eraseIdx i else cur) (acc ++ [x])
      | none => go rest cur acc          -- IndexError in Python; indexes always come from enumerate(self)
  go indexes.reverse l []

def indexesWhere {α} (l : List α) (p : α → Bool) : List Nat :=
  (List.range l.length).filter (fun i => match l[i]? with | some x => p x | none => false)

def filterBy {α} (l : List α) (p : α → Bool) (drop : Bool) : List α × List α :=
  newListFromSelf l (indexesWhere l p) drop

/-- `filter_errors`: note that the element's trs is re-read through `TRS(element.trs)` -/
def isErrElem (twp rge sec undef : Bool) (e : Elem) : Bool :=
  let d := TRS.trsToDict (some e.d.trs)
  (undef && TRS.isUndef d twp rge sec) || TRS.isError d twp rge sec

def filterErrors (l : List Elem) (twp rge sec undef drop : Bool) : List Elem × List Elem :=
  filterBy l (isErrElem twp rge sec undef) drop

/-- identity of an element for `element in unique`: Tract objects compare by identity (uid), TRS by `.trs` -/
inductive UKey where
  | obj (uid : Nat)
  | trsObj (trs : Str)
  | str (s : Str)
  deriving BEq, Inhabited

def Elem.ukey : Elem → UKey
  | .tract t => .obj t.uid
  | .trs d => .trsObj d.trs

def reprSortedSet (l : List Str) : Str :=
  -- str(sorted(set(lots_qqs))): python list repr of the sorted distinct strings
  let distinct := l.foldl (fun acc x => if acc.contains x then acc else acc ++ [x]) []
  let sorted := distinct.mergeSort (fun a b => decide (a.map Char.toNat ≤ b.map Char.toNat))
  Plss.reprStrList sorted

/-- `filter_duplicates(method, drop)`; `isTRSList` selects the default method -/
def filterDuplicates (l : List Elem) (method : String) (isTRSList : Bool) (drop : Bool) :
    Except PyErr (List Elem × List Elem) :=
  let method := if method == "default" then (if isTRSList then "trs" else "instance") else method
  if !["instance", "lots_qqs", "desc", "trs"].contains method then .error .valueError else
  let step (st : List UKey × List Nat) (ie : Nat × Elem) : List UKey × List Nat :=
    let (unique, idx) := st
    let (i, e) := ie
    let idx := if unique.contains e.ukey then idx ++ [i] else idx
    let unique := if unique.contains e.ukey then unique else unique ++ [e.ukey]
    if method == "instance" then (unique, idx) else
    let toCheck : Option UKey :=
      if method == "lots_qqs" then
        (match e with
         | .tract t => if t.parseComplete then some (.str (t.trs.trs ++ S "_" ++ reprSortedSet (t.lots ++ t.qqs))) else none
         | .trs _ => none)
      else if method == "desc" then
        (match e with
         | .tract t => some (.str (t.trs.trs ++ S "_" ++ pyStrip t.ppDesc))
         | .trs d => some (.str d.trs))
      else some (.str e.d.trs)
    match toCheck with
    | none => (unique, idx)
    | some k =>
      if !unique.contains k then (unique ++ [k], idx)
      else if !idx.contains i then (unique, idx ++ [i])
      else (unique, idx)
  let (_, idx) := (l.zipIdx.map (fun p => (p.2, p.1))).foldl step ([], [])
  .ok (newListFromSelf l idx drop)

/-! ### grouping -/

/-- insertion-ordered dict with `setdefault(k, []).append(x)` -/
def groupInsert {κ α} [BEq κ] : List (κ × List α) → κ → α → List (κ × List α)
  | [], k, x => [(k, [x])]
  | (k', xs) :: t, k, x => if k' == k then (k', xs ++ [x]) :: t else (k', xs) :: groupInsert t k x

def groupBy1 {κ α} [BEq κ] (l : List α) (key : α → κ) : List (κ × List α) :=
  l.foldl (fun d x => groupInsert d (key x) x) []

/-- `group_by([a1, a2, …])`: keys are tuples of the attribute values, first-occurrence order of the nested loops -/
def groupByMulti {α} (l : List α) (keys : List (α → PyVal)) : List (List PyVal × List α) :=
  match keys with
  | [] => [([], l)]
  | k :: ks =>
    let first := groupBy1 l k
    ks.foldl (fun d kk =>
      d.flatMap (fun (kv : List PyVal × List α) =>
        (groupBy1 kv.2 kk).map (fun g => (kv.1 ++ [g.1], g.2))))
      (first.map (fun g => ([g.1], g.2)))

/-- `unpack_group` of a flat group dict -/
def unpackGroup {κ α} (d : List (κ × List α)) : List α := d.flatMap (·.2)

/-! ### construction (`_verify_iterable`, `_verify_individual`, `_handle_type_specially`, extend / append / insert) -/

/-- what a caller can put into an iterable handed to a container -/
inductive Item where
  | tract (t : TractObj)
  | trs (d : TRS.TrsDict)
  | str (s : Str)
  | other                      -- any other Python object (None, int, list, …)
  deriving Inhabited

/-- `_verify_individual` + `_handle_type_specially` -/
def verifyIndividual (isTRSList : Bool) : Item → Except PyErr Elem
  | .tract t => if isTRSList then .ok (.trs (TRS.trsToDict (some t.trs.trs))) else .ok (.tract t)
  | .trs d => if isTRSList then .ok (.trs d) else .error .typeError
  | .str s => if isTRSList then .ok (.trs (TRS.trsToDict (some s))) else .error .typeError
  | .other => .error .typeError

/-- `_verify_iterable` on a non-str iterable of items -/
def verifyIterable (isTRSList : Bool) : List Item → Except PyErr (List Elem)
  | [] => .ok []
  | x :: rest =>
    match verifyIndividual isTRSList x with
    | .error e => .error e
    | .ok e =>
      match verifyIterable isTRSList rest with
      | .error e' => .error e'
      | .ok es => .ok (e :: es)

/-- `cls(iterable)` -/
def construct (isTRSList : Bool) (items : List Item) : Except PyErr (List Elem) := verifyIterable isTRSList items

/-- `self.extend(iterable)` / `self += iterable`: all-or-nothing -/
def extend (isTRSList : Bool) (self : List Elem) (items : List Item) : Except PyErr (List Elem) :=
  match verifyIterable isTRSList items with
  | .error e => .error e
  | .ok es => .ok (self ++ es)

def append (isTRSList : Bool) (self : List Elem) (x : Item) : Except PyErr (List Elem) :=
  match verifyIndividual isTRSList x with
  | .error e => .error e
  | .ok e => .ok (self ++ [e])

def insert (isTRSList : Bool) (self : List Elem) (i : Nat) (x : Item) : Except PyErr (List Elem) :=
  match verifyIndividual isTRSList x with
  | .error e => .error e
  | .ok e => .ok (self.take i ++ [e] ++ self.drop i)

end PyTRS.Cont
