/-
Model of pytrs/parser/tract/aliquot_parse.py (string level, mirrors the Python control flow).
Tables come from Gen/Tables.lean (regenerated from the source on every run).
-/
import PyTRS.Rx
import PyTRS.PyStr
import PyTRS.Gen.Patterns
import PyTRS.Gen.Tables
namespace PyTRS.Aliquot
open PyTRS

def strs (l : List String) : List Str := l.map String.toList

def halves : List Str := strs Gen.QQ_HALVES
def quarters : List Str := strs Gen.QQ_QUARTERS
def qqNS : List Str := strs Gen.QQ_NS
def qqEW : List Str := strs Gen.QQ_EW
def subdivDefs : List (Str × List Str) := Gen.QQ_SUBDIVIDE_DEFINITIONS.map (fun kv => (kv.1.toList, strs kv.2))
def sameAxisTbl : List (Str × List Str) := Gen.QQ_SAME_AXIS.map (fun kv => (kv.1.toList, strs kv.2))

def lookup (tbl : List (Str × List Str)) (k : Str) : Option (List Str) :=
  match tbl.find? (fun e => e.1 == k) with
  | some e => some e.2
  | none => none

/-- the body of `pass_back_halves`' while loop, on the already reversed list -/
def passBackLoop : List Str → List Str
  | aq1 :: aq2 :: rest =>
    if halves.contains aq2 && quarters.contains aq1 then
      match aq1 with
      | [c1, c2] =>
        if qqNS.contains aq2 then [c1] :: passBackLoop ((aq2 ++ [c2]) :: rest)
        else [c2] :: passBackLoop (([c1] ++ aq2) :: rest)
      | _ => aq1 :: passBackLoop (aq2 :: rest)     -- unreachable for 2-letter quarters
    else aq1 :: passBackLoop (aq2 :: rest)
  | l => l
termination_by l => l.length

def passBackHalves (l : List Str) : List Str := (passBackLoop l.reverse).reverse

def combineConsecutiveHalves : List Str → List Str
  | aq1 :: aq2 :: rest =>
    if halves.contains aq1 && halves.contains aq2
        && !((lookup sameAxisTbl aq1).getD []).contains aq2 then
      let newQuarter := if isInfix aq1 ("EW".toList) then aq2 ++ aq1 else aq1 ++ aq2
      newQuarter :: combineConsecutiveHalves rest
    else aq1 :: combineConsecutiveHalves (aq2 :: rest)
  | l => l
termination_by l => l.length

def standardizeStep (l : List Str) : List Str := combineConsecutiveHalves (passBackHalves l)

/-- `while aliquot_components != aliquot_copy` — `none` when the fuel runs out -/
def standardizeFuel : Nat → List Str → List Str → Option (List Str)
  | 0, _, _ => none
  | fuel+1, comps, copy =>
    if comps == copy then some comps
    else standardizeFuel fuel (standardizeStep comps) comps

def standardizeBudget (n : Nat) : Nat := n * n * n + 2 * n + 3

/-- Python's loop starts with `aliquot_copy = []`: for an empty list it returns at once. -/
def standardize (l : List Str) : Option (List Str) :=
  standardizeFuel (standardizeBudget l.length) l []

/-- `rebuild_aliquots` -/
def rebuildAliquots : List (List Str) → List Str
  | [] => []
  | [deepest] => deepest
  | l@(_ :: _ :: _) =>
    let deepest := l.getLast!
    let l1 := l.dropLast
    let second := l1.getLast!
    let l2 := l1.dropLast
    let rebuilt := second.flatMap (fun shallow => deepest.map (fun deep => deep ++ shallow))
    rebuildAliquots (l2 ++ [rebuilt])
termination_by l => l.length
decreasing_by simp_all

def subdivideLoop : Nat → List (List Str) → List (List Str)
  | 0, d => d
  | n+1, d =>
    let lastHead : Str := ((d.getLast?.getD []).head?).getD []
    match lookup subdivDefs lastHead with
    | some qs => subdivideLoop n (d.dropLast ++ [qs])
    | none => subdivideLoop n (d ++ [quarters])

def subdivideAliquot (comp : Str) (depth : Int) : List Str :=
  if depth ≤ 0 then
    if halves.contains comp then [comp ++ "2".toList] else [comp]
  else rebuildAliquots (subdivideLoop depth.toNat [[comp]])

/-- the per-position depth computation of `parse_aliquot` (i is 1-based) -/
def depthFor (i len : Nat) (comp : Str) (qqMin : Int) (breakHalves : Bool) : Int :=
  let d0 : Int :=
    if (i : Int) == qqMin then 1
    else if i == len && (len : Int) < qqMin then qqMin - i + 1
    else if halves.contains comp && ((i : Int) < qqMin || breakHalves) then 1
    else 0
  if quarters.contains comp then d0 - 1 else d0

def componentsOf (text : Str) : List Str :=
  let gi := (Gen.single_aliquot_unpacker_regex_groups.find? (fun g => g.1 == "aliquot_no_frac")).map (·.2) |>.getD 0
  (Gen.single_aliquot_unpacker_regex.finditer text).filterMap (fun m => m.group? text gi)

structure DepthArgs where
  qqMin : Int := 2
  qqMax : Option Int := none
  qqDepth : Option Int := none
  breakHalves : Bool := false
  deriving Repr, Inhabited

/-- `parse_aliquot` on an already reversed component list; `none` = the standardisation loop diverged -/
def parseComponents (comps : List Str) (a : DepthArgs) : Option (List Str) :=
  let (qqMin, qqMax) := match a.qqDepth with
    | some d => (d, some d)
    | none => (a.qqMin, a.qqMax)
  if comps.isEmpty then some [] else
  match standardize comps with
  | none => none
  | some comps =>
    let comps := match qqMax with
      | some mx =>
        if (comps.length : Int) > mx then
          (if mx ≥ 0 then comps.take mx.toNat else comps.take (comps.length - (-mx).toNat))
        else comps
      | none => comps
    let len := comps.length
    let subdivided := (List.range len).map (fun idx =>
      let comp := comps[idx]!
      subdivideAliquot comp (depthFor (idx+1) len comp qqMin a.breakHalves))
    some (rebuildAliquots subdivided)

def parseAliquot (text : Str) (a : DepthArgs) : Option (List Str) :=
  parseComponents (componentsOf text).reverse a

end PyTRS.Aliquot
