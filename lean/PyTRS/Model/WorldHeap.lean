/-
A heap-level refinement of the TRS-cache part of `World`: dict OBJECTS live in a heap and are referred to by
reference, so that aliasing ("every TRS with this string shares ONE dict") and a caller mutating a dict he was
given are expressible.  Mirrors pytrs/parser/trs/trs.py method by method:

  TRS.__init__            -> `construct`   ('' / None become the undefined TRS, THEN the setter runs)
  TRS.trs (setter)        -> `assign` / `setterRef`   (`TRS.__CACHE.get(new_trs)`: the RAW argument is the key; on a hit the
                                                        object's `__trs_dict` IS the cached dict object)
  TRS._cache_trs_to_dict  -> `cacheTrsToDict`         (fresh dict; stored in the cache only while `_USE_CACHE`)
  TRS.trs_to_dict (public)-> `handOut (trsToDict ..)` (always a FRESH dict object; for a TRS argument it takes `x.trs`)
  TRS._clear_cache        -> `cacheClear`             (rebinds the cache; objects keep their dicts)
  TRS.from_twprgesec / .set_twprgesec -> `construct_trs`, then `__init__` / the setter
  obj.twp, obj.twp_num, … -> `read`                   (dereference the object's dict)

The adversary: `callerWrites r d` overwrites heap cell `r`; the model lets him do so only for references the
library handed to him (`handedOut`).  `stepG true` is a deliberately DEFECTIVE library (negative control) whose public
`trs_to_dict(obj)` returns the object's own dict.
-/
import PyTRS.Model.World
namespace PyTRS
namespace WorldHeap
open PyTRS.TRS PyTRS.Plss

abbrev Ref := Nat
/-- what the `trs` setter is given, and what `TRS.__CACHE` is keyed by: `None`, `''` and `'___z___z__'` are three
    different keys of the Python dict (the value-level `World` normalises them; for aliasing observations that matters) -/
abbrev Key := Option Str

/-- a TRS object: its private `__trs_dict` (a reference), and — ghost — the argument its setter was last given -/
structure HObj where
  ref : Ref
  src : Key
  deriving Repr, Inhabited, DecidableEq

structure HWorld where
  mc : MC := {}
  useCache : Bool := true                     -- TRS._USE_CACHE
  next : Ref := 0                             -- allocation counter
  heap : List (Ref × TrsDict) := []           -- dict objects
  cache : List (Key × Ref) := []              -- TRS.__CACHE
  objs : List (Nat × HObj) := []              -- live TRS objects (a Tract is represented by its inner TRS object)
  handedOut : List Ref := []                  -- dict objects the caller holds a reference to
  deriving Repr, Inhabited

def deref (w : HWorld) (r : Ref) : Option TrsDict := w.heap.lookup r
def getObj (w : HWorld) (id : Nat) : Option HObj := w.objs.lookup id
def putObj (w : HWorld) (id : Nat) (o : HObj) : HWorld :=
  { w with objs := (id, o) :: w.objs.filter (fun e => e.1 != id) }

/-- a new dict object -/
def alloc (w : HWorld) (d : TrsDict) : HWorld × Ref :=
  ({ w with heap := (w.next, d) :: w.heap, next := w.next + 1 }, w.next)

/-- in-place mutation of a dict object -/
def writeCell (h : List (Ref × TrsDict)) (r : Ref) (d : TrsDict) : List (Ref × TrsDict) :=
  h.map (fun e => if e.1 == r then (e.1, d) else e)

/-- `TRS._cache_trs_to_dict(k)` -/
def cacheTrsToDict (w : HWorld) (k : Key) : HWorld × Ref :=
  let w1 := (alloc w (trsToDict k)).1
  (if w.useCache then { w1 with cache := (k, w.next) :: w1.cache } else w1, w.next)

/-- right-hand side of the `trs` setter: the dict object the TRS object will point to.
    The cache is consulted whether or not caching is on. -/
def setterRef (w : HWorld) (k : Key) : HWorld × Ref :=
  match w.cache.lookup k with
  | some r => (w, r)
  | none => cacheTrsToDict w k

/-- `obj.trs = k` -/
def assign (w : HWorld) (id : Nat) (k : Key) : HWorld :=
  let p := setterRef w k
  putObj p.1 id { ref := p.2, src := k }

/-- `TRS(k)` bound to the name `id` -/
def construct (w : HWorld) (id : Nat) (k : Key) : HWorld := assign w id (some (normIn k))

inductive HOp where
  | setMC (ns ew : Str)
  | cacheOn (b : Bool)                            -- TRS._USE_CACHE = b
  | cacheClear                                    -- TRS._clear_cache()
  | newTRS (id : Nat) (trs : Key)                 -- id = TRS(trs)          (also: Tract(.., trs=trs), tract.trs = trs)
  | setTrs (id : Nat) (trs : Key)                 -- id.trs = trs           (an existing TRS object; raw key)
  | newTRSFrom (id src : Nat)                     -- tract.trs = <TRS object src>  ==  id = TRS(src.trs)
  | fromTwprgesec (id : Nat) (twp rge sec : Arg) (ns ew : Option Str) (ocr : Bool)   -- id = TRS.from_twprgesec(..)
  | setTwprgesec (id : Nat) (twp rge sec : Arg) (ns ew : Option Str) (ocr : Bool)    -- id.set_twprgesec(..)
  | toDict (trs : Key)                            -- trs_to_dict(trs): the caller receives a dict
  | toDictObj (id : Nat)                          -- trs_to_dict(id): the caller receives a dict
  | read (id : Nat)                               -- all twelve properties of the object
  | sameDict (a b : Nat)                          -- aliasing observation: a.__trs_dict is b.__trs_dict
  | callerWrites (r : Ref) (d : TrsDict)          -- the caller mutates a dict he holds
  | callerReads (r : Ref)                         -- the caller looks at a dict he holds
  deriving Repr, Inhabited

inductive HOut where
  | none
  | denied                                        -- the caller does not hold that reference
  | err (e : PyErr)
  | dict (d : TrsDict)
  | handed (r : Ref) (d : TrsDict)                -- a dict object given to the caller: identity and content
  | bool (b : Bool)
  | str (s : Str)
  deriving Repr, Inhabited, DecidableEq

/-- the public conversion: a FRESH dict object, given to the caller -/
def handOut (w : HWorld) (d : TrsDict) : HWorld × HOut :=
  let w1 := (alloc w d).1
  ({ w1 with handedOut := w.next :: w1.handedOut }, .handed w.next d)

/-- one operation.  `leaky = false` is the library; `leaky = true` is the negative control in which
    `trs_to_dict(<TRS object>)` returns the object's own dict ("it is already broken down"). -/
def stepG (leaky : Bool) (w : HWorld) : HOp → HWorld × HOut
  | .setMC ns ew => ({ w with mc := { ns := ns, ew := ew } }, .none)
  | .cacheOn b => ({ w with useCache := b }, .none)
  | .cacheClear => ({ w with cache := [] }, .none)
  | .newTRS id trs => (construct w id trs, .none)
  | .setTrs id trs =>
    match getObj w id with
    | none => (w, .none)
    | some _ => (assign w id trs, .none)
  | .newTRSFrom id src =>
    match getObj w src with
    | none => (w, .none)
    | some o =>
      match deref w o.ref with
      | none => (w, .none)
      | some d => (construct w id (some d.trs), .none)
  | .fromTwprgesec id twp rge sec ns ew ocr =>
    match constructTrs twp rge sec (ns.getD w.mc.ns) (ew.getD w.mc.ew) ocr with
    | .error e => (w, .err e)
    | .ok s => (construct w id (some s), .none)
  | .setTwprgesec id twp rge sec ns ew ocr =>
    match getObj w id with
    | none => (w, .none)
    | some _ =>
      match constructTrs twp rge sec (ns.getD w.mc.ns) (ew.getD w.mc.ew) ocr with
      | .error e => (w, .err e)
      | .ok s => (assign w id (some s), .str s)
  | .toDict trs => handOut w (trsToDict trs)
  | .toDictObj id =>
    match getObj w id with
    | none => (w, .none)
    | some o =>
      match deref w o.ref with
      | none => (w, .none)
      | some d =>
        if leaky then ({ w with handedOut := o.ref :: w.handedOut }, .handed o.ref d)
        else handOut w (trsToDict (some d.trs))
  | .read id =>
    match getObj w id with
    | none => (w, .none)
    | some o =>
      match deref w o.ref with
      | none => (w, .none)
      | some d => (w, .dict d)
  | .sameDict a b =>
    match getObj w a, getObj w b with
    | some x, some y => (w, .bool (x.ref == y.ref))
    | _, _ => (w, .none)
  | .callerWrites r d =>
    if w.handedOut.contains r then ({ w with heap := writeCell w.heap r d }, .none) else (w, .denied)
  | .callerReads r =>
    if w.handedOut.contains r then
      (w, match deref w r with | some d => .dict d | none => .none)
    else (w, .denied)

def runG (leaky : Bool) (w : HWorld) : List HOp → HWorld × List HOut
  | [] => (w, [])
  | op :: rest =>
    let p := stepG leaky w op
    let q := runG leaky p.1 rest
    (q.1, p.2 :: q.2)

/-- the library -/
def step (w : HWorld) (op : HOp) : HWorld × HOut := stepG false w op
def run (w : HWorld) (ops : List HOp) : HWorld × List HOut := runG false w ops

/-! ### the value-level views -/

/-- object ↦ the value of its dict -/
def view (w : HWorld) (id : Nat) : Option TrsDict := (getObj w id).bind (fun o => deref w o.ref)

/-- whole-state aliasing observation for a harness: the cache keys in insertion order (oldest first), each with the
    names of the live objects whose dict IS the cached dict object
    (Python: `[(k, [i for i, o in objs if o._TRS__trs_dict is v]) for k, v in TRS._TRS__CACHE.items()]`) -/
def cacheShape (w : HWorld) : List (Key × List Nat) :=
  w.cache.reverse.map (fun e => (e.1, ((w.objs.filter (fun o => o.2.ref == e.2)).map (·.1)).mergeSort))

/-- how many distinct dict objects the live TRS objects use (Python: `len({id(o._TRS__trs_dict) for o in objs})`) -/
def distinctDicts (w : HWorld) : Nat := ((w.objs.map (·.2.ref)).eraseDups).length

/-- the cache part of the value-level `World` (keys normalised as there) -/
def absWorld (w : HWorld) : World.World :=
  { mc := w.mc, useCache := w.useCache,
    cache := w.cache.filterMap (fun e => (deref w e.2).map (fun d => (normIn e.1, d))) }

/-! ### the reference: no cache, no heap, no caller — what each library operation must answer -/

/-- operations of the library proper (not cache control, not the caller's own doings, not identity observations) -/
def HOp.isLib : HOp → Bool
  | .setMC .. => true | .newTRS .. => true | .setTrs .. => true | .newTRSFrom .. => true
  | .fromTwprgesec .. => true | .setTwprgesec .. => true | .toDict _ => true | .toDictObj _ => true | .read _ => true
  | _ => false

def HOp.isWrite : HOp → Bool
  | .callerWrites .. => true
  | _ => false

/-- operations whose answer is the caller's own business -/
def HOp.isCaller : HOp → Bool
  | .callerWrites .. => true | .callerReads _ => true
  | _ => false

structure Spec where
  mc : MC := {}
  objs : List (Nat × Key) := []          -- object ↦ the string its setter was given
  deriving Repr, Inhabited

def Spec.get (s : Spec) (id : Nat) : Option Key := s.objs.lookup id
def Spec.put (s : Spec) (id : Nat) (k : Key) : Spec := { s with objs := (id, k) :: s.objs.filter (fun e => e.1 != id) }

def Spec.step (s : Spec) : HOp → Spec × HOut
  | .setMC ns ew => ({ s with mc := { ns := ns, ew := ew } }, .none)
  | .newTRS id trs => (s.put id (some (normIn trs)), .none)
  | .setTrs id trs =>
    match s.get id with
    | none => (s, .none)
    | some _ => (s.put id trs, .none)
  | .newTRSFrom id src =>
    match s.get src with
    | none => (s, .none)
    | some k => (s.put id (some (normIn (some (trsToDict k).trs))), .none)
  | .fromTwprgesec id twp rge sec ns ew ocr =>
    match constructTrs twp rge sec (ns.getD s.mc.ns) (ew.getD s.mc.ew) ocr with
    | .error e => (s, .err e)
    | .ok t => (s.put id (some (normIn (some t))), .none)
  | .setTwprgesec id twp rge sec ns ew ocr =>
    match s.get id with
    | none => (s, .none)
    | some _ =>
      match constructTrs twp rge sec (ns.getD s.mc.ns) (ew.getD s.mc.ew) ocr with
      | .error e => (s, .err e)
      | .ok t => (s.put id (some t), .str t)
  | .toDict trs => (s, .dict (trsToDict trs))
  | .toDictObj id =>
    match s.get id with
    | none => (s, .none)
    | some k => (s, .dict (trsToDict (some (trsToDict k).trs)))
  | .read id =>
    match s.get id with
    | none => (s, .none)
    | some k => (s, .dict (trsToDict k))
  | _ => (s, .none)

def Spec.run (s : Spec) : List HOp → Spec × List HOut
  | [] => (s, [])
  | op :: rest =>
    let p := s.step op
    let q := Spec.run p.1 rest
    (q.1, p.2 :: q.2)

/-- forget the identity of a dict given to the caller, keep its content -/
def HOut.strip : HOut → HOut
  | .handed _ d => .dict d
  | o => o

/-- the answers at the positions of the operations selected by `p` -/
def outsWhere (p : HOp → Bool) : List HOp → List HOut → List HOut
  | op :: ops, o :: os => if p op then o :: outsWhere p ops os else outsWhere p ops os
  | _, _ => []

/-- the ghost part of a heap world -/
def absSpec (w : HWorld) : Spec := { mc := w.mc, objs := w.objs.map (fun e => (e.1, e.2.src)) }

/-! ### the heap invariant (stated here, like `World.CacheOK`; proved in Lemmas/Heap.lean) -/

/-- SEPARATION: no dict object the caller holds is referred to by the cache or by a TRS object -/
def Sep (w : HWorld) : Prop :=
  (∀ e ∈ w.cache, e.2 ∉ w.handedOut) ∧ (∀ e ∈ w.objs, e.2.ref ∉ w.handedOut)

/-- COHERENCE: every cached dict holds `trs_to_dict` of its key, every object's dict holds `trs_to_dict` of the
    string the object was set from -/
def Coherent (w : HWorld) : Prop :=
  (∀ e ∈ w.cache, deref w e.2 = some (trsToDict e.1)) ∧ (∀ e ∈ w.objs, deref w e.2.ref = some (trsToDict e.2.src))

/-- allocation discipline: every reference in use is below the allocation counter -/
def Bounded (w : HWorld) : Prop :=
  (∀ r ∈ w.handedOut, r < w.next) ∧ (∀ e ∈ w.cache, e.2 < w.next) ∧ (∀ e ∈ w.objs, e.2.ref < w.next)

def Inv (w : HWorld) : Prop := Sep w ∧ Coherent w ∧ Bounded w

/-! ### projections of histories used in the theorem statements -/

/-- the library part of a history: cache control (`cacheOn`, `cacheClear`), everything the caller does to the dicts
    he holds, and identity observations are erased -/
def libProj (ops : List HOp) : List HOp := ops.filter HOp.isLib

/-- the answers of the library operations of a history, up to the identity of the dicts handed out -/
def libVals (ops : List HOp) (outs : List HOut) : List HOut := (outsWhere HOp.isLib ops outs).map HOut.strip

def notCaller (op : HOp) : Bool := !op.isCaller
/-- the history without anything the caller does to his dicts -/
def eraseCaller (ops : List HOp) : List HOp := ops.filter notCaller
/-- the history without the caller's writes -/
def eraseWrites (ops : List HOp) : List HOp := ops.filter (fun o => !o.isWrite)


end WorldHeap
end PyTRS
