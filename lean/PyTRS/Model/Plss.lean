/-
Model of pytrs/parser/plssdesc/plss_preprocess.py and plss_parse.py
(TwpRgeFinder, SecFinder, PLSSChunker, ChunkParser, PLSSParser, deduce_layout, cleanup_desc).
Mirrors the Python control flow of the working tree (with the `fix:` commits).
-/
import PyTRS.Model.Unpack
import PyTRS.Model.Tract
import PyTRS.Model.TRS
namespace PyTRS.Plss
open PyTRS PyTRS.Unpack


abbrev M := Except PyErr

/-! ### MasterConfig (the only process-wide state these functions read) -/
structure MC where
  ns : Str := S "n"
  ew : Str := S "w"
  deriving Inhabited, BEq, Repr

def resolve (d : Option Str) (m : Str) : Str := d.getD m

/-! ### plss_preprocess -/

def findPat (name : String) : Pat := Tract.findRx name

/-- one match of `sub_scrubber`'s per-span substitution: (output so far, end of the previous match) -/
def subScrubStep (p : Pat) (txt : Str) (ns ew : Str) (ocr : Bool) (st : Str × Nat) (m : Match) : M (Str × Nat) :=
  match unpackTwprge p m txt ns ew ocr with
  | .error e => .error e
  | .ok clean => .ok (st.1 ++ slice txt st.2 m.start ++ clean ++ [' '], m.stop)

/-- `sub_scrubber(rgx, txt, default_ns, default_ew)` (per-span substitution) -/
def subScrubber (name : String) (txt : Str) (ns ew : Str) : M Str :=
  let p := findPat name
  match (p.rx.finditer txt).foldlM (subScrubStep p txt ns ew (name == Gen.PLSS_OCR_SCRUBBER)) ([], 0) with
  | .error e => .error e
  | .ok st => .ok (st.1 ++ txt.drop st.2)

def reduceWhitespaceStep (t : Str) : Str :=
  let t := Gen.inl_plss_preprocess_reduce_whitespace_0.sub (S " ") t
  let t := Gen.inl_plss_preprocess_reduce_whitespace_1.sub (S " ") t
  let t := Gen.inl_plss_preprocess_reduce_whitespace_2.sub (S "\n") t
  let t := Gen.inl_plss_preprocess_reduce_whitespace_3.sub (S "\n\n") t
  Gen.inl_plss_preprocess_reduce_whitespace_4.sub [] t

/-- `none` = still changing when the fuel ran out -/
def reduceWhitespace (t : Str) : Option Str :=
  let t := pyStrip t
  Tract.untilStable reduceWhitespaceStep (2 * t.length + 8) t

/-- `find_twprge(text)` with no preprocessing: natural-format list -/
def findTwprgeRaw (text : Str) (ns ew : Str) : M (List Str) :=
  (twprge.rx.finditer text).mapM (fun m => unpackTwprge twprge m text ns ew false)

def listRemoveFirst (l : List Str) (x : Str) : List Str :=
  match l with
  | [] => []
  | y :: t => if y == x then t else y :: listRemoveFirst t x

structure PPResult where
  text : Str
  fixed : List Str
  diverged : Bool := false
  deriving Inhabited

def scrubberNames (ocr : Bool) : List String :=
  if ocr then Gen.PLSS_OCR_SCRUBBER :: Gen.PLSS_SCRUBBER_REGEXES else Gen.PLSS_SCRUBBER_REGEXES

/-- Twp/Rges present after preprocessing that were not there before (multiset difference, in order) -/
def fixedTwprges (orig processed : List Str) : List Str :=
  orig.foldl (fun acc tr => if acc.contains tr then listRemoveFirst acc tr else acc) processed

def plssPreprocess (mc : MC) (txt : Str) (defNS defEW : Option Str) (ocr : Bool) : M PPResult :=
  let ns := resolve defNS mc.ns
  let ew := resolve defEW mc.ew
  -- find_twprge(txt) uses MasterConfig defaults
  match findTwprgeRaw txt mc.ns mc.ew with
  | .error e => .error e
  | .ok orig =>
    match (scrubberNames ocr).foldlM (fun t n => subScrubber n t ns ew) txt with
    | .error e => .error e
    | .ok t =>
      match reduceWhitespace t with
      | none => .ok { text := t, fixed := [], diverged := true }
      | some t2 =>
        match findTwprgeRaw t2 mc.ns mc.ew with
        | .error e => .error e
        | .ok processed => .ok { text := t2, fixed := fixedTwprges orig processed }

/-- public `find_twprge(text, default_ns, default_ew, preprocess, ocr_scrub)` -/
def findTwprge (mc : MC) (text : Str) (defNS defEW : Option Str) (preprocess ocr : Bool) : M (List Str) :=
  if preprocess || ocr then
    match plssPreprocess mc text defNS defEW ocr with
    | .error e => .error e
    | .ok r => findTwprgeRaw r.text (resolve defNS mc.ns) (resolve defEW mc.ew)
  else findTwprgeRaw text (resolve defNS mc.ns) (resolve defEW mc.ew)

def findSec (text : Str) : List Str :=
  (multisec.rx.finditer text).flatMap (fun m => (unpackSections (m.group0 text)).secList)

/-! ### layouts -/

def TRS_DESC := S "TRS_desc"
def DESC_STR := S "desc_STR"
def S_DESC_TR := S "S_desc_TR"
def TR_DESC_S := S "TR_desc_S"
def COPY_ALL := S "copy_all"

def deduceLayout (text : Str) (candidates : List Str := [TRS_DESC, DESC_STR, S_DESC_TR, TR_DESC_S]) : Str :=
  let text := pyStrip text
  let secMo := Gen.no_num_sec_regex.search text
  let trMo := twprge.rx.search text
  match secMo, trMo with
  | some sm, some tm =>
    if sm.start < tm.start then
      let g := if candidates.contains DESC_STR then DESC_STR else COPY_ALL
      if candidates.contains S_DESC_TR && sm.start ≤ 1 then S_DESC_TR else g
    else
      let between := pyStrip (slice text tm.stop sm.start)
      if candidates.contains TR_DESC_S && between.length ≥ 4 then TR_DESC_S
      else if candidates.contains TRS_DESC then TRS_DESC
      else COPY_ALL
  | _, _ => COPY_ALL

def cullList : List Str := Gen.CLEANUP_CULL_LIST.map String.toList

def cleanupStep (text : Str) : Str :=
  let strips := Gen.CLEANUP_STRIPS
  let text := strips.foldl (fun t s =>
      if s.1 == "lstrip" then pyLStripChars s.2.toList t
      else if s.1 == "rstrip" then pyRStripChars s.2.toList t
      else pyStripChars s.2.toList t) text
  cullList.foldl (fun t cull => if pyEndsWith (pyLower t) cull then t.take (t.length - cull.length) else t) text

def cleanupDesc (text : Str) : Str :=
  (Tract.untilStable cleanupStep (text.length + 3) text).getD text

/-! ### markers and finders -/

structure TRMatch where
  twprge : Str
  start : Nat
  stop : Nat
  deriving Inhabited, Repr

structure SecMatch where
  secs : List Str
  start : Nat
  stop : Nat
  deriving Inhabited, Repr

structure FinderFlags where
  flags : List PyVal := []
  lines : List PyVal := []
  deriving Inhabited

def firstLayouts (layout : Str) : Bool := layout == TRS_DESC || layout == S_DESC_TR

structure TRFindSt where
  out : List TRMatch := []
  ff : FinderFlags := {}
  j : Nat := 0

/-- the rightmost section match between `j` and `i` (and the new `j`): `for sec_mo in finditer(txt, pos=j, endpos=i)` -/
def lastSecBefore (txt : Str) (j i : Nat) : Option Match × Nat :=
  (multisec.rx.finditer txt j i).foldl (fun _ sm => (some sm, sm.start)) (none, j)

/-- one iteration of `findall_matching_twprge` -/
def trFindStep (mc : MC) (txt : Str) (layout : Str) (st : TRFindSt) (mo : Match) : M TRFindSt :=
  match unpackTwprge twprge mo txt mc.ns mc.ew false with
  | .error e => .error e
  | .ok nat =>
    let short := twprgeNaturalToShort nat
    if layout == DESC_STR || layout == TR_DESC_S || layout == COPY_ALL then
      .ok { st with out := st.out ++ [⟨short, mo.start, mo.stop⟩] }
    else
      let (last, j') := lastSecBefore txt st.j mo.start
      let legit := match last with
        | none => true
        | some sm => (Gen.sec_twprge_in_between.search (slice txt sm.start mo.stop)).isNone
      if legit then .ok { st with out := st.out ++ [⟨short, mo.start, mo.stop⟩], j := j' }
      else
        let flag := S "twprge_ignored<" ++ short ++ S ">"
        let line := slice txt (mo.start - 20) mo.stop
        .ok { st with j := j', ff := { flags := st.ff.flags ++ [.str flag], lines := st.ff.lines ++ [.tup [.str flag, .str line]] } }

/-- `TwpRgeFinder(txt, layout)` -/
def twprgeFinder (mc : MC) (txt : Str) (layout : Str) : M (List TRMatch × FinderFlags) :=
  match (twprge.rx.finditer txt).foldlM (trFindStep mc txt layout) {} with
  | .error e => .error e
  | .ok st => .ok (st.out, st.ff)

inductive ReqColon where
  | no | yes | cautious | secondPass
  deriving Inhabited, BEq, Repr, DecidableEq

def illegalWords : List Str := Gen.SECFINDER_ILLEGAL.map String.toList

structure SecFindSt where
  out : List SecMatch := []
  ff : FinderFlags := {}
  lastNums : List Str := []

/-- one iteration of the `for sec_mo in multisec_regex.finditer(text)` loop -/
def secFindStep (text : Str) (layout : Str) (needColon : Bool) (st : SecFindSt) (mo : Match) : M SecFindSt :=
  let secTxt := mo.group0 text
  let u := unpackSections secTxt
  let nums := u.secList
  let prior := pyRStrip (text.take mo.start)
  let illegalPrior := illegalWords.any (fun w => pyEndsWith prior w)
  let legit := !(firstLayouts layout && illegalPrior) && !(needColon && (multisec.group mo text "colon").isNone)
  if !legit then
    if nums.length > 1 then
      let flag := S "multisec_ignored<" ++ pyJoin (S ",") nums ++ S ">"
      .ok { st with lastNums := nums, ff := { flags := st.ff.flags ++ [.str flag], lines := st.ff.lines ++ [.tup [.str flag, .str secTxt]] } }
    else match nums with
      | n :: _ =>
        let flag := S "sec_ignored<" ++ n ++ S ">"
        .ok { st with lastNums := nums, ff := { flags := st.ff.flags ++ [.str flag], lines := st.ff.lines ++ [.tup [.str flag, .str secTxt]] } }
      | [] => .error PyErr.indexError          -- `sec_nums[0]` on an empty list
  else
    let ff1 : FinderFlags := if isMulti multisec "sec" mo text == some true then
        let flag := S "multisec_found<" ++ pyJoin (S ",") nums ++ S ">"
        { flags := st.ff.flags ++ [.str flag], lines := st.ff.lines ++ [.tup [.str flag, .str secTxt]] }
      else st.ff
    .ok { out := st.out ++ [⟨u.secList, mo.start, mo.stop⟩], lastNums := nums,
          ff := { flags := ff1.flags ++ u.flags, lines := ff1.lines ++ u.flagLines } }

/-- one pass of `findall_matching_sec` -/
def secFinderPass (text : Str) (layout : Str) (needColon : Bool) :
    M (List SecMatch × FinderFlags × List Str) :=
  match (multisec.rx.finditer text).foldlM (secFindStep text layout needColon) {} with
  | .error e => .error e
  | .ok st => .ok (st.out, st.ff, st.lastNums)

/-- `SecFinder(txt, layout, require_colon)` including the optional second pass -/
def secFinder (text : Str) (layout : Str) (rc : ReqColon) : M (List SecMatch × FinderFlags) :=
  let needColon := (rc == .yes || rc == .cautious) && firstLayouts layout
  match secFinderPass text layout needColon with
  | .error e => .error e
  | .ok (ms, ff, _) =>
    if !ms.isEmpty then .ok (ms, ff)
    else if rc == .cautious && firstLayouts layout then
      -- second pass: flags of the first pass are discarded
      match secFinderPass text layout false with
      | .error e => .error e
      | .ok (ms2, ff2, lastNums) =>
        if !ms2.isEmpty then
          let flag := S "pulled_sec_without_colon<" ++ pyJoin (S ",") lastNums ++ S ">"
          .ok (ms2, { flags := ff2.flags ++ [.str flag], lines := ff2.lines ++ [.tup [.str flag, .str flag]] })
        else .ok (ms2, ff2)
    else .ok (ms, ff)

inductive Marker where
  | textStart | textEnd | secStart | secEnd | trStart | trEnd
  deriving Inhabited, BEq, Repr, DecidableEq

/-- python dict assignment: overwrite or insert -/
def markSet (d : List (Nat × Marker)) (k : Nat) (v : Marker) : List (Nat × Marker) :=
  if d.any (fun e => e.1 == k) then d.map (fun e => if e.1 == k then (k, v) else e) else d ++ [(k, v)]

def insertSorted (x : Nat × Marker) : List (Nat × Marker) → List (Nat × Marker)
  | [] => [x]
  | y :: t => if x.1 ≤ y.1 then x :: y :: t else y :: insertSorted x t

def sortMarkers (d : List (Nat × Marker)) : List (Nat × Marker) := d.foldr insertSorted []

def populateMarkers (textLen : Nat) (secs : List SecMatch) (trs : List TRMatch) : List (Nat × Marker) :=
  let d := markSet [] 0 .textStart
  let d := markSet d textLen .textEnd
  let d := secs.foldl (fun d m => markSet (markSet d m.start .secStart) m.stop .secEnd) d
  let d := trs.foldl (fun d m => markSet (markSet d m.start .trStart) m.stop .trEnd) d
  sortMarkers d

/-! ### ChunkParser -/

structure Component where
  desc : Str
  sec : Option (List Str)        -- Python may stage `None` here
  twprge : Option Str
  secWithin : Bool := false
  deriving Inhabited, Repr, BEq

structure Chunk where
  workingTR : Option Str := none
  workingSec : Option (List Str) := none
  trList : List Str := []
  secList : List (List Str) := []
  lastTRUsed : Bool := false
  lastSecUsed : Bool := false
  comps : List Component := []
  unused : List (Nat × Str) := []
  fl : Tract.Flags := {}
  deriving Inhabited

def ERR_TWPRGE := S Gen.ERR_TWPRGE
def ERR_SEC := S Gen.ERR_SEC

/-- repr of a python list of str (section strings never contain quotes) -/
def reprStrList (l : List Str) : Str :=
  S "[" ++ pyJoin (S ", ") (l.map (fun s => S "'" ++ s ++ S "'")) ++ S "]"

def addE (c : Chunk) (flag ctx : Str) : Chunk :=
  { c with fl := { c.fl with e := c.fl.e ++ [.str flag], el := c.fl.el ++ [.tup [.str flag, .str ctx]] } }

/-- the error flag written when the previously staged Twp/Rge was never used -/
def flagUnusedTR (c : Chunk) : Chunk :=
  match c.workingTR with
  | some w => if !c.lastTRUsed && w != ERR_TWPRGE then addE c (S "twprge_error<" ++ w ++ S ">") (S "<" ++ w ++ S ">") else c
  | none => c

def getNextTwprge (c : Chunk) : Chunk :=
  let c := flagUnusedTR c
  match c.trList with
  | t :: rest => { c with lastTRUsed := false, workingTR := some t, trList := rest }
  | [] => { c with lastTRUsed := false, workingTR := some ERR_TWPRGE }

def optStrPy (o : Option Str) : Str := o.getD (S "None")

/-- `self.working_sec not in [None, ERR_SEC]`: a list never equals the str ERR_SEC, so only None is exempt -/
def flagUnusedSec (c : Chunk) : Chunk :=
  match c.workingSec with
  | some w =>
    if !c.lastSecUsed then
      addE c (S "sec_error<" ++ reprStrList w ++ S ">") (S "<" ++ reprStrList w ++ S "/" ++ optStrPy c.workingTR ++ S ">")
    else c
  | none => c

def getNextSec (c : Chunk) : Chunk :=
  let c := flagUnusedSec c
  match c.secList with
  | s :: rest => { c with lastSecUsed := false, workingSec := some s, secList := rest }
  | [] => { c with lastSecUsed := false, workingSec := some [ERR_SEC] }

def stage (c : Chunk) (desc : Str) (sec : Option (List Str)) (tr : Option Str) : Chunk :=
  { c with comps := c.comps ++ [{ desc := desc, sec := sec, twprge := tr }] }

/-- `_parse_copyall` -/
def parseCopyAll (c : Chunk) (txt : Str) : M Chunk :=
  let c1 := getNextSec c
  match c1.workingSec with
  | some (s :: _) =>
    let c2 := getNextTwprge c1
    .ok (stage c2 txt (some [s]) c2.workingTR)
  | _ => .error PyErr.indexError       -- `sec[0]` on an empty list

def sDescLays (layout : Str) : Bool := layout == TRS_DESC || layout == S_DESC_TR
def trFirstLays (layout : Str) : Bool := layout == TRS_DESC || layout == TR_DESC_S

/-- one marker of the walk in `_parse_meaningful` -/
def walkStep (txt : Str) (layout : Str) (markers : List (Nat × Marker)) (c : Chunk) (count : Nat) : Chunk :=
  let (pos, ty) := markers[count]!
  let (npos, nty) := markers[min (markers.length - 1) (count + 1)]!
  if ty == .trStart then getNextTwprge c
  else if ty == .secStart then getNextSec c
  else if ty == .textEnd then c
  else
    let block := slice txt pos npos
    let isTract := (sDescLays layout && ty == .secEnd) || (!sDescLays layout && nty == .secStart)
    if isTract then
      -- prep_new_tract (a None working sec / Twp/Rge is staged as Python stages it)
      let c1 := stage c (cleanupDesc block) c.workingSec c.workingTR
      { c1 with lastSecUsed := true, lastTRUsed := true, workingSec := some [ERR_SEC] }
    else { c with unused := c.unused ++ [(c.comps.length, block)] }

/-- `_parse_meaningful` -/
def parseMeaningful (c : Chunk) (txt : Str) (layout : Str) (markers : List (Nat × Marker)) : Chunk :=
  let c := if !sDescLays layout then getNextSec c else c
  let c := if !trFirstLays layout then getNextTwprge c else c
  (List.range markers.length).foldl (walkStep txt layout markers) c

/-- `rebuild_sec_within` -/
def rebuildSecWithin (comps : List Component) (unused : List (Nat × Str)) (minLen : Nat) :
    List Component × List (Nat × Str) :=
  match comps with
  | [t] =>
    let desc := unused.foldl (fun d u =>
      let cu := cleanupDesc u.2
      if cu.length ≥ minLen then (if u.1 == 0 then cu ++ S " " ++ d else d ++ S " " ++ cu) else d) t.desc
    (if desc != t.desc then [{ t with desc := desc, secWithin := true }] else [t], [])
  | _ => (comps, unused)

structure ParserCfg where
  mandateLayout : Bool
  requireColon : ReqColon
  secWithin : Bool
  deriving Inhabited

/-- the inner loop of `gen_flags_chunk`: keep extending the context while another match of the same pattern starts
    within `rcx` characters of the end of the last one; returns the end of the last match found -/
def extendContext (p : Pat) (chunk : Str) (rcx : Nat) : Nat → Nat → Nat
  | 0, lastEnd => lastEnd
  | fuel+1, lastEnd =>
    match p.rx.search chunk lastEnd (min chunk.length (lastEnd + rcx)) with
    | none => lastEnd
    | some m => extendContext p chunk rcx fuel m.stop

/-- the `while True` loop of `gen_flags_chunk` for one pattern: (flag, context) pairs found from `startPos` on -/
def triggerScan (p : Pat) (flag : Str) (chunk : Str) (lc rcx : Nat) : Nat → Nat → List (Str × Str)
  | 0, _ => []
  | fuel+1, startPos =>
    match p.rx.search chunk startPos chunk.length with
    | none => []
    | some startMo =>
      let finalEnd := extendContext p chunk rcx (chunk.length + 2) startMo.stop
      let i := startMo.start - lc
      let j := min (finalEnd + rcx) chunk.length
      let ctx := S "<" ++ pyStrip (pyReplace (slice chunk i j) (S "\n") (S " ")) ++ S ">"
      -- the next search starts at the end of this context string; a context that does not advance would loop for
      -- ever in Python (it cannot happen for patterns of min_width ≥ 1: theorem C16_trigger_patterns_consume)
      if j ≤ startPos && j ≤ startMo.start then [(flag, ctx)]
      else (flag, ctx) :: triggerScan p flag chunk lc rcx fuel j

/-- `gen_flags_chunk`: appends directly to the *parent's* warning flags -/
def genFlagsChunk (chunk : Str) (fl : Tract.Flags) : Tract.Flags :=
  let found : List (Str × Str) := Gen.GEN_FLAGS_TABLE.flatMap (fun row =>
    triggerScan (findPat row.1) (S row.2.1) chunk row.2.2.1 row.2.2.2 (chunk.length + 2) 0)
  { fl with w := fl.w ++ found.map (fun fc => PyVal.str fc.1),
            wl := fl.wl ++ found.map (fun fc => PyVal.tup [.str fc.1, .str fc.2]) }

structure ParentSt where
  fl : Tract.Flags := {}
  comps : List Component := []
  unused : List (Nat × Str) := []
  deriving Inhabited

def chunkLayoutOf (pc : ParserCfg) (text : Str) (copyAll : Bool) (parentLayout : Str) : Str :=
  if copyAll then COPY_ALL
  else if pc.mandateLayout then parentLayout
  else deduceLayout text

/-- what `parse_chunk` does after `_parse_meaningful`: re-queue unused Twp/Rge / sections, flag them, sec_within -/
def finishChunk (pc : ParserCfg) (c : Chunk) : Chunk :=
  let c := match c.workingTR with
    | some w => if !c.lastTRUsed && w != ERR_TWPRGE then { c with trList := w :: c.trList } else c
    | none => c
  let c := match c.workingSec with
    | some w => if !c.lastSecUsed && w != [ERR_SEC] then { c with secList := w :: c.secList } else c
    | none => c
  let c := c.trList.foldl (fun c t => addE c (S "unused_twprge<" ++ t ++ S ">") (S "unused_twprge<" ++ t ++ S ">")) c
  let c := c.secList.foldl (fun c sl =>
      addE c (S "unused_sec<" ++ pyJoin (S ",") sl ++ S ">") (S "unused_sec<" ++ pyJoin (S ",") sl ++ S ">")) c
  if pc.secWithin then
    let r := rebuildSecWithin c.comps c.unused Gen.MIN_REPORTABLE_UNUSED_LEN
    { c with comps := r.1, unused := r.2 }
  else c

/-- `parse_chunk` proper (without hand-off); `copyAll` = the ChunkParser was created with layout COPY_ALL -/
def parseChunkCore (mc : MC) (pc : ParserCfg) (text : Str) (copyAll : Bool) (parentLayout : Str) : M Chunk :=
  let chunkLayout := chunkLayoutOf pc text copyAll parentLayout
  match twprgeFinder mc text chunkLayout with
  | .error e => .error e
  | .ok (trs, tff) =>
    match secFinder text chunkLayout pc.requireColon with
    | .error e => .error e
    | .ok (secs, sff) =>
      let c : Chunk := { fl := { w := tff.flags ++ sff.flags, wl := tff.lines ++ sff.lines },
                         secList := secs.map (·.secs), trList := trs.map (·.twprge) }
      if chunkLayout == COPY_ALL then parseCopyAll c text
      else
        let markers := populateMarkers text.length secs trs
        .ok (finishChunk pc (parseMeaningful c text chunkLayout markers))

/-- ChunkParser(text, layout, parent): parse, fall back to copy_all, generate flags, hand off -/
def chunkParser (mc : MC) (pc : ParserCfg) (text : Str) (copyAll : Bool) (parentLayout : Str)
    (parent : ParentSt) : M ParentSt :=
  match parseChunkCore mc pc text copyAll parentLayout with
  | .error e => .error e
  | .ok c0 =>
    match (if c0.comps.isEmpty then parseChunkCore mc pc text true parentLayout else .ok c0) with
    | .error e => .error e
    | .ok c =>
      let pfl := genFlagsChunk text parent.fl
      .ok { fl := { w := pfl.w ++ c.fl.w, wl := pfl.wl ++ c.fl.wl, e := pfl.e ++ c.fl.e, el := pfl.el ++ c.fl.el },
            comps := parent.comps ++ c.comps, unused := parent.unused ++ c.unused }

/-! ### PLSSChunker -/

/-- `_segment_twprge_first` / `_segment_twprge_last` for the i-th match -/
def chunkBlocksFirst (text : Str) (ms : List TRMatch) : List Str :=
  (List.range ms.length).map (fun i =>
    let nextStart := match ms[i+1]? with | some m2 => m2.start | none => text.length
    cleanupDesc (slice text (ms[i]!).start nextStart))

def chunkBlocksLast (text : Str) (ms : List TRMatch) : List Str :=
  (List.range ms.length).map (fun i =>
    let prevEnd := if i == 0 then 0 else (ms[i-1]!).stop
    cleanupDesc (slice text prevEnd (ms[i]!).stop))

def plssChunker (mc : MC) (text : Str) (layout : Str) : M (List Str × List (Nat × Str)) :=
  match twprgeFinder mc text layout with
  | .error e => .error e
  | .ok (ms, _) =>
    if ms.isEmpty || layout == COPY_ALL then .ok ([text], [])
    else if layout == TRS_DESC || layout == TR_DESC_S then
      let unused := match ms.head? with
        | some m => if m.start != 0 then [(0, text.take m.start)] else []
        | none => []
      .ok (chunkBlocksFirst text ms, unused)
    else
      let unused := match ms.getLast? with
        | some m => if m.stop != text.length then [(1, text.drop m.stop)] else []
        | none => []
      .ok (chunkBlocksLast text ms, unused)

end PyTRS.Plss
