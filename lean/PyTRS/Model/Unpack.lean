/-
Model of pytrs/parser/unpack/unpackers.py.
-/
import PyTRS.Rx
import PyTRS.PyStr
import PyTRS.Gen.Patterns
import PyTRS.Gen.Tables
namespace PyTRS.Unpack
open PyTRS

/-- a compiled pattern with its group-name map, as regenerated -/
structure Pat where
  rx : Rx
  groups : List (String × Nat)
  ngroups : Nat

def Pat.idx? (p : Pat) (name : String) : Option Nat :=
  (p.groups.find? (fun g => g.1 == name)).map (·.2)

def Pat.has (p : Pat) (name : String) : Bool := (p.idx? name).isSome

/-- `mo[name]` (None when the group did not participate) -/
def Pat.group (p : Pat) (m : Match) (text : Str) (name : String) : Option Str :=
  match p.idx? name with
  | some i => m.group? text i
  | none => none

def Pat.start? (p : Pat) (m : Match) (name : String) : Option Nat :=
  match p.idx? name with
  | some i => (m.span? i).map (·.1)
  | none => none

def multisec : Pat := ⟨Gen.multisec_regex, Gen.multisec_regex_groups, Gen.multisec_regex_ngroups⟩
def multilot : Pat := ⟨Gen.multilot_regex, Gen.multilot_regex_groups, Gen.multilot_regex_ngroups⟩
def lotAcresUnpacker : Pat := ⟨Gen.lot_acres_unpacker_regex, Gen.lot_acres_unpacker_regex_groups, Gen.lot_acres_unpacker_regex_ngroups⟩
def twprge : Pat := ⟨Gen.twprge_regex, Gen.twprge_regex_groups, Gen.twprge_regex_ngroups⟩

/-- `is_multi(kind, mo)`; `none` = the ValueError branch -/
def isMulti (p : Pat) (kind : String) (m : Match) (text : Str) : Option Bool :=
  if !p.has "intervener" then some false
  else if (p.group m text (kind ++ "num_rightmost")).isSome then some true
  else if (p.group m text (kind ++ "num")).isSome then some false
  else none

def thruRightmost (p : Pat) (m : Match) (text : Str) : Bool :=
  if !p.has "intervener" then false else
  match p.group m text "intervener" with
  | none => false
  | some t => (Gen.through_regex.search (pyStrip t)).isSome

def getRightmost (p : Pat) (kind : String) (m : Match) (text : Str) : Option Str :=
  if !p.has (kind ++ "num_rightmost") then p.group m text (kind ++ "num")
  else match isMulti p kind m text with
    | some true => p.group m text (kind ++ "num_rightmost")
    | _ => p.group m text (kind ++ "num")

def startOfRightmost (p : Pat) (m : Match) : Nat :=
  if !p.has "intervener" then m.start else
  match p.start? m "intervener" with
  | some s => s
  | none => m.start

/-- `range(end, start, step)` as used by both unpackers, already as the list appended -/
def elidedRange (startOfList endOfList : Int) : List Int × Bool :=
  let correct := startOfList < endOfList
  if correct then
    -- range(end-1, start-1, -1)
    let n := (endOfList - startOfList).toNat
    ((List.range n).map (fun (k : Nat) => endOfList - 1 - (k : Int)), true)
  else
    -- range(end+1, start+1, 1)
    let n := (startOfList - endOfList).toNat
    ((List.range n).map (fun (k : Nat) => endOfList + 1 + (k : Int)), false)

structure SecResult where
  secList : List Str
  flags : List PyVal
  flagLines : List PyVal
  diverged : Bool := false
  deriving Inhabited

def pad2 (i : Int) : Str := pyRJust (intToStr i) 2 '0'

structure SecLoopSt where
  working : List Str := []       -- appended right-to-left (python's working_sec_list)
  foundThrough : Bool := false
  flags : List PyVal := []
  flagLines : List PyVal := []

/-- append the rightmost number `n` (or, after a 'through', the whole elided range down to it) -/
def secRangeStep (st : SecLoopSt) (n : Int) : SecLoopSt :=
  if st.foundThrough then
    let prev : Int := (pyInt? (st.working.getLast?.getD [])).getD 0
    let r := elidedRange n prev
    let st1 := if r.2 then st else
      let flag := "nonsequential_sections".toList
      let line := flag ++ "<".toList ++ intToStr n ++ " - ".toList ++ intToStr prev ++ ">".toList
      { st with flags := st.flags ++ [.str flag], flagLines := st.flagLines ++ [.tup [.str flag, .str line]] }
    { st1 with working := st1.working ++ r.1.map pad2 }
  else { st with working := st.working ++ [pad2 n] }

def secLoop (txt : Str) : Nat → Nat → SecLoopSt → SecLoopSt × Bool
  | 0, _, st => (st, true)
  | fuel+1, endpos, st =>
    match multisec.rx.search txt 0 endpos with
    | none => (st, false)
    | some mo =>
      let secNum := (getRightmost multisec "sec" mo txt).getD []
      let endpos' := if isMulti multisec "sec" mo txt == some true then startOfRightmost multisec mo else 0
      let n : Int := (pyInt? secNum).getD 0
      secLoop txt fuel endpos' { secRangeStep st n with foundThrough := thruRightmost multisec mo txt }

def unpackSections (txt : Str) : SecResult :=
  let (st, dv) := secLoop txt (txt.length + 2) txt.length {}
  { secList := st.working.reverse, flags := st.flags, flagLines := st.flagLines, diverged := dv }

/-! ### lots -/

def dictSet (d : List (Str × Str)) (k v : Str) : List (Str × Str) :=
  if d.any (fun e => e.1 == k) then d.map (fun e => if e.1 == k then (k, v) else e) else d ++ [(k, v)]

def dictGet? (d : List (Str × Str)) (k : Str) : Option Str := (d.find? (fun e => e.1 == k)).map (·.2)

def getRightmostAcreage (mo : Match) (txt : Str) : Option Str :=
  let i := startOfRightmost multilot mo
  let j := mo.stop
  match lotAcresUnpacker.rx.search txt i j with
  | none => none
  | some am =>
    match lotAcresUnpacker.group am txt "acreage" with
    | none => none
    | some a => some (a.filter (fun c => c != '[' && c != ']' && c != '(' && c != ')'))

structure LotResult where
  lotList : List Str
  lotAcres : List (Str × Str)
  flags : List PyVal
  flagLines : List PyVal
  aliquotsThrough : Int
  diverged : Bool := false
  deriving Inhabited

structure LotLoopSt where
  working : List Int := []
  foundThrough : Bool := false
  wordLotEncountered : Nat := 0
  lotAcres : List (Str × Str) := []
  flags : List PyVal := []
  flagLines : List PyVal := []

def lotName (i : Int) : Str := 'L' :: intToStr i

def lotRangeStep (st : LotLoopSt) (n : Int) : LotLoopSt :=
  if st.foundThrough then
    let prev : Int := st.working.getLast?.getD 0
    let r := elidedRange n prev
    let st0 := if r.2 then st else
      let flag := "nonsequential_lots".toList
      let line := flag ++ "<".toList ++ intToStr n ++ " - ".toList ++ intToStr prev ++ ">".toList
      { st with flags := st.flags ++ [.str flag], flagLines := st.flagLines ++ [.tup [.str flag, .str line]] }
    { st0 with working := st0.working ++ r.1 }
  else { st with working := st.working ++ [n] }

def lotAcreStep (st : LotLoopSt) (n : Int) (acreage : Option Str) : LotLoopSt :=
  match acreage with
  | none => st
  | some a =>
    let name := lotName n
    let st' : LotLoopSt := match dictGet? st.lotAcres name with
      | some old =>
        let flag := "dup_lot_acreage<".toList ++ name ++ "(".toList ++ old ++ ")>".toList
        { st with flags := st.flags ++ [PyVal.str flag], flagLines := st.flagLines ++ [PyVal.tup [.str flag, .str flag]] }
      | none => st
    { st' with lotAcres := dictSet st'.lotAcres name a }

def lotLoop (txt : Str) : Nat → Nat → LotLoopSt → LotLoopSt × Bool
  | 0, _, st => (st, true)
  | fuel+1, endpos, st =>
    match multilot.rx.search txt 0 endpos with
    | none => (st, false)
    | some mo =>
      let lotNumS := (getRightmost multilot "lot" mo txt).getD []
      let acreage := getRightmostAcreage mo txt
      let endpos' := if isMulti multilot "lot" mo txt == some true then startOfRightmost multilot mo else 0
      let n : Int := (pyInt? lotNumS).getD 0
      let st2 := lotAcreStep (lotRangeStep st n) n acreage
      let ft := thruRightmost multilot mo txt
      let st3 := { st2 with foundThrough := ft }
      let st4 := if (multilot.group mo txt "word_lot_rightmost").isSome && !ft
        then { st3 with wordLotEncountered := st3.working.length } else st3
      lotLoop txt fuel endpos' st4

def unpackLots (txt : Str) : LotResult :=
  let (st, dv) := lotLoop txt (txt.length + 2) txt.length {}
  let lots := st.working.reverse.map lotName
  { lotList := lots, lotAcres := st.lotAcres, flags := st.flags, flagLines := st.flagLines,
    aliquotsThrough := (lots.length : Int) - st.wordLotEncountered, diverged := dv }

/-! ### Twp/Rge -/

def ocrScrubAlphaToNum (t : Str) : Str :=
  Gen.OCR_REPLACEMENTS.foldl (fun acc r => pyReplace acc r.1.toList r.2.toList) t

def isLegal (tbl : List String) (d : Str) : Bool := tbl.any (fun x => x.toList == d)

def stripLeadingZerosViaInt (s : Str) : Str :=
  match pyInt? s with
  | some i => intToStr i
  | none => s

def twpPart (p : Pat) (mo : Match) (text : Str) (ocr : Bool) : Str :=
  let twp0 := (p.group mo text "twpnum").getD []
  stripLeadingZerosViaInt (if ocr then ocrScrubAlphaToNum twp0 else twp0)

def rgePart (p : Pat) (mo : Match) (text : Str) (ocr : Bool) : Str :=
  let rge0 := match p.group mo text "rgenum" with
    | some r => r
    | none => (p.group mo text "rgenum_edgecase_rge2").getD []
  stripLeadingZerosViaInt (if ocr then ocrScrubAlphaToNum rge0 else rge0)

/-- the direction letter: first character of the captured group if it participated, else the default -/
def dirPart (p : Pat) (mo : Match) (text : Str) (grp : String) (dflt : Str) : Str :=
  pyUpper (match p.group mo text grp with
    | some (c :: _) => [c]
    | _ => dflt)

/-- `unpack_twprge(mo, default_ns, default_ew, ocr_scrub)`; the defaults are already resolved
    against MasterConfig by the caller. -/
def unpackTwprge (p : Pat) (mo : Match) (text : Str) (defNS defEW : Str) (ocr : Bool) : Except PyErr Str :=
  if !isLegal Gen.LEGAL_NS defNS then .error .defaultNS
  else if !isLegal Gen.LEGAL_EW defEW then .error .defaultEW
  else .ok ("T".toList ++ twpPart p mo text ocr ++ dirPart p mo text "ns" defNS ++ "-R".toList
            ++ rgePart p mo text ocr ++ dirPart p mo text "ew" defEW)

def twprgeNaturalToShort (t : Str) : Str :=
  Gen.inl_unpackers_twprge_natural_to_short_0.sub [] (pyLower t)

def twprgeShortToNatural (t : Str) : Str :=
  let u := 'T' :: pyUpper t
  Gen.inl_unpackers_twprge_short_to_natural_0.subWith u (fun m => (m.group? u 1).getD [] ++ "-R".toList)

end PyTRS.Unpack
