/-
Model of pytrs/parser/config/config.py (Config text parsing / decompiling).
-/
import PyTRS.Model.Unpack
namespace PyTRS.Config
open PyTRS


/-- results of `str_to_value` other than None -/
inductive CV where
  | b (v : Bool) | i (v : Int) | s (v : Str)
  deriving Inhabited, BEq, Repr, DecidableEq

/-- attribute ↦ value; an absent attribute is `None` -/
abbrev Cfg := List (String × CV)

def Cfg.get (c : Cfg) (a : String) : Option CV := (c.find? (fun e => e.1 == a)).map (·.2)

def Cfg.set : Cfg → String → CV → Cfg
  | [], a, v => [(a, v)]
  | (k, x) :: t, a, v => if k == a then (a, v) :: t else (k, x) :: Cfg.set t a v

def Cfg.unset (c : Cfg) (a : String) : Cfg := c.filter (fun e => e.1 != a)

def Cfg.setOpt (c : Cfg) (a : String) (v : Option CV) : Cfg :=
  match v with | some x => c.set a x | none => c.unset a

/-- canonical form (attribute order of `_CONFIG_ATTRIBUTES`) for comparisons -/
def Cfg.canon (c : Cfg) : Cfg := Gen.CONFIG_ATTRIBUTES.filterMap (fun a => (c.get a).map (fun v => (a, v)))

def strToValue (t : Str) : Option CV :=
  if t == S "None" then none
  else if t == S "True" then some (.b true)
  else if t == S "False" then some (.b false)
  else match pyInt? t with
    | some n => some (.i n)
    | none => some (.s t)

def verifyDefault (legal : List String) (err : PyErr) (v : Str) : Except PyErr Str :=
  match pyLower v with
  | [] => .error err
  | c :: _ => if legal.any (fun l => l.toList == [c]) then .ok [c] else .error err

def isBoolAttr (a : Str) : Bool := Gen.BOOL_TYPE_ATTRIBUTES.any (fun x => x.toList == a)
def isCfgAttr (a : Str) : Bool := Gen.CONFIG_ATTRIBUTES.any (fun x => x.toList == a)

/-- the value part of `_set_str_to_values`: `Except` for the default-direction checks, `none` = leave unset -/
def valueFor (attr : Str) (value : Option Str) (defaultBool : Option Bool) : Except PyErr (Option CV) :=
  if isBoolAttr attr then
    match value with
    | none => .ok (defaultBool.map CV.b)
    | some t => .ok (strToValue t)
  else if attr == S "default_ns" then
    match value with
    | none => .ok none
    | some t => (verifyDefault Gen.LEGAL_NS .defaultNS t).map (fun d => some (CV.s d))
  else if attr == S "default_ew" then
    match value with
    | none => .ok none
    | some t => (verifyDefault Gen.LEGAL_EW .defaultEW t).map (fun d => some (CV.s d))
  else
    -- str_to_value(None) -> 'None' -> None
    .ok (match value with | none => none | some t => strToValue t)

/-- `attrib_val.split(…)`: (attribute, value?) -/
def splitAttrVal (line : Str) : Str × Option Str :=
  match Gen.inl_config_Config__set_str_to_values_0.split line with
  | [a, v] => (a, some v)
  | _ => (line, none)

/-- `_set_str_to_values(attrib_val, default_bool)` -/
def setStrToValues (c : Cfg) (line : Str) (defaultBool : Option Bool) : Except PyErr Cfg :=
  let av := splitAttrVal line
  if !isCfgAttr av.1 then .error .valueError else
  match valueFor av.1 av.2 defaultBool with
  | .error e => .error e
  | .ok (some x) => .ok (c.set (String.ofList av.1) x)
  | .ok none => .ok c

def inStrs (l : List String) (s : Str) : Bool := l.any (fun x => x.toList == s)

/-- one comma-separated item of a config text -/
def ofTextLine (c : Cfg) (line : Str) : Except PyErr Cfg :=
  if line.isEmpty then .ok c else
  let head := (Gen.inl_config_Config__text_to_attributes_2.split line).head?.getD []
  if isBoolAttr head then setStrToValues c line (some true)
  else if inStrs Gen.LEGAL_NS line then .ok (c.set "default_ns" (.s line))
  else if inStrs Gen.LEGAL_EW line then .ok (c.set "default_ew" (.s line))
  else if inStrs Gen.IMPLEMENTED_LAYOUTS line then .ok (c.set "layout" (.s line))
  else setStrToValues c line none

def ofTextLines : Cfg → List Str → Except PyErr Cfg
  | c, [] => .ok c
  | c, line :: rest =>
    match ofTextLine c line with
    | .error e => .error e
    | .ok c' => ofTextLines c' rest

/-- the items of a config text: white space removed, split at ',' / ';' -/
def textItems (text : Str) : List Str :=
  Gen.inl_config_Config__text_to_attributes_1.split (Gen.inl_config_Config__text_to_attributes_0.sub [] text)

/-- `Config(config_text)._text_to_attributes` -/
def ofText (text : Str) : Except PyErr Cfg := ofTextLines [] (textItems text)

def cvTruthy : CV → Bool
  | .b v => v
  | .i n => n != 0
  | .s t => !t.isEmpty

def cvFormat : CV → Str
  | .b true => S "True"
  | .b false => S "False"
  | .i n => intToStr n
  | .s t => t

/-- `attrib_and_val_to_str` -/
def attribAndValToStr (a : String) (v : Option CV) : Str :=
  match v with
  | none => []
  | some x =>
    if isBoolAttr a.toList then (if cvTruthy x then a.toList else a.toList ++ S "." ++ cvFormat x)
    else if a == "default_ns" || a == "default_ew" then
      (match x with | .s (c :: _) => [c] | other => (cvFormat other).take 1)
    else a.toList ++ S "." ++ cvFormat x

def toText (c : Cfg) : Str :=
  pyJoin (S ",") ((Gen.CONFIG_ATTRIBUTES.map (fun a => attribAndValToStr a (c.get a))).filter (fun w => !w.isEmpty))

/-- well-formed configurations: what a user means by a configuration (typed values) -/
def wellFormedEntry (e : String × CV) : Bool :=
  let a := e.1
  if isBoolAttr a.toList then (match e.2 with | .b _ => true | _ => false)
  else if Gen.INT_TYPE_ATTRIBUTES.contains a then (match e.2 with | .i _ => true | _ => false)
  else if a == "default_ns" then (match e.2 with | .s t => t == S "n" || t == S "s" | _ => false)
  else if a == "default_ew" then (match e.2 with | .s t => t == S "e" || t == S "w" | _ => false)
  else if a == "layout" then (match e.2 with | .s t => inStrs Gen.IMPLEMENTED_LAYOUTS t | _ => false)
  else false

def renderCfg (c : Cfg) : PyVal :=
  .dict (c.canon.map (fun e => (.str e.1.toList, match e.2 with | .b v => .bool v | .i n => .int n | .s t => .str t)))

end PyTRS.Config
