/-
Model of pytrs/parser/config/config.py (Config text parsing / decompiling).
-/
import PyTRS.Model.Unpack
namespace PyTRS.Config
open PyTRS


/-- results of `str_to_value` other than None -/
inductive CV where
  | b (v : Bool) | i (v : Int) | s (v : Str)
  deriving Inhabited, BEq, Repr, DecidableEq

/-- attribute ↦ value; an absent attribute is `None` -/
abbrev Cfg := List (String × CV)

def Cfg.get (c : Cfg) (a : String) : Option CV := (c.find? (fun e => e.1 == a)).map (·.2)

def Cfg.set : Cfg → String → CV → Cfg
  | [], a, v => [(a, v)]
  | (k, x) :: t, a, v => if k == a then (a, v) :: t else (k, x) :: Cfg.set t a v

def Cfg.unset (c : Cfg) (a : String) : Cfg := c.filter (fun e => e.1 != a)

def Cfg.setOpt (c : Cfg) (a : String) (v : Option CV) : Cfg :=
  match v with | some x => c.set a x | none => c.unset a

/-- canonical form (attribute order of `_CONFIG_ATTRIBUTES`) for comparisons -/
def Cfg.canon (c : Cfg) : Cfg := Gen.CONFIG_ATTRIBUTES.filterMap (fun a => (c.get a).map (fun v => (a, v)))

def strToValue (t : Str) : Option CV :=
  if t == S "None" then none
  else if t == S "True" then some (.b true)
  else if t == S "False" then some (.b false)
  else match pyInt? t with
    | some n => some (.i n)
    | none => some (.s t)

def verifyDefault (legal : List String) (err : PyErr) (v : Str) : Except PyErr Str :=
  match pyLower v with
  | [] => .error err
  | c :: _ => if legal.any (fun l => l.toList == [c]) then .ok [c] else .error err

def isBoolAttr (a : Str) : Bool := Gen.BOOL_TYPE_ATTRIBUTES.any (fun x => x.toList == a)
def isCfgAttr (a : Str) : Bool := Gen.CONFIG_ATTRIBUTES.any (fun x => x.toList == a)

/-- `_set_str_to_values(attrib_val, default_bool)` -/
def setStrToValues (c : Cfg) (line : Str) (defaultBool : Option Bool) : Except PyErr Cfg := do
  let parts := Gen.inl_config_Config__set_str_to_values_0.split line
  let (attr, value) : Str × Option Str := match parts with
    | [a, v] => (a, some v)
    | _ => (line, none)
  if !isCfgAttr attr then throw .valueError
  let an := String.ofList attr
  let v : Option CV ←
    if isBoolAttr attr then
      match value with
      | none => pure (defaultBool.map CV.b)
      | some t => pure (strToValue t)
    else if an == "default_ns" then
      match value with
      | none => pure none
      | some t => do let d ← verifyDefault Gen.LEGAL_NS .defaultNS t; pure (some (CV.s d))
    else if an == "default_ew" then
      match value with
      | none => pure none
      | some t => do let d ← verifyDefault Gen.LEGAL_EW .defaultEW t; pure (some (CV.s d))
    else
      -- str_to_value(None) -> 'None' -> None
      pure (match value with | none => none | some t => strToValue t)
  match v with
  | some x => return c.set an x
  | none => return c

def inStrs (l : List String) (s : Str) : Bool := l.any (fun x => x.toList == s)

/-- `Config(config_text)._text_to_attributes` -/
def ofText (text : Str) : Except PyErr Cfg := do
  let t := Gen.inl_config_Config__text_to_attributes_0.sub [] text
  let lines := Gen.inl_config_Config__text_to_attributes_1.split t
  let mut c : Cfg := []
  for line in lines do
    if line.isEmpty then continue
    let head := (Gen.inl_config_Config__text_to_attributes_2.split line).head?.getD []
    if isBoolAttr head then c ← setStrToValues c line (some true)
    else if inStrs Gen.LEGAL_NS line then c := c.set "default_ns" (.s line)
    else if inStrs Gen.LEGAL_EW line then c := c.set "default_ew" (.s line)
    else if inStrs Gen.IMPLEMENTED_LAYOUTS line then c := c.set "layout" (.s line)
    else c ← setStrToValues c line none
  return c

def cvTruthy : CV → Bool
  | .b v => v
  | .i n => n != 0
  | .s t => !t.isEmpty

def cvFormat : CV → Str
  | .b true => S "True"
  | .b false => S "False"
  | .i n => intToStr n
  | .s t => t

/-- `attrib_and_val_to_str` -/
def attribAndValToStr (a : String) (v : Option CV) : Str :=
  match v with
  | none => []
  | some x =>
    if isBoolAttr a.toList then (if cvTruthy x then a.toList else a.toList ++ S "." ++ cvFormat x)
    else if a == "default_ns" || a == "default_ew" then
      (match x with | .s (c :: _) => [c] | other => (cvFormat other).take 1)
    else a.toList ++ S "." ++ cvFormat x

def toText (c : Cfg) : Str :=
  pyJoin (S ",") ((Gen.CONFIG_ATTRIBUTES.map (fun a => attribAndValToStr a (c.get a))).filter (fun w => !w.isEmpty))

/-- well-formed configurations: what a user means by a configuration (typed values) -/
def wellFormedEntry (e : String × CV) : Bool :=
  let a := e.1
  if isBoolAttr a.toList then (match e.2 with | .b _ => true | _ => false)
  else if Gen.INT_TYPE_ATTRIBUTES.contains a then (match e.2 with | .i _ => true | _ => false)
  else if a == "default_ns" then (match e.2 with | .s t => t == S "n" || t == S "s" | _ => false)
  else if a == "default_ew" then (match e.2 with | .s t => t == S "e" || t == S "w" | _ => false)
  else if a == "layout" then (match e.2 with | .s t => inStrs Gen.IMPLEMENTED_LAYOUTS t | _ => false)
  else false

def renderCfg (c : Cfg) : PyVal :=
  .dict (c.canon.map (fun e => (.str e.1.toList, match e.2 with | .b v => .bool v | .i n => .int n | .s t => .str t)))

end PyTRS.Config
