/-
Model of pytrs/parser/tract/tract_preprocess.py and tract_parse.py.
-/
import PyTRS.Model.Unpack
import PyTRS.Model.Aliquot
namespace PyTRS.Tract
open PyTRS PyTRS.Unpack

def findRx (name : String) : Pat :=
  match Gen.patterns.find? (fun p => p.1 == name) with
  | some p => ⟨p.2.1, p.2.2.1, p.2.2.2⟩
  | none => ⟨.fail, [], 0⟩

/-- substitute-until-stable; `none` = fuel exhausted (Python would still be looping) -/
def untilStable (f : Str → Str) : Nat → Str → Option Str
  | 0, _ => none
  | fuel+1, txt =>
    let new := f txt
    if new == txt then some txt else untilStable f fuel new

def stableBudget (t : Str) : Nat := 2 * t.length + 8

/-- `sub_scrubber(txt, rgx)`: Python's loop starts from `new_txt=''`, so an empty text returns ''. -/
def subScrubber (rgxName : String) (txt : Str) : Option Str :=
  let repl := ((Gen.QQ_SCRUBBER_DEFINITIONS.find? (fun d => d.1 == rgxName)).map (·.2)).getD ""
  let p := findRx rgxName
  untilStable (fun t => p.rx.sub repl.toList t) (stableBudget txt) txt

def halfPlusQ : Pat := ⟨Gen.half_plus_q_regex, Gen.half_plus_q_regex_groups, Gen.half_plus_q_regex_ngroups⟩

def processHalfPlusQMatch (txt : Str) (mo : Match) : Str :=
  let cmp := halfPlusQ.group mo txt "quarter_aliquot_rightmost"
  let pick (g : String) := cmp.isSome && halfPlusQ.group mo txt g == cmp
  let q : Str :=
    if pick "ne_found" then "NE¼".toList
    else if pick "nw_found" then "NW¼".toList
    else if pick "se_found" then "SE¼".toList
    else if pick "sw_found" then "SW¼".toList
    else []
  let whole := mo.group0 txt
  let n := (cmp.getD []).length
  -- replace_with[:-n]
  (if n == 0 then [] else whole.take (whole.length - n)) ++ q

def halfPlusQScrubber (txt : Str) : Option Str :=
  untilStable (fun t => halfPlusQ.rx.subWith t (processHalfPlusQMatch t)) (stableBudget txt) txt

def intervenerRemover : Pat :=
  ⟨Gen.aliquot_intervener_remover_regex, Gen.aliquot_intervener_remover_regex_groups, Gen.aliquot_intervener_remover_regex_ngroups⟩

def removeAliquotInterveners (txt : Str) : Option Str :=
  untilStable (fun t => intervenerRemover.rx.subWith t (fun m =>
      (intervenerRemover.group m t "aliquot1").getD [] ++ (intervenerRemover.group m t "aliquot2").getD []))
    (stableBudget txt) txt

def scrubAll (names : List String) (txt : Str) : Option Str :=
  names.foldlM (fun t r => subScrubber r t) txt

def scrubAliquots (txt : Str) (cleanQQ : Bool) : Option Str :=
  match scrubAll Gen.QQ_SCRUBBER_REGEXES txt with
  | none => none
  | some t =>
    match (if cleanQQ then scrubAll Gen.QQ_CLEAN_REGEXES t else some t) with
    | none => none
    | some t =>
      match halfPlusQScrubber t with
      | none => none
      | some t => removeAliquotInterveners t

def removeFractions (a : Str) : Str :=
  pyReplace (pyReplace a "¼".toList []) "½".toList "2".toList

/-! ### TractParser -/

structure Flags where
  w : List PyVal := []
  wl : List PyVal := []
  e : List PyVal := []
  el : List PyVal := []
  deriving Inhabited, BEq, Repr

structure ParseArgs where
  cleanQQ : Bool := false
  suppressLotDivs : Bool := false
  depth : Aliquot.DepthArgs := {}
  deriving Inhabited, Repr

structure ParseResult where
  text : Str                     -- preprocessed text (`pp_desc`)
  lots : List Str
  qqs : List Str
  lotAcres : List (Str × Str)
  aliquotsWhole : List Str
  flags : Flags
  diverged : Bool := false
  deriving Inhabited

def multilotWithAliquot : Pat :=
  ⟨Gen.multilot_with_aliquot_regex, Gen.multilot_with_aliquot_regex_groups, Gen.multilot_with_aliquot_regex_ngroups⟩
def aliquotUnpacker : Pat :=
  ⟨Gen.aliquot_unpacker_regex, Gen.aliquot_unpacker_regex_groups, Gen.aliquot_unpacker_regex_ngroups⟩
def allRx : Pat := ⟨Gen.all_regex, Gen.all_regex_groups, Gen.all_regex_ngroups⟩

/-- first extraction loop: (lot text, leading aliquot?) blocks, and the text with `;;` patches -/
def extractLots : Nat → Str → List (Str × Option Str) → Option (Str × List (Str × Option Str))
  | 0, _, _ => none
  | fuel+1, remaining, acc =>
    match multilotWithAliquot.rx.search remaining with
    | none => some (remaining, acc)
    | some mo =>
      let leading := multilotWithAliquot.group mo remaining "aliquot"
      let lotText := (multilotWithAliquot.group mo remaining "lots").getD []
      let rem' := remaining.take mo.start ++ ";;".toList ++ remaining.drop mo.stop
      extractLots fuel rem' (acc ++ [(lotText, leading)])

def extractAliquots : Nat → Str → List Str → Option (Str × List Str)
  | 0, _, _ => none
  | fuel+1, remaining, acc =>
    match aliquotUnpacker.rx.search remaining with
    | none => some (remaining, acc)
    | some mo =>
      let block := mo.group0 remaining
      let rem' := remaining.take mo.start ++ ";;".toList ++ remaining.drop mo.stop
      extractAliquots fuel rem' (acc ++ [block])

def findDuplicates (l : List Str) : List Str :=
  -- (for the last element `lst[i:]` is empty, so Python's early `break` changes nothing)
  let rec go : List Str → List Str
    | [] => []
    | x :: rest => if rest.contains x then x :: go rest else go rest
  go l

def listSet {α} (l : List α) (i : Nat) (v : α) : List α := l.set i v

def applyLeading (lead : Str) (lots : List Str) (through : Int) : Except PyErr (List Str) :=
  -- for idx in range(aliquots_through): new_lots[idx] = ...   (IndexError if idx ≥ len; negative index wraps)
  let n := through.toNat
  if n > lots.length then .error .indexError else
  .ok (lots.mapIdx (fun i l => if i < n then lead ++ " of ".toList ++ l else l))

def addW (fl : Flags) (flag ctx : Str) : Flags :=
  { fl with w := fl.w ++ [.str flag], wl := fl.wl ++ [.tup [.str flag, .str ctx]] }

/-- `for lot, acres in lot_acres.items()`: a lot whose acreage was already stated raises `dup_lot_acreage`
    (the new acreage then overwrites the old) -/
def acreStep (st : Flags × List (Str × Str)) (la : Str × Str) : Flags × List (Str × Str) :=
  let fl := match dictGet? st.2 la.1 with
    | some old =>
      let flag := "dup_lot_acreage<".toList ++ la.1 ++ "(".toList ++ old ++ ")>".toList
      addW st.1 flag flag
    | none => st.1
  (fl, dictSet st.2 la.1 la.2)

structure LotAcc where
  fl : Flags
  lots : List Str := []
  lotAcres : List (Str × Str) := []
  dv : Bool := false

/-- the lots of one lot block, qualified by the aliquot written directly before it (unless suppressed) -/
def blockLots (a : ParseArgs) (u : LotResult) (leading : Option Str) : Except PyErr (List Str) :=
  match leading with
  | some lead => if !a.suppressLotDivs then applyLeading (removeFractions lead) u.lotList u.aliquotsThrough else .ok u.lotList
  | none => .ok u.lotList

/-- one lot block of the first extraction loop -/
def lotBlockStep (a : ParseArgs) (st : LotAcc) (bl : Str × Option Str) : Except PyErr LotAcc :=
  let u := unpackLots bl.1
  let fl : Flags := { st.fl with w := st.fl.w ++ u.flags, wl := st.fl.wl ++ u.flagLines }
  match blockLots a u bl.2 with
  | .error e => .error e
  | .ok newLots =>
    let r := u.lotAcres.foldl acreStep (fl, st.lotAcres)
    .ok { fl := r.1, lots := st.lots ++ newLots, lotAcres := r.2, dv := st.dv || u.diverged }

def lotBlocksFold (a : ParseArgs) : LotAcc → List (Str × Option Str) → Except PyErr LotAcc
  | st, [] => .ok st
  | st, bl :: rest =>
    match lotBlockStep a st bl with
    | .error e => .error e
    | .ok st' => lotBlocksFold a st' rest

/-- the aliquot blocks to parse: those found, plus 'ALL' when the leftover text says so -/
def aliquotBlocksOf (aliquotBlocks : List Str) (rem2 : Str) : List Str :=
  let check := pyStrip (Gen.inl_tract_parse_TractParser_parse_0.sub " ".toList rem2)
  match allRx.rx.search check with
  | some mo => if (allRx.group mo check "context").isNone then aliquotBlocks ++ ["ALL".toList] else aliquotBlocks
  | none => aliquotBlocks

/-- the QQs of every block, concatenated in order; the Bool reports a diverged standardisation -/
def qqsOf (depth : Aliquot.DepthArgs) (blocks : List Str) : List Str × Bool :=
  blocks.foldl (fun st b => match Aliquot.parseAliquot b depth with
    | some q => (st.1 ++ q, st.2)
    | none => (st.1, true)) ([], false)

/-- `gen_flags`: duplicate lots / QQs -/
def dupFlags (fl : Flags) (lots qqs : List Str) : Flags :=
  let dupLots := findDuplicates lots
  let dupQQs := findDuplicates qqs
  let fl := if !dupLots.isEmpty then
      let flag := "dup_lot<".toList ++ pyJoin ",".toList dupLots ++ ">".toList
      addW fl flag flag
    else fl
  if !dupQQs.isEmpty then
    let flag := "dup_qq<".toList ++ pyJoin ",".toList dupQQs ++ ">".toList
    addW fl flag flag
  else fl

def tractParseRaw (origText : Str) (a : ParseArgs) (inherited : Flags) : Except PyErr ParseResult :=
  match scrubAliquots origText a.cleanQQ with
  | none => .ok { text := origText, lots := [], qqs := [], lotAcres := [], aliquotsWhole := [], flags := inherited, diverged := true }
  | some text =>
    match extractLots (text.length + 2) text [] with
    | none => .ok { text := text, lots := [], qqs := [], lotAcres := [], aliquotsWhole := [], flags := inherited, diverged := true }
    | some (rem1, lotBlocks) =>
      match lotBlocksFold a { fl := inherited } lotBlocks with
      | .error e => .error e
      | .ok st =>
        match extractAliquots (rem1.length + 2) rem1 [] with
        | none => .ok { text := text, lots := st.lots, qqs := [], lotAcres := st.lotAcres, aliquotsWhole := [], flags := st.fl, diverged := true }
        | some (rem2, aliquotBlocks) =>
          let q := qqsOf a.depth (aliquotBlocksOf aliquotBlocks rem2)
          .ok { text := text, lots := st.lots, qqs := q.1, lotAcres := st.lotAcres,
                aliquotsWhole := aliquotBlocks.map removeFractions,
                flags := dupFlags st.fl st.lots q.1, diverged := st.dv || q.2 }

def Flags.append (a b : Flags) : Flags := { w := a.w ++ b.w, wl := a.wl ++ b.wl, e := a.e ++ b.e, el := a.el ++ b.el }

/-- what a TractParser computes from the text and settings alone (its *own* flags) -/
def tractParseOwn (origText : Str) (a : ParseArgs) : Except PyErr ParseResult := tractParseRaw origText a {}

/-- `TractParser(text, …, parent)`: the parent's (inherited) flags come first, the parser only ever appends -/
def tractParse (origText : Str) (a : ParseArgs) (inherited : Flags) : Except PyErr ParseResult :=
  match tractParseOwn origText a with
  | .error e => .error e
  | .ok r => .ok { r with flags := inherited.append r.flags }

/-- `Tract.ilots`: `int(lt.split('L')[-1])` -/
def ilots (lots : List Str) : Except PyErr (List Int) :=
  lots.mapM (fun lt =>
    match pyInt? ((pySplitChar 'L' lt).getLast?.getD []) with
    | some i => .ok i
    | none => .error .valueError)

end PyTRS.Tract
