/-
L0 — an executable, total, backtracking regular-expression semantics that
mirrors CPython's `re` (sre) on the operator subset used by pyTRS.

No imports: this file (and everything under `PyTRS/Model`, `PyTRS/Gen`) is
compiled into the line-protocol driver.

Design notes (DESIGN.md §3):
* continuation-passing backtracking matcher `Rx.m`, structural on `Rx`;
* greedy repeat = sre's REPEAT/MAX_UNTIL: while `count < lo` iterate
  unconditionally; afterwards try one more iteration iff `count < hi` and the
  position differs from the position at which the previous extra iteration
  was started (`last`), else run the tail;
* captures: association list, newest first, never cleared — a capture from an
  earlier iteration survives later iterations that do not set it, exactly as
  sre's mark array does; backtracking restores because states are values;
* `search/finditer/sub/split` with `pos/endpos` and the 3.7+ empty-match rule.
-/
namespace PyTRS

/-- inclusive code-point ranges -/
abbrev CharSet := List (Nat × Nat)

def CharSet.mem (cs : CharSet) (c : Char) : Bool :=
  cs.any (fun r => r.1 ≤ c.toNat && c.toNat ≤ r.2)

inductive Rx where
  | eps
  | fail
  | chr (s : CharSet)
  | seq (a b : Rx)
  | alt (a b : Rx)
  | rep (r : Rx) (lo : Nat) (hi : Option Nat)      -- greedy
  | grp (i : Nat) (r : Rx)
  | ahead (r : Rx)
  | nahead (r : Rx)                                -- negative look-ahead `(?!…)`
  | behind (s : CharSet)                           -- width-1 look-behind
  | wordb (w : CharSet)                            -- \b, `w` = the runtime's \w
  | eos                                            -- `$` (no MULTILINE)
  | bos                                            -- `^` (no MULTILINE)
  deriving Repr, Inhabited, BEq

def Rx.seqs : List Rx → Rx
  | [] => .eps
  | [r] => r
  | r :: rs => .seq r (Rx.seqs rs)

def Rx.alts : List Rx → Rx
  | [] => .fail
  | [r] => r
  | r :: rs => .alt r (Rx.alts rs)

structure St where
  prev : Option Char          -- the character before the cursor
  rest : List Char            -- text from the cursor up to `endpos`
  pos  : Nat
  caps : List (Nat × Nat × Nat)   -- (group, start, end), newest first
  deriving Repr, Inhabited

def isWord (w : CharSet) : Option Char → Bool
  | none => false
  | some c => w.mem c

/-- may another (optional) iteration be attempted after `count` iterations? -/
def canMore : Option Nat → Nat → Bool
  | none, _ => true
  | some h, count => count < h

/-- sre's MAX_UNTIL loop.  `count` iterations done; `last` = position at
which the previous *optional* iteration was started. -/
def repLoop {R : Type} (body : St → (St → Option R) → Option R)
    (lo : Nat) (hi : Option Nat) :
    Nat → Nat → Option Nat → St → (St → Option R) → Option R
  | 0, _, _, _, _ => none
  | fuel+1, count, last, s, k =>
    if count < lo then
      body s (fun s' => repLoop body lo hi fuel (count+1) last s' k)
    else if canMore hi count && last != some s.pos then
      match body s (fun s' => repLoop body lo hi fuel (count+1) (some s.pos) s' k) with
      | some r => some r
      | none => k s
    else k s

def Rx.m {R : Type} : Rx → St → (St → Option R) → Option R
  | .eps, s, k => k s
  | .fail, _, _ => none
  | .chr cs, s, k =>
    match s.rest with
    | c :: t => if cs.mem c then k { prev := some c, rest := t, pos := s.pos + 1, caps := s.caps } else none
    | [] => none
  | .seq a b, s, k => a.m s (fun s' => b.m s' k)
  | .alt a b, s, k =>
    match a.m s k with
    | some r => some r
    | none => b.m s k
  | .rep r lo hi, s, k => repLoop r.m lo hi (s.rest.length + lo + 2) 0 none s k
  | .grp i r, s, k => r.m s (fun s' => k { s' with caps := (i, s.pos, s'.pos) :: s'.caps })
  | .ahead r, s, k =>
    match r.m (R := St) s some with
    | some s' => k { s with caps := s'.caps }
    | none => none
  | .nahead r, s, k =>
    -- `(?!r)`: succeeds, consuming nothing and keeping no capture, exactly when `r` cannot match here
    match r.m (R := St) s some with
    | some _ => none
    | none => k s
  | .behind cs, s, k =>
    match s.prev with
    | some c => if cs.mem c then k s else none
    | none => none
  | .wordb w, s, k =>
    if isWord w s.prev != isWord w s.rest.head? then k s else none
  | .eos, s, k =>
    match s.rest with
    | [] => k s
    | [c] => if c == '\n' then k s else none
    | _ => none
  | .bos, s, k => if s.pos == 0 then k s else none

structure Match where
  start : Nat
  stop  : Nat
  caps  : List (Nat × Nat × Nat)
  deriving Repr, Inhabited

def Match.span? (m : Match) (g : Nat) : Option (Nat × Nat) :=
  if g == 0 then some (m.start, m.stop) else
  match m.caps.find? (fun c => c.1 == g) with
  | some c => some c.2
  | none => none

def slice (t : List Char) (a b : Nat) : List Char := (t.take b).drop a

def Match.group? (m : Match) (t : List Char) (g : Nat) : Option (List Char) :=
  match m.span? g with
  | some (a, b) => some (slice t a b)
  | none => none

def Match.group0 (m : Match) (t : List Char) : List Char := slice t m.start m.stop

/-- try to match exactly at the state `s`; `adv` = sre's must_advance. -/
def matchHere (r : Rx) (s : St) (adv : Bool) : Option Match :=
  r.m s (fun s' => if adv && s'.pos == s.pos then none else some ⟨s.pos, s'.pos, s'.caps⟩)

/-- leftmost match at or after the cursor -/
def scan (r : Rx) : Option Char → List Char → Nat → Bool → Option Match
  | prev, rest, pos, adv =>
    match matchHere r ⟨prev, rest, pos, []⟩ adv with
    | some m => some m
    | none =>
      match rest with
      | [] => none
      | c :: t => scan r (some c) t (pos + 1) false

/-- the cursor state of `text[:endpos]` at `pos` -/
def cursorAt (text : List Char) (pos endpos : Nat) : Option Char × List Char :=
  let t := text.take endpos
  (if pos == 0 then none else t[pos - 1]?, t.drop pos)

def Rx.search (r : Rx) (text : List Char) (pos : Nat := 0) (endpos : Nat := text.length) : Option Match :=
  if pos > min endpos text.length then none else
  let (p, rest) := cursorAt text pos endpos
  scan r p rest pos false

def Rx.matchAt (r : Rx) (text : List Char) (pos : Nat := 0) (endpos : Nat := text.length) : Option Match :=
  if pos > min endpos text.length then none else
  let (p, rest) := cursorAt text pos endpos
  matchHere r ⟨p, rest, pos, []⟩ false

def Rx.fullmatch (r : Rx) (text : List Char) : Option Match :=
  r.m ⟨none, text, 0, []⟩ (fun s' => if s'.rest.isEmpty then some ⟨0, s'.pos, s'.caps⟩ else none)

def advance : Option Char → List Char → Nat → Option Char × List Char
  | p, r, 0 => (p, r)
  | p, [], _ => (p, [])
  | _, c :: t, n+1 => advance (some c) t n

def finditerAux (r : Rx) : Nat → Option Char → List Char → Nat → Bool → List Match
  | 0, _, _, _, _ => []
  | fuel+1, prev, rest, pos, adv =>
    match scan r prev rest pos adv with
    | none => []
    | some m =>
      let (p', r') := advance prev rest (m.stop - pos)
      m :: finditerAux r fuel p' r' m.stop (m.stop == m.start)

def Rx.finditer (r : Rx) (text : List Char) (pos : Nat := 0) (endpos : Nat := text.length) : List Match :=
  if pos > min endpos text.length then [] else
  let (p, rest) := cursorAt text pos endpos
  finditerAux r (2 * rest.length + 2) p rest pos false

/-- `re.sub` with a replacement computed from the match -/
def Rx.subWith (r : Rx) (text : List Char) (f : Match → List Char) : List Char :=
  let ms := r.finditer text
  let rec go (ms : List Match) (i : Nat) (acc : List Char) : List Char :=
    match ms with
    | [] => acc ++ text.drop i
    | m :: ms' => go ms' m.stop (acc ++ slice text i m.start ++ f m)
  go ms 0 []

def Rx.sub (r : Rx) (repl text : List Char) : List Char := r.subWith text (fun _ => repl)

/-- `re.split` for patterns without capturing groups (the only use in pyTRS) -/
def Rx.split (r : Rx) (text : List Char) : List (List Char) :=
  let ms := r.finditer text
  let rec go (ms : List Match) (i : Nat) (acc : List (List Char)) : List (List Char) :=
    match ms with
    | [] => acc ++ [text.drop i]
    | m :: ms' => go ms' m.stop (acc ++ [slice text i m.start])
  go ms 0 []

/-! ### structural predicates used by theorems and by the cost analysis -/

/-- no construct that looks outside the matched span -/
def Rx.anchorFree : Rx → Bool
  | .eps | .fail | .chr _ => true
  | .seq a b | .alt a b => a.anchorFree && b.anchorFree
  | .rep r _ _ | .grp _ r => r.anchorFree
  | .ahead _ | .nahead _ | .behind _ | .wordb _ | .eos | .bos => false

/-- minimum width of a match (as `sre`'s getwidth lower bound) -/
def Rx.minWidth : Rx → Nat
  | .eps => 0
  | .fail => 0
  | .chr _ => 1
  | .seq a b => a.minWidth + b.minWidth
  | .alt a b => min a.minWidth b.minWidth
  | .rep r lo _ => lo * r.minWidth
  | .grp _ r => r.minWidth
  | .ahead _ | .nahead _ | .behind _ | .wordb _ | .eos | .bos => 0

/-- a single-character body (possibly wrapped in groups) -/
def Rx.isChr : Rx → Bool
  | .chr _ => true
  | _ => false

/-- "Safe": every *unbounded* repeat has a single-character body. -/
def Rx.safe : Rx → Bool
  | .eps | .fail | .chr _ | .behind _ | .wordb _ | .eos | .bos => true
  | .seq a b | .alt a b => a.safe && b.safe
  | .rep r _ (some _) => r.safe
  | .rep r _ none => r.isChr
  | .grp _ r => r.safe
  | .ahead r | .nahead r => r.safe

/-- number of unbounded repeats (a crude degree bound for the cost polynomial) -/
def Rx.stars : Rx → Nat
  | .eps | .fail | .chr _ | .behind _ | .wordb _ | .eos | .bos => 0
  | .seq a b => a.stars + b.stars
  | .alt a b => max a.stars b.stars
  | .rep r _ (some h) => h * r.stars
  | .rep r _ none => 1 + r.stars
  | .grp _ r | .ahead r | .nahead r => r.stars

end PyTRS
