import PyTRS.Rx
import PyTRS.Gen.Patterns
import PyTRS.Gen.Tables
