/-
Line-protocol driver.  One request per line: `op<TAB>field<TAB>field…`.
Text fields are dot-separated hexadecimal code points (`~` = None, empty = "");
numbers are decimal.  One canonical response line per request.
-/
import PyTRS.Rx
import PyTRS.PyStr
import PyTRS.Gen.Patterns
import PyTRS.DriverOps
open PyTRS

partial def loop (h : IO.FS.Stream) (out : IO.FS.Stream) : IO Unit := do
  let line ← h.getLine
  if line.isEmpty then return ()
  let l := (line.dropRightWhile (fun c => c == '\n' || c == '\r'))
  let resp := Driver.handle (l.splitOn "\t")
  out.putStrLn resp
  loop h out

def main : IO Unit := do
  let stdin ← IO.getStdin
  let stdout ← IO.getStdout
  loop stdin stdout
  stdout.flush
