/-
Line-protocol driver.  One request per line: `op<TAB>field<TAB>field…`.
Text fields are dot-separated hexadecimal code points (`~` = None, empty = "");
numbers are decimal.  One canonical response line per request.
-/
import PyTRS.Rx
import PyTRS.PyStr
import PyTRS.Gen.Patterns
import PyTRS.DriverOps
open PyTRS

def chomp (s : String) : String :=
  String.ofList ((s.toList.reverse.dropWhile (fun c => c == '\n' || c == '\r')).reverse)

partial def loop (h : IO.FS.Stream) (out : IO.FS.Stream) (w : Driver.DState) : IO Unit := do
  let line ← h.getLine
  if line.isEmpty then return ()
  let (w', resp) := Driver.handleW w ((chomp line).splitOn "\t")
  out.putStrLn resp
  loop h out w'

def main : IO Unit := do
  let stdin ← IO.getStdin
  let stdout ← IO.getStdout
  loop stdin stdout {}
  stdout.flush
