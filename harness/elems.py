"""element lists for the container properties (C17, C18, C19)"""

def rand_trs(r):
    k = r.below(12)
    if k == 0:
        return 'XXXzXXXzXX'
    if k == 1:
        return '___z___z__'
    if k == 2:
        return r.choice(['XXXz97w14', '154nXXXz01', '154n97wXX', '___z97w14', '154n___z__', '154n97w__', 'garbage'])
    # zero is a valid number for each component (Township 0 North, Section 00): it sorts first, not with the errors
    t = r.choice([0, 1, 2, 2, 3, 10, 154])
    rg = r.choice([0, 1, 2, 2, 3, 97])
    s = r.choice([0, 1, 1, 2, 3, 14, 36])
    return f"{t}{r.choice('nnns')}{rg}{r.choice('wwwe')}{s:02d}"


DESCS = ['NE/4', 'Lots 1 - 3', 'N/2, Lot 1', 'That part north of the river', 'ALL', 'Lot 1, Lot 1', 'S/2 N/2', 'NE/4 ']


def rand_specs(r, n=None, kind=None):
    n = r.range(0, 10) if n is None else n
    kind = kind or r.choice(['t', 't', 'r'])
    uids = list(range(n))
    r.shuffle(uids)
    specs = []
    pool = [rand_trs(r) for _ in range(max(1, n // 2 + 1))]
    for i in range(n):
        trs = r.choice(pool) if r.chance(2, 3) else rand_trs(r)
        if kind == 't':
            base = r.choice(DESCS)
            desc = f"{base} #{i}" if r.chance(2, 3) else base
            specs.append(('t', uids[i], trs, desc, r.chance(1, 2), None))
        else:
            specs.append(('r', trs))
    return specs
