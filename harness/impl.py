"""
Adapters that call the real pyTRS code in-process and render the observables exactly as the
Lean driver does (common.render), one function per driver op.
"""
import warnings

from common import render, render_exc, enc_text, enc_bool, enc_opt_int, req

import pytrs
from pytrs.parser.tract.aliquot_parse import parse_aliquot, standardize_aliquot_components
from pytrs.parser.tract.tract_parse import TractParser
from pytrs.parser.tract.tract_preprocess import scrub_aliquots
from pytrs.parser.unpack.unpackers import (SecUnpacker, LotUnpacker, twprge_natural_to_short,
                                           twprge_short_to_natural)
from pytrs.parser.trs.trs import TRS

warnings.simplefilter('ignore')


def guard(f):
    def g(*a, **k):
        try:
            return f(*a, **k)
        except RecursionError as e:
            return render_exc(e)
        except Exception as e:  # noqa
            return render_exc(e)
    return g


# ---- aliquot.parse
def line_aliquot_parse(text, mn, mx, d, bh):
    return req('aliquot.parse', enc_text(text), str(mn), enc_opt_int(mx), enc_opt_int(d), enc_bool(bh))


@guard
def impl_aliquot_parse(text, mn, mx, d, bh):
    return render(parse_aliquot(text, mn, mx, d, bh))


def line_aliquot_std(comps):
    return req('aliquot.std', enc_text(','.join(comps)))


@guard
def impl_aliquot_std(comps):
    return render(standardize_aliquot_components(list(comps)))


# ---- unpackers
def line_sec_unpack(t):
    return req('sec.unpack', enc_text(t))


@guard
def impl_sec_unpack(t):
    u = SecUnpacker(t)
    return render((u.sec_list, u.flags, u.flag_lines))


def line_lot_unpack(t):
    return req('lot.unpack', enc_text(t))


@guard
def impl_lot_unpack(t):
    u = LotUnpacker(t)
    return render((u.lot_list, u.lot_acres, u.flags, u.flag_lines, u.aliquots_through))


# ---- tract
def line_tract_pp(t, clean):
    return req('tract.pp', enc_text(t), enc_bool(clean))


@guard
def impl_tract_pp(t, clean):
    return render(scrub_aliquots(t, clean))


def line_tract_parse(t, clean, sup, mn, mx, d, bh):
    return req('tract.parse', enc_text(t), enc_bool(clean), enc_bool(sup), str(mn), enc_opt_int(mx), enc_opt_int(d), enc_bool(bh))


@guard
def impl_tract_parse(t, clean, sup, mn, mx, d, bh):
    p = TractParser(t, clean_qq=clean, suppress_lot_divs=sup, qq_depth_min=mn, qq_depth_max=mx, qq_depth=d,
                    break_halves=bh, parent=None)
    tr = pytrs.Tract('')
    tr.lots = p.lots
    try:
        il = tr.ilots
    except Exception as e:  # noqa
        il = render_exc(e)
    return render({'pp_desc': p.text, 'lots': p.lots, 'qqs': p.qqs, 'lot_acres': p.lot_acres,
                   'aliquots_whole': p.aliquots_whole, 'ilots': il, 'w_flags': p.w_flags,
                   'w_flag_lines': p.w_flag_lines, 'e_flags': p.e_flags, 'e_flag_lines': p.e_flag_lines})


# ---- TRS
def line_trs_to_dict(s):
    return req('trs.to_dict', enc_text(s))


TRS_KEYS = ['trs', 'twp', 'twp_num', 'twp_ns', 'twp_undef', 'rge', 'rge_num', 'rge_ew', 'rge_undef', 'sec', 'sec_num', 'sec_undef']


@guard
def impl_trs_to_dict(s):
    d = TRS.trs_to_dict(s)
    return render({k: d[k] for k in TRS_KEYS})


def enc_arg(a):
    if a is None:
        return '~'
    if isinstance(a, int):
        return 'i%d' % a
    return 's' + enc_text(a)


def line_trs_construct(twp, rge, sec, ns, ew, ocr):
    return req('trs.construct', enc_arg(twp), enc_arg(rge), enc_arg(sec), enc_text(ns), enc_text(ew), enc_bool(ocr))


@guard
def impl_trs_construct(twp, rge, sec, ns, ew, ocr):
    return render(TRS.construct_trs(twp, rge, sec, ns, ew, ocr))


def line_twprge_short(t):
    return req('twprge.short', enc_text(t))


@guard
def impl_twprge_short(t):
    return render(twprge_natural_to_short(t))


def line_twprge_natural(t):
    return req('twprge.natural', enc_text(t))


@guard
def impl_twprge_natural(t):
    return render(twprge_short_to_natural(t))


# ---- PLSS level
from pytrs.parser.plssdesc.plss_preprocess import plss_preprocess, find_twprge, find_sec
from pytrs.parser.plssdesc.plss_parse import deduce_layout, cleanup_desc
from pytrs.parser.config.master_config import MasterConfig
from pytrs.parser.config.config import Config


class mc_ctx:
    """temporarily set MasterConfig defaults (always restored)"""

    def __init__(self, ns, ew):
        self.ns, self.ew = ns, ew

    def __enter__(self):
        self.old = (MasterConfig.default_ns, MasterConfig.default_ew)
        MasterConfig.default_ns, MasterConfig.default_ew = self.ns, self.ew

    def __exit__(self, *a):
        MasterConfig.default_ns, MasterConfig.default_ew = self.old


def line_plss_pp(mc, t, dns, dew, ocr):
    return req('plss.pp', enc_text(mc[0]), enc_text(mc[1]), enc_text(t), enc_text(dns), enc_text(dew), enc_bool(ocr))


@guard
def impl_plss_pp(mc, t, dns, dew, ocr):
    with mc_ctx(*mc):
        txt, fixed = plss_preprocess(t, dns, dew, ocr)
    return render((txt, fixed))


def line_layout(t):
    return req('plss.layout', enc_text(t))


@guard
def impl_layout(t):
    return render(deduce_layout(t))


def line_cleanup(t):
    return req('plss.cleanup', enc_text(t))


@guard
def impl_cleanup(t):
    return render(cleanup_desc(t))


def line_find_twprge(mc, t, dns, dew, pre, ocr):
    return req('plss.find_twprge', enc_text(mc[0]), enc_text(mc[1]), enc_text(t), enc_text(dns), enc_text(dew), enc_bool(pre), enc_bool(ocr))


@guard
def impl_find_twprge(mc, t, dns, dew, pre, ocr):
    with mc_ctx(*mc):
        return render(find_twprge(t, dns, dew, pre, ocr))


def line_find_sec(t):
    return req('plss.find_sec', enc_text(t))


@guard
def impl_find_sec(t):
    return render(find_sec(t))


def line_config_text(t):
    return req('config.text', enc_text(t))


CFG_ATTS = Config._CONFIG_ATTRIBUTES


@guard
def impl_config_text(t):
    c = Config(t)
    d = {a: getattr(c, a) for a in CFG_ATTS if getattr(c, a) is not None}
    return render((d, c.decompile_to_text()))


# ---- objects
def enc_kv(v):
    if v is None:
        return '~'
    if v is True:
        return 'T'
    if v is False:
        return 'F'
    if isinstance(v, int):
        return 'i%d' % v
    return 's' + enc_text(v)


def enc_kwargs(kw):
    if kw is None:
        return '-'
    return ','.join(f"{k}={enc_kv(v)}" for k, v in kw.items())


def enc_cfg(c):
    if c is None:
        return '~'
    if not isinstance(c, str):
        return '?'
    return enc_text(c)


FLAG_ATTS = ['w_flags', 'w_flag_lines', 'e_flags', 'e_flag_lines']


def tract_snap(t):
    try:
        il = t.ilots
    except Exception as e:  # noqa
        il = render_exc(e)
    d = {'trs': t.trs, 'twp': t.twp, 'rge': t.rge, 'sec': t.sec, 'twp_num': t.twp_num, 'rge_num': t.rge_num,
         'sec_num': t.sec_num, 'twp_ns': t.twp_ns, 'rge_ew': t.rge_ew, 'twprge': t.twprge, 'desc': t.desc,
         'orig_desc': t.orig_desc, 'orig_index': t.orig_index, 'source': t.source, 'pp_desc': t.pp_desc,
         'parse_complete': t.parse_complete, 'lots': t.lots, 'qqs': t.qqs, 'lot_acres': t.lot_acres,
         'aliquots_whole': t.aliquots_whole, 'ilots': il, 'config': t.config.decompile_to_text()}
    for a in FLAG_ATTS:
        d[a] = getattr(t, a)
    return d


def desc_snap(d):
    s = {'current_layout': d.current_layout, 'pp_desc': d.pp_desc, 'desc_is_flawed': d.desc_is_flawed,
         'tracts': [tract_snap(t) for t in d.tracts],
         'pretty_desc': d.pretty_desc(), 'pretty_desc_tab': d.pretty_desc(word_sec='Section ', justify_linebreaks='\t')}
    for a in FLAG_ATTS:
        s[a] = getattr(d, a)
    return s


def line_desc_init(mc, t, layout, cfg, pq, src, wait, kw):
    return req('desc.init', enc_text(mc[0]), enc_text(mc[1]), enc_text(t), enc_text(layout), enc_cfg(cfg), enc_kv(pq),
               enc_text(src), enc_kv(wait), enc_kwargs(kw))


@guard
def impl_desc_init(mc, t, layout, cfg, pq, src, wait, kw):
    with mc_ctx(*mc):
        d = pytrs.PLSSDesc(t, layout=layout, config=cfg, parse_qq=pq, source=src, wait_to_parse=wait)
        if kw is None:
            return render(desc_snap(d))
        r = d.parse(commit=False, **kw)
        lay = None
        # the layout used by a non-committed parse is not exposed; re-derive it the way parse() does
        return render((desc_snap(d), [tract_snap(x) for x in r]))


def line_tract_init(t, trs, cfg, pq, kw):
    return req('tract.init', enc_text(t), enc_text(trs), enc_cfg(cfg), enc_kv(pq), enc_kwargs(kw))


@guard
def impl_tract_init(t, trs, cfg, pq, kw):
    tr = pytrs.Tract(t, trs=trs, config=cfg, parse_qq=pq)
    if kw is None:
        return render(tract_snap(tr))
    ret = tr.parse(commit=True, **kw)
    return render((tract_snap(tr), ret))


# ---- containers / export
from pytrs import TractList, TRSList


def enc_elems(specs):
    parts = []
    for sp in specs:
        if sp[0] == 't':
            _, uid, trs, desc, pq, cfg = sp
            parts.append(':'.join(['t', str(uid), enc_text(trs), enc_text(desc), enc_bool(pq), enc_cfg(cfg)]))
        else:
            parts.append('r:' + enc_text(sp[1]))
    return ';'.join(parts)


def build_elems(specs):
    """real objects for the specs; Tract objects are created in uid order so that the creation counter agrees"""
    order = sorted([i for i, sp in enumerate(specs) if sp[0] == 't'], key=lambda i: specs[i][1])
    objs = [None] * len(specs)
    for i in order:
        _, uid, trs, desc, pq, cfg = specs[i]
        objs[i] = pytrs.Tract(desc, trs=trs, parse_qq=pq, config=cfg)
    for i, sp in enumerate(specs):
        if sp[0] == 'r':
            objs[i] = pytrs.TRS(sp[1])
    return objs


def tag(o):
    return o.desc if isinstance(o, pytrs.Tract) else o.trs


def mklist(specs):
    objs = build_elems(specs)
    if specs and all(sp[0] == 'r' for sp in specs):
        return TRSList(objs), objs
    if all(sp[0] == 't' for sp in specs):
        return TractList(objs), objs
    l = TRSList()
    l._elements = list(objs)      # mixed lists only arise for TRSList-of-TRS; kept for completeness
    return l, objs


def enc_items(items):
    parts = []
    for it in items:
        if it[0] == 's':
            parts.append('s:' + enc_text(it[1]))
        elif it[0] == 'o':
            parts.append('o')
        else:
            parts.append(enc_elems([it]))
    return ';'.join(parts)


def build_tag(o):
    return ('Tract', o.trs, o.desc) if isinstance(o, pytrs.Tract) else ('TRS', o.trs)


def line_cont_build(is_trs, how, self_specs, items):
    return req('cont.build', enc_bool(is_trs), how, enc_elems(self_specs), enc_items(items))


def impl_cont_build(is_trs, how, self_specs, items, other=5):
    """construct / extend / append / insert:<i> on a TractList (is_trs False) or TRSList; `other` stands for an
    unacceptable object"""
    cls = TRSList if is_trs else TractList
    elem_specs = [it for it in items if it[0] in ('t', 'r')]
    objs = iter(build_elems(list(self_specs) + elem_specs))
    self_objs = [next(objs) for _ in self_specs]
    vals = []
    for it in items:
        if it[0] == 's':
            vals.append(it[1])
        elif it[0] == 'o':
            vals.append(other)
        else:
            vals.append(next(objs))
    try:
        l = cls(self_objs)
        if how == 'construct':
            l = cls(vals)
        elif how == 'extend':
            l.extend(vals)
        elif how == 'append':
            l.append(vals[0])
        else:
            l.insert(int(how.split(':')[1]), vals[0])
    except Exception as e:  # noqa
        return render_exc(e)
    return render([build_tag(o) for o in l])


def line_cont_sort(specs, key, rev):
    return req('cont.sort', enc_elems(specs), enc_text(key), enc_bool(rev))


def impl_cont_sort(specs, key, rev):
    l, _ = mklist(specs)
    try:
        l.custom_sort(key, rev)
    except Exception as e:  # noqa
        return render_exc(e) + ' ' + render([tag(o) for o in l])
    return render([tag(o) for o in l])


PREDS = {
    'sec_odd': lambda e: e.sec_num is not None and e.sec_num % 2 == 1,
    'has_lots': lambda e: isinstance(e, pytrs.Tract) and len(e.lots) > 0,
    'true': lambda e: True,
    'false': lambda e: False,
}


def pred_fn(p):
    if p.startswith('secnum_lt:'):
        n = int(p.split(':')[1])
        return lambda e: e.sec_num is not None and e.sec_num < n
    if p.startswith('twp_eq:'):
        t = p.split(':', 1)[1]
        return lambda e: e.twp == t
    return PREDS[p]


def enc_pred(p):
    if p.startswith('twp_eq:'):
        return 'twp_eq:' + enc_text(p.split(':', 1)[1])
    return p


def line_cont_filter(specs, p, drop):
    return req('cont.filter', enc_elems(specs), enc_pred(p), enc_bool(drop))


@guard
def impl_cont_filter(specs, p, drop):
    l, _ = mklist(specs)
    r = l.filter(pred_fn(p), drop)
    return render(([tag(o) for o in r], [tag(o) for o in l]))


def line_cont_filter_errors(specs, twp, rge, sec, undef, drop):
    return req('cont.filter_errors', enc_elems(specs), enc_bool(twp), enc_bool(rge), enc_bool(sec), enc_bool(undef), enc_bool(drop))


@guard
def impl_cont_filter_errors(specs, twp, rge, sec, undef, drop):
    l, _ = mklist(specs)
    r = l.filter_errors(twp, rge, sec, undef, drop)
    return render(([tag(o) for o in r], [tag(o) for o in l]))


def line_cont_filter_dups(specs, method, drop):
    is_trs = bool(specs) and all(sp[0] == 'r' for sp in specs)
    return req('cont.filter_dups', enc_elems(specs), method, enc_bool(is_trs), enc_bool(drop))


@guard
def impl_cont_filter_dups(specs, method, drop):
    l, _ = mklist(specs)
    r = l.filter_duplicates(method, drop)
    return render(([tag(o) for o in r], [tag(o) for o in l]))


def line_cont_group(specs, attrs):
    return req('cont.group', enc_elems(specs), ','.join(attrs))


@guard
def impl_cont_group(specs, attrs):
    l, _ = mklist(specs)
    g = l.group_by(list(attrs) if len(attrs) > 1 else attrs[0])
    un = type(l).unpack_group(g)
    return render(({k: [tag(o) for o in v] for k, v in g.items()}, [tag(o) for o in un]))


def line_export_rows(specs, attrs, nice, exists, mode):
    return req('export.rows', enc_elems(specs), ','.join(attrs), enc_bool(nice), enc_bool(exists), mode)


@guard
def impl_export_rows(specs, attrs, nice, exists, mode):
    import csv
    import os
    import tempfile
    l, _ = mklist(specs)
    d = tempfile.mkdtemp(prefix='pytrs_verif_')
    fp = os.path.join(d, 'out.csv')
    try:
        if exists:
            open(fp, 'w').close()
        l.tracts_to_csv(list(attrs), fp, mode, nice_headers=nice)
        with open(fp, newline='') as f:
            text = f.read()
        with open(fp, newline='') as f:
            rows = [list(r) for r in csv.reader(f)]
    finally:
        try:
            os.remove(fp)
            os.rmdir(d)
        except OSError:
            pass
    return render((rows, text, rows, l.tracts_to_dict(list(attrs))))


def line_csv_roundtrip(rows):
    return req('csv.roundtrip', '|'.join(','.join('f' + enc_text(c) for c in r) for r in rows))


@guard
def impl_csv_roundtrip(rows):
    import csv
    import io
    buf = io.StringIO()
    w = csv.writer(buf)
    for r in rows:
        w.writerow(r)
    text = buf.getvalue()
    back = [list(r) for r in csv.reader(io.StringIO(text, newline=''))]
    return render((text, back))
