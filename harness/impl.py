"""
Adapters that call the real pyTRS code in-process and render the observables exactly as the
Lean driver does (common.render), one function per driver op.
"""
import warnings

from common import render, render_exc, enc_text, enc_bool, enc_opt_int, req

import pytrs
from pytrs.parser.tract.aliquot_parse import parse_aliquot, standardize_aliquot_components
from pytrs.parser.tract.tract_parse import TractParser
from pytrs.parser.tract.tract_preprocess import scrub_aliquots
from pytrs.parser.unpack.unpackers import (SecUnpacker, LotUnpacker, twprge_natural_to_short,
                                           twprge_short_to_natural)
from pytrs.parser.trs.trs import TRS

warnings.simplefilter('ignore')


def guard(f):
    def g(*a, **k):
        try:
            return f(*a, **k)
        except RecursionError as e:
            return render_exc(e)
        except Exception as e:  # noqa
            return render_exc(e)
    return g


# ---- aliquot.parse
def line_aliquot_parse(text, mn, mx, d, bh):
    return req('aliquot.parse', enc_text(text), str(mn), enc_opt_int(mx), enc_opt_int(d), enc_bool(bh))


@guard
def impl_aliquot_parse(text, mn, mx, d, bh):
    return render(parse_aliquot(text, mn, mx, d, bh))


def line_aliquot_std(comps):
    return req('aliquot.std', enc_text(','.join(comps)))


@guard
def impl_aliquot_std(comps):
    return render(standardize_aliquot_components(list(comps)))


# ---- unpackers
def line_sec_unpack(t):
    return req('sec.unpack', enc_text(t))


@guard
def impl_sec_unpack(t):
    u = SecUnpacker(t)
    return render((u.sec_list, u.flags, u.flag_lines))


def line_lot_unpack(t):
    return req('lot.unpack', enc_text(t))


@guard
def impl_lot_unpack(t):
    u = LotUnpacker(t)
    return render((u.lot_list, u.lot_acres, u.flags, u.flag_lines, u.aliquots_through))


# ---- tract
def line_tract_pp(t, clean):
    return req('tract.pp', enc_text(t), enc_bool(clean))


@guard
def impl_tract_pp(t, clean):
    return render(scrub_aliquots(t, clean))


def line_tract_parse(t, clean, sup, mn, mx, d, bh):
    return req('tract.parse', enc_text(t), enc_bool(clean), enc_bool(sup), str(mn), enc_opt_int(mx), enc_opt_int(d), enc_bool(bh))


@guard
def impl_tract_parse(t, clean, sup, mn, mx, d, bh):
    p = TractParser(t, clean_qq=clean, suppress_lot_divs=sup, qq_depth_min=mn, qq_depth_max=mx, qq_depth=d,
                    break_halves=bh, parent=None)
    tr = pytrs.Tract('')
    tr.lots = p.lots
    try:
        il = tr.ilots
    except Exception as e:  # noqa
        il = render_exc(e)
    return render({'pp_desc': p.text, 'lots': p.lots, 'qqs': p.qqs, 'lot_acres': p.lot_acres,
                   'aliquots_whole': p.aliquots_whole, 'ilots': il, 'w_flags': p.w_flags,
                   'w_flag_lines': p.w_flag_lines, 'e_flags': p.e_flags, 'e_flag_lines': p.e_flag_lines})


# ---- TRS
def line_trs_to_dict(s):
    return req('trs.to_dict', enc_text(s))


TRS_KEYS = ['trs', 'twp', 'twp_num', 'twp_ns', 'twp_undef', 'rge', 'rge_num', 'rge_ew', 'rge_undef', 'sec', 'sec_num', 'sec_undef']


@guard
def impl_trs_to_dict(s):
    d = TRS.trs_to_dict(s)
    return render({k: d[k] for k in TRS_KEYS})


def enc_arg(a):
    if a is None:
        return '~'
    if isinstance(a, int):
        return 'i%d' % a
    return 's' + enc_text(a)


def line_trs_construct(twp, rge, sec, ns, ew, ocr):
    return req('trs.construct', enc_arg(twp), enc_arg(rge), enc_arg(sec), enc_text(ns), enc_text(ew), enc_bool(ocr))


@guard
def impl_trs_construct(twp, rge, sec, ns, ew, ocr):
    return render(TRS.construct_trs(twp, rge, sec, ns, ew, ocr))


def line_twprge_short(t):
    return req('twprge.short', enc_text(t))


@guard
def impl_twprge_short(t):
    return render(twprge_natural_to_short(t))


def line_twprge_natural(t):
    return req('twprge.natural', enc_text(t))


@guard
def impl_twprge_natural(t):
    return render(twprge_short_to_natural(t))
