#!/venv/bin/python
"""Evaluate one probe operation in a fresh interpreter and print its canonical rendering."""
import json
import os
import sys

sys.path.insert(0, os.path.dirname(os.path.abspath(__file__)))
import hist  # noqa: E402


def main():
    ops = json.load(sys.stdin)
    ops = [tuple(o) for o in ops]
    w = hist.PyWorld()
    out = [w.do(op) for op in ops]
    print(json.dumps(out))


if __name__ == '__main__':
    main()
