"""
Structured input generators built from pyTRS's own notions (aliquot components, lot/section lists,
Twp/Rge spellings, layouts, config settings) plus a separate malformed stream.
All randomness comes from a common.Rng.
"""
import itertools

HALVES = ['N', 'S', 'E', 'W']
QUARTERS = ['NE', 'NW', 'SE', 'SW']
COMPS = HALVES + QUARTERS

# ---------------------------------------------------------------- aliquots

def canon_comp(c):
    return c + ('½' if c in HALVES else '¼')


def canon_chain(chain):
    """chain: list of components in text order (smallest first)."""
    return ''.join(canon_comp(c) for c in chain)


HALF_WORD = {'N': 'North', 'S': 'South', 'E': 'East', 'W': 'West'}
Q_WORDS = {'NE': ('North', 'East'), 'NW': ('North', 'West'), 'SE': ('South', 'East'), 'SW': ('South', 'West')}


def comp_spellings(c):
    """documented spellings of one component (each is (text, needs_clean_qq))"""
    out = []
    if c in HALVES:
        w = HALF_WORD[c]
        out += [c + '½', c + '/2', c + '2', c + ' 1/2', c + '1/2', w + ' Half', w + ' One Half', w + ' half',
                c + ' /2', c + ' / 2', c + '.½', w + ' 1/2', w + '½']
        if c in 'NS':
            out += [w[:2] + '. Half']
    else:
        a, b = Q_WORDS[c]
        out += [c + '¼', c + '/4', c + '4', c + ' 1/4', c + '1/4', a + b.lower() + ' Quarter', a + ' ' + b + ' Quarter',
                a + b.lower() + ' One Quarter', a + '-' + b + ' Quarter', c + ' /4', c + ' / 4',
                c[0] + '.' + c[1] + '. ¼', c[0] + ' ' + c[1] + '/4', a + b.lower() + '¼', a + b.lower() + ' 1/4']
    return out


JOINERS = ['', ' ', ' of ', ' of the ', 'of', '  ', ' of  the ']


def render_chain(chain, rng, canonical=False):
    if canonical:
        return canon_chain(chain)
    parts = []
    for i, c in enumerate(chain):
        sp = rng.choice(comp_spellings(c))
        if rng.chance(1, 6):
            sp = sp.lower() if rng.chance(1, 2) else sp.upper()
        parts.append(sp)
        if i + 1 < len(chain):
            j = rng.choice(JOINERS)
            # a word spelling directly followed by a letter would fuse into another word
            if j == '' and (sp[-1].isalpha() and sp[-1] not in '½¼'):
                j = ' '
            if j == 'of' and sp[-1].isalpha():
                j = ' of '
            parts.append(j)
    return ''.join(parts)


def all_chains(maxlen):
    for n in range(1, maxlen + 1):
        for ch in itertools.product(COMPS, repeat=n):
            yield list(ch)


def rand_chain(rng, maxlen=6):
    n = rng.range(1, maxlen)
    return [rng.choice(COMPS) for _ in range(n)]


# ---------------------------------------------------------------- elided lists

THRU = ['-', ' - ', '–', ' — ', ' through ', ' thru ', ' thru. ', ' to ', ' Through ', ' THRU ']
AND = [', ', ' and ', ', and ', ' & ', '; ', ',', ' and']
SEC_WORDS = ['Section ', 'Sec ', 'Sec. ', 'Sections ', 'Secs ', '§ ', 'Sec', 'Sect. ', 'section ', 'SECTION ']
LOT_WORDS = ['Lot ', 'Lots ', 'L', 'L.', 'Lt ', 'Lt. ', 'lot ', 'LOTS ', 'Lot']


def rand_items(rng, maxitems=5, maxnum=36, allow_desc=True):
    """list of ('single', n) | ('range', a, b)"""
    items = []
    for _ in range(rng.range(1, maxitems)):
        if rng.chance(2, 5):
            a = rng.range(1, maxnum)
            b = rng.range(1, maxnum)
            if rng.chance(1, 14):      # number zero ('Sec 0 - 3', 'Lots 3 - 0'): int('') / lstrip('0') style slips show only here
                if rng.chance(1, 2):
                    a = 0
                else:
                    b = 0
            if not allow_desc and a > b:
                a, b = b, a
            if a == b and rng.chance(3, 4):
                b = min(maxnum, a + rng.range(1, 4)) if a < maxnum else a
            items.append(('range', a, b))
        else:
            items.append(('single', 0 if rng.chance(1, 25) else rng.range(1, maxnum)))
    return items


def expand_items(items):
    """the list the property says an elided list denotes"""
    out = []
    for it in items:
        if it[0] == 'single':
            out.append(it[1])
        else:
            a, b = it[1], it[2]
            if a <= b:
                out.extend(range(a, b + 1))
            else:
                out.extend(range(a, b - 1, -1))
    return out


def has_desc_range(items):
    return any(it[0] == 'range' and it[1] >= it[2] for it in items)


def render_items(items, rng, words, pad=False, repeat_word=True):
    w = rng.choice(words)
    parts = []
    for i, it in enumerate(items):
        def num(n):
            s = str(n)
            if pad and rng.chance(1, 4):
                s = s.rjust(2, '0')
            if n == 0 and rng.chance(1, 2):
                s = rng.choice(['00', '000'])
            return s
        lead = ''
        if i == 0:
            lead = w
        elif repeat_word and rng.chance(1, 5):
            lead = rng.choice(words)
        if it[0] == 'single':
            parts.append(lead + num(it[1]))
        else:
            mid = rng.choice(THRU)
            second_word = rng.choice(words) if (repeat_word and rng.chance(1, 6)) else ''
            parts.append(lead + num(it[1]) + mid + second_word + num(it[2]))
        if i + 1 < len(items):
            parts.append(rng.choice(AND))
    return ''.join(parts)


# ---------------------------------------------------------------- Twp/Rge

def twprge_spellings(t, ns, r, ew):
    """documented spellings; ns/ew are 'N'/'S', 'E'/'W'"""
    NS = {'N': 'North', 'S': 'South'}[ns]
    EW = {'E': 'East', 'W': 'West'}[ew]
    out = [
        f"T{t}{ns}-R{r}{ew}",
        f"Township {t} {NS}, Range {r} {EW}",
        f"Twp. {t} {ns}., Rge. {r} {ew}.",
        f"t{t}{ns.lower()}-r{r}{ew.lower()}",
        f"T{t}{ns} R{r}{ew}",
        f"T.{t}{ns}., R.{r}{ew}.",
        f"Township {t} {NS} - Range {r} {EW}",
        f"T {t} {ns}, R {r} {ew}",
        f"township {t} {NS.lower()}, range {r} {EW.lower()}",
    ]
    if str(r) != '2':
        out += [f"{t}{ns}-{r}{ew}", f"{t}{ns.lower()}-{r}{ew.lower()}", f"{t}{ns} {r}{ew}"]
    return out


def canon_twprge(t, ns, r, ew):
    return f"T{int(t)}{ns}-R{int(r)}{ew}"


# ---------------------------------------------------------------- tract description blocks

BLOCK_PROSE = [
    "That part lying north of the river",
    "A tract of land beginning at the northwest corner; thence S 89°15' E 200 feet to the point of beginning",
    "All that portion lying east of the county road",
    "Beginning at a point 200 feet south of the north quarter corner",
    "except the railroad right-of-way",
    "the east 40 acres",
]


def rand_lot_elem(rng):
    items = rand_items(rng, 2, 12, allow_desc=False)
    return render_items(items, rng, ['Lot ', 'Lots ', 'L'], repeat_word=False)


def rand_block(rng, allow_prose=True):
    k = rng.below(7)
    if k == 0:
        return canon_chain(rand_chain(rng, 3)).replace('½', '/2').replace('¼', '/4')
    if k == 1:
        return rand_lot_elem(rng)
    if k == 2:
        return rand_lot_elem(rng) + ', ' + render_chain(rand_chain(rng, 2), rng)
    if k == 3:
        return render_chain(rand_chain(rng, 3), rng)
    if k == 4 and allow_prose:
        return rng.choice(BLOCK_PROSE)
    if k == 5:
        return 'ALL'
    return canon_chain(rand_chain(rng, 2)) + ', ' + canon_chain(rand_chain(rng, 2))


# ---------------------------------------------------------------- malformed stream

VOCAB = ['T154N-R97W', 'Township', 'Range', 'North', 'West', 'Sec', 'Section', 'Sections', 'Lot', 'Lots', 'NE/4', 'N/2',
         'SW¼', 'E½', 'of', 'the', 'and', 'through', 'thru', '-', ':', ',', ';', '.', '\n', ' ', '  ', '\t', '14', '1', '2', '154',
         '97', '36', 'ALL', 'all of', 'in', 'less and except', 'insofar as', 'including', 'surface', 'wellbore', 'P.M.',
         '5th', '(40.00)', '[39.8]', '§', '½', '¼', 'N', 'S', 'E', 'W', 'R', 'T', '154n97w', 'T2N', 'R2W', 'N2', 'W2', '–', '—',
         'Principal Meridian', 'Twp', 'Rge', '°', "'", '"', 'ſ', 'İ', '٣', '', '\r', 'within', 'said', 'lying']


def token_soup(rng, n=None):
    n = n or rng.range(0, 14)
    return ''.join(rng.choice(VOCAB) + rng.choice(['', ' ', ' ', ', ']) for _ in range(n))


def damage(s, rng):
    toks = s.split(' ')
    k = rng.below(5)
    if not toks:
        return s
    i = rng.below(len(toks))
    if k == 0:
        del toks[i]
    elif k == 1:
        toks.insert(i, toks[i])
    elif k == 2:
        rng.shuffle(toks)
    elif k == 3:
        toks = toks[:i]
    else:
        toks.insert(i, rng.choice(VOCAB))
    return ' '.join(toks)


# ---------------------------------------------------------------- abstract descriptions (C01 and friends)

LAYOUTS = ['TRS_desc', 'desc_STR', 'S_desc_TR', 'TR_desc_S']

CLEAN_BLOCKS = [
    "NE/4", "N/2", "W/2 SE/4", "Lots 1 - 3", "Lot 2", "Lots 1, 2, NE/4", "ALL", "S/2 N/2", "NE/4 NW/4, S/2",
    "N½NE¼", "That part lying north of the river", "the east 40 acres",
    "A tract beginning at the northwest corner; thence S 89°15' E 200 feet to the point of beginning",
    "Lot 1 (39.8), Lot 2 [40.1]", "E/2, less and except the wellbore", "SW/4 insofar as it covers the surface",
    "Lots 3 & 4; S/2 NW/4", "NW/4 including all minerals",
]


# words for generated prose blocks: none is (part of) a Twp/Rge or a section reference; several END in the letters of
# the continuation words ('of', 'in', 'said', 'within') without being them
PROSE_WORDS = ['That', 'part', 'lying', 'along', 'the', 'river', 'basin', 'thereof', 'aforesaid', 'margin', 'drain', 'hereof',
               'main', 'channel', 'all', 'accretions', 'portion', 'county', 'road', 'easement', 'plain', 'flood', 'cabin',
               'thereon', 'within', 'said', 'of', 'in', 'and', 'tract', 'A', 'band', 'wide', 'roof', 'Austin', 'herein',
               'mountain', 'proof', 'lands', 'upland', 'boundary', 'fence', 'line', 'premises', 'described', 'above']
NOT_LAST = {'the', 'of', 'in', 'and', 'said', 'within', 'all', 'a'}


def rand_block(rng):
    """a description block: one of the fixed clean blocks, or generated prose that cleanup_desc leaves alone"""
    if rng.chance(3, 5):
        return rng.choice(CLEAN_BLOCKS)
    n = rng.range(2, 7)
    ws = [rng.choice(PROSE_WORDS) for _ in range(n)]
    while ws[-1].lower() in NOT_LAST:
        ws[-1] = rng.choice(PROSE_WORDS)
    return ' '.join(ws)


def rand_abs_desc(rng, max_tr=3, max_sg=3, max_items=3):
    groups = []
    for _ in range(rng.range(1, max_tr)):
        t = rng.choice([1, 7, 14, 97, 154, 100, 9, 23])
        r = rng.choice([1, 3, 7, 14, 97, 101, 58, 22])
        ns = rng.choice('NS')
        ew = rng.choice('EW')
        sgs = []
        for _ in range(rng.range(1, max_sg)):
            items = rand_items(rng, max_items, 36, allow_desc=False)
            sgs.append((items, rand_block(rng)))
        groups.append((t, ns, r, ew, sgs))
    return groups


def expected_tracts(groups):
    out = []
    for (t, ns, r, ew, sgs) in groups:
        for items, block in sgs:
            for s in expand_items(items):
                out.append((f"{t}{ns.lower()}{r}{ew.lower()}{s:02d}", block))
    return out


def render_sec_group(items, rng, colon=True):
    return render_items(items, rng, ['Section ', 'Sec ', 'Sec. ', 'Sections ', 'Secs ', '§ '], pad=True, repeat_word=False)


def render_desc(groups, layout, rng, canonical_tr=False, colons=True):
    """render an abstract description in one of the four documented layouts"""
    parts = []
    for gi, (t, ns, r, ew, sgs) in enumerate(groups):
        tr = canon_twprge(t, ns, r, ew) if canonical_tr else rng.choice(twprge_spellings(t, ns, r, ew))
        sg_txt = []
        for items, block in sgs:
            sec = render_sec_group(items, rng)
            if layout in ('TRS_desc', 'S_desc_TR'):
                conn = ': ' if colons else rng.choice([': ', ' ', ', '])
                sg_txt.append(sec + conn + block)
            else:
                conn = rng.choice([' of ', ', ', ' in ', ' of '])
                sg_txt.append(block + conn + sec)
        sep = rng.choice([', ', '; ', '\n', ',\n'])
        body = sep.join(sg_txt)
        if layout in ('TRS_desc', 'TR_desc_S'):
            g = tr + rng.choice([', ', '\n', ' ', ': ']) + body
        else:
            g = body + rng.choice([', ', '\n', '; ', ',\n']) + tr
        parts.append(g)
    return rng.choice(['\n', '; ', '\n\n', ', ']).join(parts)


BOOL_SETTINGS = ['parse_qq', 'clean_qq', 'sec_colon_required', 'sec_colon_cautious', 'suppress_lot_divs', 'ocr_scrub',
                 'segment', 'break_halves', 'sec_within']


def rand_config(rng, allow_layout=True, max_settings=4):
    parts = []
    for _ in range(rng.below(max_settings + 1)):
        k = rng.below(10)
        if k < 6:
            a = rng.choice(BOOL_SETTINGS)
            parts.append(rng.choice([a, a + '.True', a + '.False', a + '=False']))
        elif k == 6:
            parts.append(rng.choice(['n', 's', 'e', 'w', 'default_ns.s', 'default_ew.e', 'default_ns.North']))
        elif k == 7 and allow_layout:
            parts.append(rng.choice(LAYOUTS + ['copy_all', 'layout.TRS_desc']))
        elif k == 8:
            parts.append(rng.choice(['qq_depth.1', 'qq_depth.2', 'qq_depth_min.1', 'qq_depth_min.3', 'qq_depth_max.2', 'qq_depth_max.3']))
        else:
            parts.append(rng.choice(['parse_qq', 'clean_qq']))
    if not parts:
        return None if rng.chance(1, 2) else ''
    return rng.choice([',', ', ', ';']).join(parts)
