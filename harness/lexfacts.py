"""Lexical hypotheses: facts about the regenerated regular expressions that some theorems take as explicit hypotheses
(they are not proved; the theorems say what follows from them).  They are monitored here on every text a check
generates; a refuted hypothesis is reported as a broken proof obligation of the property that relies on it.

  SecsNonEmpty   (C03_secFinder_total, C03_chunkParser_total, C03_plssParser_total, C20_no_colons_cautious):
                 every multisec_regex match unpacks to at least one section.
                 (since proved for the regenerated pattern: C20_sec_match_unpacks_nonempty; still monitored on CPython)
  LotsNonEmpty   (used informally by C06): every multilot_regex match unpacks to at least one lot.
  NoMarkerCollision (C03_plssParser_never_raises, hypothesis SecFirstChunksOK): in a *preprocessed* text no section
                 reference starts exactly where a Twp/Rge starts or ends (such a collision overwrites the section's
                 start marker and a tract would be staged without a section).
"""
from pytrs.parser.rgxlib import multisec_regex, multilot_regex, twprge_regex
from pytrs.parser.unpack.unpackers import SecUnpacker, LotUnpacker

COUNTS = {'SecsNonEmpty': 0, 'LotsNonEmpty': 0, 'NoMarkerCollision': 0}


def check_text(rep, text, lots=False):
    """returns True when every monitored hypothesis holds on `text`"""
    ok = True
    try:
        for mo in multisec_regex.finditer(text):
            COUNTS['SecsNonEmpty'] += 1
            if not SecUnpacker(mo.group()).sec_list:
                ok = False
                rep.violation('lexical-contract', {'hypothesis': 'SecsNonEmpty', 'text': text, 'match': mo.group(),
                                                   'why': 'a multisec_regex match unpacked to an empty section list'}, no_input=True)
        if lots:
            for mo in multilot_regex.finditer(text):
                COUNTS['LotsNonEmpty'] += 1
                if not LotUnpacker(mo.group()).lot_list:
                    ok = False
                    rep.violation('lexical-contract', {'hypothesis': 'LotsNonEmpty', 'text': text, 'match': mo.group(),
                                                       'why': 'a multilot_regex match unpacked to an empty lot list'}, no_input=True)
        # marker collisions, on the text the parser actually walks (the preprocessed one)
        import pytrs
        pp = pytrs.PLSSDesc(text, wait_to_parse=True).pp_desc
        bounds = set()
        for mo in twprge_regex.finditer(pp):
            bounds.add(mo.start())
            bounds.add(mo.end())
        for mo in multisec_regex.finditer(pp):
            COUNTS['NoMarkerCollision'] += 1
            if mo.start() in bounds:
                ok = False
                rep.violation('lexical-contract', {'hypothesis': 'NoMarkerCollision', 'text': text, 'preprocessed': pp,
                                                   'match': mo.group(), 'why': 'a section reference starts at a Twp/Rge boundary'},
                              no_input=True)
    except Exception:  # noqa  (totality itself is checked by the caller)
        pass
    return ok


def record(rep):
    rep.extra['lexical_hypotheses_checked'] = dict(COUNTS)
