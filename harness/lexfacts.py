"""Lexical hypotheses: facts about the regenerated regular expressions that some theorems take as explicit hypotheses
(they are not proved; the theorems say what follows from them).  They are monitored here on every text a check
generates; a refuted hypothesis is reported as a broken proof obligation of the property that relies on it.

  SecsNonEmpty   (C03_secFinder_total, C03_chunkParser_total, C03_plssParser_total, C20_no_colons_cautious):
                 every multisec_regex match unpacks to at least one section.
  LotsNonEmpty   (used informally by C06): every multilot_regex match unpacks to at least one lot.
"""
from pytrs.parser.rgxlib import multisec_regex, multilot_regex
from pytrs.parser.unpack.unpackers import SecUnpacker, LotUnpacker

COUNTS = {'SecsNonEmpty': 0, 'LotsNonEmpty': 0}


def check_text(rep, text, lots=False):
    """returns True when every monitored hypothesis holds on `text`"""
    ok = True
    try:
        for mo in multisec_regex.finditer(text):
            COUNTS['SecsNonEmpty'] += 1
            if not SecUnpacker(mo.group()).sec_list:
                ok = False
                rep.violation('lexical-contract', {'hypothesis': 'SecsNonEmpty', 'text': text, 'match': mo.group(),
                                                   'why': 'a multisec_regex match unpacked to an empty section list'}, no_input=True)
        if lots:
            for mo in multilot_regex.finditer(text):
                COUNTS['LotsNonEmpty'] += 1
                if not LotUnpacker(mo.group()).lot_list:
                    ok = False
                    rep.violation('lexical-contract', {'hypothesis': 'LotsNonEmpty', 'text': text, 'match': mo.group(),
                                                       'why': 'a multilot_regex match unpacked to an empty lot list'}, no_input=True)
    except Exception:  # noqa  (totality itself is checked by the caller)
        pass
    return ok


def record(rep):
    rep.extra['lexical_hypotheses_checked'] = dict(COUNTS)
