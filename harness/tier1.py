"""
Tier-1 correspondence: L0 (Lean regex semantics over the regenerated patterns) and the
Python str primitives against CPython, on strings generated from the patterns' own atoms.
"""
import json
import os
import re
import re._parser as sre_parse
from re._constants import (LITERAL, NOT_LITERAL, IN, ANY, BRANCH, SUBPATTERN, MAX_REPEAT, ASSERT, AT,
                           MAXREPEAT, CATEGORY, RANGE, NEGATE, CATEGORY_DIGIT, CATEGORY_SPACE, CATEGORY_WORD)

from common import LEAN_DIR, Driver, Rng, enc_text, req, render

ODD = ['ſ', 'İ', 'ı', 'K', '٣', ' ', ' ', '½', '¼', '§', '–', '—', '°', 'é', 'Σ'.lower(), '\x1c', '_', '　', '５']
FILL = list(" \n\t,.;:-/()[]&'\"") + list('aeionrstlNSEWTR0123456789') + ODD


def load_meta():
    return json.load(open(os.path.join(LEAN_DIR, 'PyTRS', 'Gen', 'patterns_meta.json')))


def gen_atom(node, rng, flags):
    op, av = node
    if op == LITERAL:
        c = chr(av)
        if flags & re.IGNORECASE and rng.chance(1, 3):
            c = c.swapcase() if len(c.swapcase()) == 1 else c
        return c
    if op == NOT_LITERAL:
        return rng.choice(FILL)
    if op == ANY:
        return rng.choice(FILL)
    if op == IN:
        items = [it for it in av if it[0] != NEGATE]
        if len(items) != len(av):
            return rng.choice(FILL)
        it = rng.choice(items)
        if it[0] == LITERAL:
            return gen_atom(it, rng, flags)
        if it[0] == RANGE:
            return chr(rng.range(it[1][0], it[1][1]))
        if it[0] == CATEGORY:
            if it[1] == CATEGORY_DIGIT:
                return rng.choice('0123456789') if rng.chance(15, 16) else rng.choice('٣５߂')
            if it[1] == CATEGORY_SPACE:
                return rng.choice(' \n\t') if rng.chance(7, 8) else rng.choice('\r\x0b\x0c  \x1c\x85')
            if it[1] == CATEGORY_WORD:
                return rng.choice('abzAZ09_é')
        return rng.choice(FILL)
    return ''


def gen_seq(items, rng, flags, depth=0):
    out = []
    for node in items:
        op, av = node
        if op in (LITERAL, NOT_LITERAL, ANY, IN):
            out.append(gen_atom(node, rng, flags))
        elif op == BRANCH:
            out.append(gen_seq(rng.choice(av[1]), rng, flags, depth + 1))
        elif op == SUBPATTERN:
            out.append(gen_seq(av[3], rng, flags, depth + 1))
        elif op == MAX_REPEAT:
            lo, hi, p = av
            if hi == MAXREPEAT:
                hi = lo + 3
            n = rng.range(lo, min(hi, lo + 3))
            if lo == 0 and rng.chance(1, 3):
                n = 0
            for _ in range(n):
                out.append(gen_seq(p, rng, flags, depth + 1))
        elif op in (ASSERT, AT):
            pass
        else:
            pass
    return ''.join(out)


def mutate(s, rng):
    if not s:
        return s
    k = rng.below(6)
    i = rng.below(len(s))
    if k == 0:
        return s[:i] + s[i + 1:]
    if k == 1:
        return s[:i] + rng.choice(FILL) + s[i:]
    if k == 2:
        return s[:i] + rng.choice(FILL) + s[i + 1:]
    if k == 3:
        return s[:i] + s[i] * 2 + s[i + 1:]
    return s


def py_render_match(m, ng):
    if m is None:
        return '-'
    parts = ['%d:%d' % m.span()]
    for g in range(1, ng + 1):
        parts.append('%d:%d' % m.span(g))
    return ';'.join(parts)


def run(rep, budget, seed):
    """returns list of disagreements (dicts)"""
    meta = load_meta()
    rng = Rng(seed, 101)
    drv = Driver()
    lines = []
    expect = []
    info = []
    names = sorted(meta)
    per = max(4, budget // max(1, len(names)))
    trees = {}
    for name in names:
        pat, flags = meta[name]['pattern'], meta[name]['flags']
        cp = re.compile(pat, flags)
        tree = sre_parse.parse(pat, flags)
        trees[name] = tree
        ng = meta[name]['ngroups']
        for i in range(per):
            r = rng.fork(i)
            pieces = []
            for _ in range(r.range(1, 3)):
                if r.chance(1, 4):
                    pieces.append(''.join(r.choice(FILL) for _ in range(r.range(0, 6))))
                s = gen_seq(tree, r, flags)
                for _ in range(r.below(3)):
                    s = mutate(s, r)
                pieces.append(s)
                if r.chance(1, 3):
                    pieces.append(r.choice([' ', ', ', '\n', '; ', ' of ', '']))
            text = ''.join(pieces)[:120]
            if any(0xD800 <= ord(c) <= 0xDFFF for c in text):
                continue
            n = len(text)
            mode = r.below(4)
            if mode == 0:
                pos, endpos = 0, n
            else:
                pos = r.below(n + 1)
                endpos = r.range(pos, n) if r.chance(3, 4) else r.below(n + 1)
            op = 'finditer' if r.chance(1, 2) else 'search'
            lines.append(req(op, name, enc_text(text), str(pos), str(endpos)))
            if op == 'search':
                expect.append(py_render_match(cp.search(text, pos, endpos), ng))
            else:
                expect.append('|'.join(py_render_match(m, ng) for m in cp.finditer(text, pos, endpos)))
            info.append({'op': op, 'pattern': name, 'text': text, 'pos': pos, 'endpos': endpos})
            if expect[-1] not in ('-', ''):
                rep.nontrivial(('rx', name, text))
            rep.dist('tier1_rx', 'match' if expect[-1] not in ('-', '') else 'nomatch')
    # sub/split on inline patterns, str primitives
    for i in range(max(50, budget // 10)):
        r = rng.fork(100000 + i)
        s = ''.join(r.choice(FILL + list('  \n\n\t')) for _ in range(r.range(0, 30)))
        k = r.below(8)
        if k == 0:
            lines.append(req('str.lower', enc_text(s))); expect.append(render(s.lower())) if 'Σ' not in s else lines.pop()
        elif k == 1:
            lines.append(req('str.upper', enc_text(s))); expect.append(render(s.upper()))
        elif k == 2:
            lines.append(req('str.strip', enc_text(s))); expect.append(render(s.strip()))
        elif k == 3:
            ch = ',;:-–—\t\n '
            lines.append(req('str.stripc', enc_text(ch), enc_text(s))); expect.append(render(s.strip(ch)))
        elif k == 4:
            t = r.choice([' 12 ', '007', '1_0', '+5', '-3', '٣٤', '1__0', '_1', '', ' ', 'XX', '__', '12a', '５６', '9' * r.range(1, 25)])
            lines.append(req('str.int', enc_text(t)))
            try:
                expect.append(render(int(t)))
            except ValueError:
                expect.append('!ValueError')
            s = t
        elif k == 5:
            a = r.choice([' ', ',', 'ab', 'N', '  '])
            b = r.choice(['', 'x', '  ', 'NN'])
            lines.append(req('str.replace', enc_text(s), enc_text(a), enc_text(b))); expect.append(render(s.replace(a, b)))
        elif k == 6:
            nm = r.choice([n for n in names if n.startswith('inl_')])
            cp = re.compile(meta[nm]['pattern'], meta[nm]['flags'])
            if meta[nm]['ngroups'] == 0:
                lines.append(req('split', nm, enc_text(s))); expect.append(render(cp.split(s)))
            else:
                lines.append(req('sub', nm, enc_text('#'), enc_text(s))); expect.append(render(cp.sub('#', s)))
        else:
            nm = r.choice([n for n in names if n.startswith('inl_')])
            cp = re.compile(meta[nm]['pattern'], meta[nm]['flags'])
            lines.append(req('sub', nm, enc_text('#'), enc_text(s))); expect.append(render(cp.sub('#', s)))
        if len(info) < len(lines):
            info.append({'op': lines[-1].split('\t')[0], 'text': s, 'line': lines[-1][:200]})
        rep.nontrivial(('prim', lines[-1][:80]))
    got = drv.run_parallel(lines)
    bad = []
    for ln, e, g, inf in zip(lines, expect, got, info):
        rep.count()
        if e != g:
            bad.append(dict(inf, python=e, lean=g))
    rep.extra['tier1_cases'] = len(lines)
    rep.extra['tier1_disagreements'] = len(bad)
    return bad
