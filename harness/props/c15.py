"""C15 — results depend only on text and settings, not on what ran before."""
import json
import os
import subprocess
from concurrent.futures import ThreadPoolExecutor

import descs
import gen
import hist
from common import Rng, PY, VERIF, REPO

import pytrs

RULE = ("histories of 0-10 noise operations (other descriptions / tracts parsed, MasterConfig toggled and restored, cache "
        "cleared / disabled / pre-warmed, dicts returned by trs_to_dict overwritten by the caller, objects created under "
        "other defaults) followed by a probe (PLSSDesc, Tract, TRS, trs_to_dict, find_twprge); the probe's output is "
        "compared with the same probe evaluated alone in a fresh interpreter process; non-trivial = history with at "
        "least one noise operation; distinct by (history, probe).  Plus heap-level histories of 8-30 operations on up to five TRS / Tract "
        "objects over three strings (construct, assign, from/set_twprgesec, trs_to_dict of a string / of an object, cache on / off / "
        "clear, MasterConfig, the caller overwriting or reading the k-th dict he was given, `is`-identity of the private dicts, "
        "cache keys in insertion order with the objects attached): compared line by line with Model/WorldHeap, and checked "
        "against the model-free oracle 'every read = trs_to_dict of what the object was set from; no dict handed out is an "
        "object's or the cache's'")
TRUSTED = ["C15: a fresh `python` process is the reference for 'no prior history'"]
ASSUMPTIONS = ["TRS._recompile (documented as unsupported) is not part of the operation set"]

PROBE_TEXTS = ['T154N-R97W Sec 14: NE/4, Lots 1 - 3', 'T154-R97 Sec 14: NE/4', 'NE/4 of Sec 5, T2N-R3W\nW/2 of Sec 9, T2N-R3W',
               'T154N-R97W Sec 101: NE/4', 'nothing here', 'Township 1 North, Range 2 West, Sec 1: Lot 1 (40.0)']
# texts on which each optional setting changes the result: a setting used by an earlier operation must not leak into
# a later one that does not use it (and the other way round)
SENSITIVE_TEXTS = ['TIS4N-R97W Sec 14: NE/4, Sec 15: W/2', 'Township lS4 North, Range 97 West\nSection 22: ALL',
                   'T154N-R97W Sec 14: NE, N2', 'T154N-R97W Sec 14 NE/4', 'T154N-R97W Sec 14: N/2 of Lot 1',
                   'T154N-R97W Sec 14: NE/4, T155N-R97W NW/4 of Sec 1', 'T154N-R97W That part of Sec 14 lying north of the river',
                   'T154N-R97W Sec 14: N/2 NE/4 NW/4', 'T154-R97 Sec 14: NE/4']
SETTING_POOL = ['parse_qq', 'clean_qq', 'ocr_scrub', 'segment', 'sec_within', 'sec_colon_required', 'sec_colon_cautious',
                'suppress_lot_divs', 'break_halves', 'qq_depth.1', 'qq_depth_min.1', 'qq_depth_max.2', 's', 'e', 'TRS_desc', 'copy_all']


def rand_settings(r, p_none=2):
    if r.chance(p_none, 5):
        return None
    return ','.join(dict.fromkeys(r.choice(SETTING_POOL) for _ in range(r.range(1, 3))))


TRS_STRS = ['154n97w14', 'XXXzXXXzXX', '___z___z__', '154n97w', '1n2w01', 'T154N-R97W', '', '154N97W14', '2n3w05', '154n97w101',
            # keys that differ from a valid one only by padding / case: not in the standard form (error TRS), and they must not
            # share a cache slot with the valid string
            '154n97w14\n', ' 154n97w14', '154n97w14 ', '\t2n3w05', '2N3W05\n', '1n2w01\r\n']


def rand_noise(r, next_id):
    ops = []
    mc_changed = False
    for _ in range(r.range(0, 10)):
        k = r.below(13)
        if k == 0:
            ops.append(('mc', r.choice('ns'), r.choice('ew')))
            mc_changed = True
        elif k == 1:
            ops.append(('cache', r.choice(['on', 'off', 'clear'])))
        elif k == 2:
            ops.append(('warm', r.choice(TRS_STRS[:9] + TRS_STRS[10:] + ['154n97w14', '2n3w05'])))
        elif k == 3:
            ops.append(('todict', r.choice(TRS_STRS)))
        elif k == 4:
            ops.append(('todict_obj', r.choice(TRS_STRS[:4] + TRS_STRS[10:] + ['154n97w14', '2n3w05', '154n97w15'])))
        elif k in (5, 6, 7):
            i = next_id[0]
            next_id[0] += 1
            ops.append(('desc', i, r.choice(PROBE_TEXTS + SENSITIVE_TEXTS + [descs.structured(r, 2, 2)[0]]), None,
                        r.choice([None, 'parse_qq', 's,e', 'segment', 'clean_qq,parse_qq', rand_settings(r), rand_settings(r)]), None, None, None))
            if r.chance(1, 3):
                ops.append(('desc.parse', i, r.chance(1, 2), r.choice([{}, {'default_ns': 's'}, {'parse_qq': True}, {'ocr_scrub': True},
                                                                        {'clean_qq': True, 'parse_qq': True}, {'segment': True}])))
            if r.chance(1, 4):
                ops.append(('desc.sort', i, r.choice(['i', 's,t.ns', 'i.rev']), False))
        elif k in (8, 9):
            i = next_id[0]
            next_id[0] += 1
            ops.append(('tract', i, r.choice(['NE/4', 'Lots 1 - 3', 'N2 NE']), r.choice(TRS_STRS), r.choice([None, 'parse_qq', 'clean_qq']), r.choice([None, True])))
        elif k == 12:
            ops.append(rand_construct(r))
        elif k == 10:
            ops.append(('find_twprge', r.choice(PROBE_TEXTS + SENSITIVE_TEXTS[:2]), None, None, r.chance(1, 2), r.chance(1, 2)))
        else:
            ops.append(('mc', 'n', 'w'))
            mc_changed = False
    # "restoring MasterConfig restores the original behaviour"
    if mc_changed or r.chance(1, 3):
        ops.append(('mc', 'n', 'w'))
    if r.chance(1, 4):
        ops.append(('cache', 'on'))
    return ops


def rand_construct(r):
    """TRS.from_twprgesec with components that may lack a direction (filled from the defaults in force at the call)"""
    if r.chance(2, 3):
        # a small pool, so that the same components recur under different defaults within one history
        return ('from_twprgesec',) + r.choice([(154, 97, 14), ('27', '4', 9), (1, '2w', '01')]) + (r.choice([None, None, 's']), r.choice([None, None, 'e']))
    twp = r.choice([154, 27, '154', '154n', '27s', 1, None])
    rge = r.choice([97, 4, '97', '97w', '4e', 2, None])
    sec = r.choice([14, 9, '14', '01', None, 100])
    return ('from_twprgesec', twp, rge, sec, r.choice([None, None, None, 's', 'n']), r.choice([None, None, None, 'e', 'w']))


def rand_probe(r, next_id):
    k = r.below(7)
    if k == 6:
        return [rand_construct(r)]
    i = next_id[0]
    next_id[0] += 1
    if k in (0, 1):
        return [('desc', i, r.choice(PROBE_TEXTS + SENSITIVE_TEXTS), None,
                 r.choice([None, 'parse_qq', 'segment', 'sec_colon_cautious', rand_settings(r)]), None, None, None)]
    if k == 2:
        return [('desc', i, r.choice(PROBE_TEXTS), None, None, None, None, None), ('desc.sort', i, r.choice(['i', 'i.rev', 's.rev,i']), False)]
    if k == 3:
        return [('tract', i, r.choice(['NE/4', 'Lots 1 - 3']), r.choice(TRS_STRS), r.choice([None, 'parse_qq']), None)]
    if k == 4:
        return [('warm', r.choice(TRS_STRS)), ('todict', r.choice(TRS_STRS))]
    return [('find_twprge', r.choice(PROBE_TEXTS + SENSITIVE_TEXTS[:2]), r.choice([None, 's']), None, r.chance(1, 2), False)]


def fresh(probe):
    p = subprocess.run([PY, os.path.join(VERIF, 'harness', 'fresh_probe.py')], input=json.dumps(probe), capture_output=True,
                       text=True, env=dict(os.environ, PYTHONPATH=REPO))
    if p.returncode != 0:
        return ['!fresh-process-failed ' + p.stderr[-200:]]
    return json.loads(p.stdout.strip().split('\n')[-1])


def run(ctx):
    rep = ctx.rep
    rng = Rng(ctx.seed, 15)
    n = ctx.budget(160, 6000)
    cases = []
    for i in range(n):
        r = rng.fork(i)
        ids = [0]
        noise = rand_noise(r, ids)
        probe = rand_probe(r, ids)
        cases.append((noise, probe))
    with ThreadPoolExecutor(max_workers=16) as ex:
        refs = list(ex.map(lambda c: fresh(c[1]), cases))
        # the whole history replayed in a process of its own: what this process did before (earlier histories of this
        # very run) must not show in any output either
        whole = list(ex.map(lambda c: fresh(c[0] + c[1]), cases))
    histories = []
    for (noise, probe), ref, ref_all in zip(cases, refs, whole):
        ops = noise + probe
        out = hist.run_history(ops)
        got = out[len(noise):]
        if out != ref_all and not (ref_all and ref_all[0].startswith('!fresh-process-failed')):
            k = next((j for j, (a, b) in enumerate(zip(out, ref_all)) if a != b), 0)
            rep.violation('failing-input', {'history': [list(map(str, o)) for o in ops], 'step': k,
                                            'why': 'an operation of this history answers differently in this process (which ran other histories before) than in a process of its own',
                                            'here': out[k][:400], 'own_process': ref_all[k][:400]})
        rep.count()
        if noise:
            rep.nontrivial(json.dumps([list(map(str, o)) for o in ops]))
        rep.dist('c15_noise_len', len(noise))
        rep.sample({'noise': [list(map(str, o)) for o in noise][:6], 'probe': [list(map(str, o)) for o in probe]}, cap=4)
        if got != ref:
            rep.violation('failing-input', {'history': [list(map(str, o)) for o in noise], 'probe': [list(map(str, o)) for o in probe],
                                            'why': 'probe output after this history differs from the same probe in a fresh interpreter',
                                            'after_history': [g[:400] for g in got], 'fresh': [g[:400] for g in ref]})
        histories.append((ops, out))
    hist.compare_histories(ctx, histories)
    # heap-level histories: dict objects have identity (Model/WorldHeap, theorems in Lemmas/Heap); a caller overwrites the
    # dicts the public conversion function gave him; aliasing between objects and the cache is observed with `is`
    import heap
    from common import run_groups
    hs = [heap.rand_history(rng.fork(500000 + i), rng.fork(500000 + i).range(8, 30)) for i in range(ctx.budget(250, 20000))]
    pys = [heap.run_history(h) for h in hs]
    for h, (out, oracle_bad) in zip(hs, pys):
        rep.count(len(h))
        rep.nontrivial('heap:' + json.dumps([list(map(str, o)) for o in h]))
        for k in set(o[0] for o in h):
            rep.dist('c15_heap_op', k)
        for why in oracle_bad[:1]:
            rep.violation('failing-input', {'heap_history': [list(map(str, o)) for o in h], 'why': why})
    if ctx.driver is not None:
        outs = run_groups(ctx.driver, [heap.history_lines(h) for h in hs])
        for h, (py, _), out in zip(hs, pys, outs):
            for k, (a, b) in enumerate(zip(py, out[1:])):
                if a != b:
                    ctx.corr_bad.append({'case': {'heap_history': [list(map(str, o)) for o in h[:k + 1]], 'step': k},
                                         'implementation': a[:600], 'model': b[:600]})
                    break
    # "the MasterConfig defaults in force at the time of the call": an object created under one MasterConfig and used under
    # another fills missing directions from the one in force NOW (unless it was configured with directions of its own)
    import pytrs
    from pytrs import TRS
    from pytrs.parser.config.master_config import MasterConfig
    old = (MasterConfig.default_ns, MasterConfig.default_ew)
    try:
        for i in range(ctx.budget(12, 200)):
            r = rng.fork(900000 + i)
            mc1 = (r.choice('ns'), r.choice('ew'))
            mc2 = ({'n': 's', 's': 'n'}[mc1[0]], {'e': 'w', 'w': 'e'}[mc1[1]]) if r.chance(2, 3) else (r.choice('ns'), r.choice('ew'))
            MasterConfig.default_ns, MasterConfig.default_ew = mc1
            d = pytrs.PLSSDesc(r.choice(['T154N-R97W Sec 14: NE/4, Sec 15: W/2', 'NE/4 of Sec 14, T154N-R97W', 'T154-R97 Sec 1: Lots 1 - 3']),
                               parse_qq=r.chance(1, 2))
            t0 = pytrs.Tract('NE/4', trs='154n97w14')
            o0 = TRS('154n97w14')
            MasterConfig.default_ns, MasterConfig.default_ew = mc2
            twp, rge, sec = r.range(1, 200), r.range(1, 200), r.range(1, 36)
            want = f'{twp}{mc2[0]}{rge}{mc2[1]}{sec:02d}'
            got = {}
            for name, o in [('tract of a PLSSDesc', d.tracts[0]), ('stand-alone Tract', t0), ('TRS', o0)]:
                o.set_twprgesec(twp, rge, sec)
                got[name] = o.trs
            got['Tract.from_twprgesec'] = pytrs.Tract.from_twprgesec('x', twp, rge, sec).trs
            bad = {k: v for k, v in got.items() if v != want}
            if bad:
                rep.violation('failing-input', {'created_under_MasterConfig': list(mc1), 'called_under_MasterConfig': list(mc2),
                                                'call': f'set_twprgesec({twp}, {rge}, {sec})', 'expected': want, 'observed': bad,
                                                'why': 'missing directions were not filled from the MasterConfig defaults in force at the time of the call'})
            rep.count()
    finally:
        MasterConfig.default_ns, MasterConfig.default_ew = old


def replay(payload):
    return None      # no input-specific replay: run_check re-runs the check with the recorded seed and tier
