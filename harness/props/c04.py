"""C04 — no description text is silently dropped."""
import descs
import gen
from common import Rng

import pytrs

RULE = ("descriptions (valid or damaged: deleted tokens, missing colons, stray Twp/Rge, leading/trailing text) x every "
        "whitespace token boundary as insertion point of the foreign word QXZZYQ x parse modes (default, segment, "
        "sec_within, colon modes, forced layouts); non-trivial = every insertion; distinct by (text with marker, mode)")
TRUSTED = ["C04: substring search for the inserted word in tract descriptions and error flags"]
ASSUMPTIONS = ["the inserted word is at least MIN_REPORTABLE_UNUSED_LEN long and is not within the <= 25 characters that "
               "pp_twprge_pm swallows before a 'P.M.' (both excluded points are known findings)"]

WORD = 'QXZZYQ'
MODES = [None, 'segment', 'sec_within', 'sec_colon_required', 'sec_colon_cautious', 'segment,sec_within',
         'layout.TRS_desc', 'layout.desc_STR', 'layout.S_desc_TR', 'layout.TR_desc_S', 'copy_all']


def kept(d):
    for t in d.tracts:
        if WORD in t.desc:
            return True
    for f in d.e_flags:
        if WORD in f:
            return True
    for fl in d.e_flag_lines:
        if any(WORD in x for x in fl if isinstance(x, str)):
            return True
    return False


def check(rep, text, mode):
    d = pytrs.PLSSDesc(text, config=mode)
    if not kept(d):
        pm = 'P.M' in text.upper().replace(' ', '') or 'MERIDIAN' in text.upper()
        rep.violation('failing-input', {'text': text, 'config': mode, 'why': 'inserted word is in no tract description and in no error flag',
                                        'tracts': [(t.trs, t.desc) for t in d.tracts][:6], 'e_flags': d.e_flags},
                      tag='C04-pm-filler' if pm else None)
        return False
    return True


def run(ctx):
    rep = ctx.rep
    rng = Rng(ctx.seed, 4)
    items = []
    n_desc = ctx.budget(120, 4000)
    for i in range(n_desc):
        r = rng.fork(i)
        k = r.below(5)
        base, lay, g = descs.structured(r, max_tr=2, max_sg=2)
        if k == 1:
            base = gen.damage(base, r)
        elif k == 2:
            base = base.replace(':', '')
        elif k == 3:
            base = r.choice(['Also described as ', 'T9N-R9W ', 'The following lands: ']) + base + r.choice(['', ' containing 40 acres more or less', ' T1S-R1E'])
        if k == 4:
            # single embedded section with leading / trailing / in-between text (the shape `sec_within` is meant for)
            lead = r.choice(['That part of the NE/4 of', 'A strip of land across', 'All that portion of'])
            trail = r.choice(['lying within the right-of-way', 'lying north of the river', 'containing 40 acres'])
            sec = r.choice(['Sec 14', 'Section 5', 'Sec 13 - 15', 'Sections 1 and 2'])
            base = r.choice([f'Parcel A T154N-R97W: {lead} {sec} {trail}', f'{lead} {sec} T154N-R97W {trail}',
                             f'Also T154N-R97W {sec}: extra NE/4', f'{lead} {sec} {trail}, T154N-R97W'])
        toks = base.split(' ')
        positions = list(range(len(toks) + 1))
        if not ctx.thorough and len(positions) > 8:
            positions = sorted(set(r.below(len(toks) + 1) for _ in range(8)))
        for p in positions:
            text = ' '.join(toks[:p] + [WORD] + toks[p:])
            mode = r.choice(MODES) if k != 4 else r.choice(['sec_within', 'sec_within', 'sec_within,segment', None, 'sec_within,layout.TR_desc_S'])
            try:
                check(rep, text, mode)
            except Exception as e:  # noqa
                rep.violation('failing-input', {'text': text, 'config': mode, 'why': f'raised {type(e).__name__}'})
            rep.count()
            rep.nontrivial((text, mode))
            rep.dist('c04_mode', mode)
            if p == positions[0]:
                rep.sample({'text': text[:200], 'config': mode}, cap=4)
                items.append(descs.corr_item(text, cfg=mode))
    # the two excluded points, exhibited on the implementation (known findings)
    d = pytrs.PLSSDesc('T154N-R97W x Sec 14: NE/4')
    if not any('x' in t.desc.split() for t in d.tracts) and not any(' x' in f for f in d.e_flags):
        rep.violation('failing-input', {'text': 'T154N-R97W x Sec 14: NE/4', 'why': 'short unused block dropped'}, tag='C04-short-unused')
    d = pytrs.PLSSDesc('T154N-R97W, QXZZYQ of the 5th P.M. Sec 14: NE/4')
    if not kept(d):
        rep.violation('failing-input', {'text': d.orig_desc, 'why': 'words before P.M. swallowed'}, tag='C04-pm-filler')
    ctx.compare(items)


def replay(payload):
    from common import Report
    rep = Report('C04', 'quick', 0)
    p = payload.get('replay', {})
    if 'text' in p:
        check(rep, p['text'], p.get('config'))
    return not rep.violations
