"""C07 — aliquot spelling does not matter and preprocessing is a fixed point."""
import gen
import impl
from common import Rng

import pytrs
from pytrs.parser.tract.tract_preprocess import scrub_aliquots


def safely(rep, what, f, *a):
    """run one oracle check; an exception escaping the library is itself a failing input for the observables"""
    try:
        return f(rep, *a)
    except Exception as e:  # noqa
        rep.violation('failing-input', {'check': what, 'args': [str(x)[:300] for x in a], 'why': f'raised {type(e).__name__}: {e}'})
        return None


RULE = ("component chains of length 1-5 x an independent documented spelling per component x joiner ('', ' ', ' of ', "
        "' of the ') x clean_qq x depth settings, compared with the canonical spelling of the same chain; plus the "
        "exhaustive single-component spelling table with left/right contexts; non-trivial = spelling differs from the "
        "canonical text; distinct by (text, config)")
TRUSTED = ["C07: equivalence of spellings is checked against the canonical spelling on generated chains and on the "
           "exhaustive documented single-component table (executed), fixed-point part by theorem on the model"]
ASSUMPTIONS = ["spellings listed in the property statement; word spellings are separated from a following component by a "
               "space or 'of'"]

HALF_WORD = gen.HALF_WORD
Q_WORDS = gen.Q_WORDS


def doc_spellings(c):
    if c in gen.HALVES:
        w = HALF_WORD[c]
        return [c + '½', c + '/2', c + '2', c + '1/2', c + ' 1/2', w + ' Half', w + ' One Half',
                c + ' 2', c + ' /2', c + ' / 2']          # "with or without spaces" (rgxlib/aliquots.py `_form`)
    a, b = Q_WORDS[c]
    return [c + '¼', c + '/4', c + '4', c + '1/4', c + ' 1/4', a + b.lower() + ' Quarter', a + ' ' + b + ' Quarter',
            a + ' ' + b + ' One Quarter', a + b.lower() + ' One Quarter',
            c + ' 4', c + ' /4', c + ' / 4']


JOIN = ['', ' ', ' of ', ' of the ']


def render(chain, r):
    parts = []
    for i, c in enumerate(chain):
        sp = r.choice(doc_spellings(c))
        parts.append(sp)
        if i + 1 < len(chain):
            j = r.choice(JOIN)
            if j == '' and sp[-1].isalpha():
                j = ' '
            parts.append(j)
    return ''.join(parts)


def cfg_for(r):
    parts = []
    if r.chance(1, 3):
        parts.append('clean_qq')
    k = r.below(4)
    if k == 1:
        parts.append('qq_depth_min.1')
    elif k == 2:
        parts.append('qq_depth.3')
    elif k == 3:
        parts.append('qq_depth_min.1,qq_depth_max.2')
    if r.chance(1, 5):
        parts.append('break_halves')
    return ','.join(parts)


def check_chain(rep, chain, text, cfg):
    canon = gen.canon_chain(chain)
    a = pytrs.Tract(text, parse_qq=True, config=cfg)
    b = pytrs.Tract(canon, parse_qq=True, config=cfg)
    why = None
    if a.pp_desc != canon:
        why = f'normalised text {a.pp_desc!r} is not the canonical {canon!r}'
    elif a.qqs != b.qqs or a.lots != b.lots:
        why = 'aliquots differ from those of the canonical spelling'
    elif b.pp_desc != canon:
        why = 'canonical text is not a fixed point of preprocessing'
    else:
        c = pytrs.Tract(a.pp_desc, parse_qq=True, config=cfg)
        if c.pp_desc != a.pp_desc or c.qqs != a.qqs or c.lots != a.lots:
            why = 'parsing the normalised text again changes the result'
        elif scrub_aliquots(a.pp_desc, 'clean_qq' in cfg) != a.pp_desc:
            why = 'normalising the normalised text again changes it'
    if why:
        rep.violation('failing-input', {'chain': chain, 'text': text, 'config': cfg, 'why': why,
                                        'pp_desc': a.pp_desc, 'qqs': a.qqs, 'canonical_qqs': b.qqs})


LEFT = ['', ' ', 'of ', 'of the ', ', ', 'N½', 'NE¼']
RIGHT = ['', ' ', ',', ';', '.', 'N½', 'SW¼', ' of Section']


def run(ctx):
    rep = ctx.rep
    rng = Rng(ctx.seed, 7)
    items = []
    # exhaustive documented single-component table with contexts (executed lexical contract)
    n_tab = 0
    for c in gen.COMPS:
        for sp in doc_spellings(c):
            for left in LEFT:
                for right in RIGHT:
                    if sp[-1].isalpha() and right and right[0].isalpha():
                        continue
                    text = left + sp + right
                    exp = left + gen.canon_comp(c) + right
                    got = scrub_aliquots(text, False)
                    # joiners between aliquots are removed by design; compare modulo that removal on both sides
                    exp = scrub_aliquots(exp, False)
                    n_tab += 1
                    if got != exp:
                        rep.violation('lexical-contract', {'text': text, 'expected': exp, 'observed': got,
                                                           'why': 'documented spelling is not normalised to the canonical component'})
                    items.append((impl.line_tract_pp(text, False), impl.render(got), {'op': 'scrub_aliquots', 'text': text}))
    rep.extra['lexical_contract_cases'] = n_tab
    for i in range(ctx.budget(900, 200000)):
        r = rng.fork(i)
        chain = gen.rand_chain(r, 5)
        text = render(chain, r)
        cfg = cfg_for(r)
        safely(rep, 'spelling', check_chain, chain, text, cfg)
        if text != gen.canon_chain(chain):
            rep.nontrivial(text + '|' + cfg)
        rep.dist('c07_chain_len', len(chain))
        rep.sample({'text': text, 'canonical': gen.canon_chain(chain), 'config': cfg}, cap=5)
        clean = 'clean_qq' in cfg
        items.append((impl.line_tract_pp(text, clean), impl.impl_tract_pp(text, clean), {'op': 'scrub_aliquots', 'text': text, 'clean_qq': clean}))
        # looser renderings keep the model/implementation tie honest outside the oracle's domain
        loose = gen.render_chain(chain, r)
        items.append((impl.line_tract_pp(loose, clean), impl.impl_tract_pp(loose, clean), {'op': 'scrub_aliquots', 'text': loose, 'clean_qq': clean}))
    # bare quarters directly after a half ("E2NENW" -> E½NE¼NW¼), glued or spaced, any number of them
    for i in range(ctx.budget(300, 40000)):
        r = rng.fork(700000 + i)
        h = r.choice(gen.HALVES)
        qs = [r.choice(gen.QUARTERS) for _ in range(r.range(1, 3))]
        chain = [h] + qs
        hsp = r.choice([h + '½', h + '/2', h + '2', h + ' 1/2', gen.HALF_WORD[h] + ' Half'])
        j = r.choice(['', ' ', ' of ', ' of the ']) if not hsp[-1].isalpha() else r.choice([' ', ' of '])
        j2 = r.choice(['', ' ', ' of '])
        text = hsp + j + j2.join(qs)
        cfg = cfg_for(r).replace('clean_qq', '').strip(',').replace(',,', ',')
        safely(rep, 'bare_after_half', check_chain, chain, text, cfg)
        rep.count()
        rep.nontrivial(text + '|' + cfg)
        items.append((impl.line_tract_pp(text, False), impl.impl_tract_pp(text, False), {'op': 'scrub_aliquots', 'text': text}))
    # bare quarter: only under clean_qq or directly after a half
    for q in gen.QUARTERS:
        for h in gen.HALVES:
            rep.count()
            t0 = pytrs.Tract(q, parse_qq=True)
            t1 = pytrs.Tract(q, parse_qq=True, config='clean_qq')
            t2 = pytrs.Tract(h + '2' + q, parse_qq=True)
            ok = (t0.qqs == [] and t1.pp_desc == q + '¼' and t2.pp_desc == h + '½' + q + '¼')
            if not ok:
                rep.violation('failing-input', {'text': q, 'why': 'bare quarter handling', 'plain': t0.qqs,
                                                'clean_qq': t1.pp_desc, 'after_half': t2.pp_desc})
    # ... and this does not depend on what the same Tract was parsed with before: clean_qq used once (at creation, by a
    # committed parse or a committed preprocess) must not stick to a later parse without it
    for i in range(ctx.budget(60, 3000)):
        r = rng.fork(800000 + i)
        q = r.choice(gen.QUARTERS)
        text = r.choice([q, f'{q}, {r.choice(gen.QUARTERS)}', f'N/2 and the {q}', f'Lot 1, {q}', f'{q} of the {r.choice(gen.QUARTERS)}'])
        how = r.below(3)
        try:
            if how == 0:
                t = pytrs.Tract(text, config='clean_qq', parse_qq=True)
                t.parse(clean_qq=False)
            elif how == 1:
                t = pytrs.Tract(text)
                t.parse(clean_qq=True)
                t.parse(clean_qq=False)
            else:
                t = pytrs.Tract(text)
                t.preprocess(clean_qq=True, commit=True)
                t.parse(clean_qq=False)
            fresh = pytrs.Tract(text, parse_qq=True)
            rep.count()
            rep.nontrivial(('sticky', text, how))
            if (t.qqs, t.lots) != (fresh.qqs, fresh.lots):
                rep.violation('failing-input', {'text': text, 'sequence': ['clean_qq at creation', 'parse(clean_qq=True) first', 'preprocess(clean_qq=True, commit=True) first'][how],
                                                'why': 'a bare quarter is still read as an aliquot by a parse without clean_qq', 'observed': t.qqs, 'fresh': fresh.qqs})
        except Exception as e:  # noqa
            rep.violation('failing-input', {'text': text, 'why': f'raised {type(e).__name__}: {e}'})
    ctx.compare(items)


def replay(payload):
    from common import Report
    rep = Report('C07', 'quick', 0)
    p = payload.get('replay', {})
    if 'chain' in p:
        check_chain(rep, p['chain'], p['text'], p['config'])
    elif 'expected' in p:
        return scrub_aliquots(p['text'], False) == p['expected']
    return not rep.violations
