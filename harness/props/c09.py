"""C09 — every tract is well-formed and traceable to its source."""
import descs
import gen
from common import Rng

import pytrs

RULE = ("same input space as C03 (structured, damaged and token-soup strings x valid configs x layouts); every produced tract "
        "is examined; non-trivial = a description yielding at least one tract with a standard Twp/Rge/Sec; distinct by (text, config)")
TRUSTED = ["C09: regex-free re-decomposition of the trs string in the harness"]
ASSUMPTIONS = []


def decompose(trs):
    """regex-free: (twp, rge, sec, twp_num, ns, rge_num, ew, sec_num) or None when not well-formed (error placeholders allowed)"""
    def part(s, i, dirs):
        if s.startswith('XXXz', i):
            return 'XXXz', None, None, i + 4
        j = i
        while j < len(s) and j - i < 3 and s[j] in '0123456789':
            j += 1
        if j == i or j >= len(s) or s[j] not in dirs:
            return None
        return s[i:j + 1], int(s[i:j]), s[j], j + 1
    a = part(trs, 0, 'ns')
    if a is None:
        return None
    b = part(trs, a[3], 'ew')
    if b is None:
        return None
    rest = trs[b[3]:]
    if rest == 'XX':
        sec, sn = 'XX', None
    elif len(rest) == 2 and rest[0] in '0123456789' and rest[1] in '0123456789':
        sec, sn = rest, int(rest)
    else:
        return None
    return a[0], b[0], sec, a[1], a[2], b[1], b[2], sn


def check(rep, text, cfg, layout, source, usage='init'):
    # the same guarantees must hold however the parse was triggered: at init, after wait_to_parse, or on a re-parse
    if usage == 'init':
        d = pytrs.PLSSDesc(text, config=cfg, layout=layout, source=source)
    elif usage == 'wait':
        d = pytrs.PLSSDesc(text, config=cfg, layout=layout, source=source, wait_to_parse=True)
        d.parse()
    else:
        d = pytrs.PLSSDesc(text, config=cfg, layout=layout, source=source)
        d.parse()
        if usage == 'reparse_kw':
            d.parse(segment=True, parse_qq=True)
    good = False
    for i, t in enumerate(d.tracts):
        dec = decompose(t.trs)
        why = None
        if dec is None:
            why = f'trs {t.trs!r} is neither standard nor built from the error placeholders'
        else:
            twp, rge, sec, tn, ns, rn, ew, sn = dec
            if (t.twp, t.rge, t.sec, t.twp_num, t.twp_ns, t.rge_num, t.rge_ew, t.sec_num, t.twprge) != \
                    (twp, rge, sec, tn, ns, rn, ew, sn, twp + rge):
                why = 'attributes are not the decomposition of trs'
            elif t.orig_desc != text:
                why = 'orig_desc is not the complete original text'
            elif t.source != source:
                why = 'source tag not handed down'
            elif t.orig_index != i:
                why = f'orig_index {t.orig_index} at position {i}'
            elif tn is not None and rn is not None and sn is not None:
                good = True
        if why:
            rep.violation('failing-input', {'text': text, 'config': cfg, 'layout': layout, 'usage': usage, 'tract': i, 'trs': t.trs, 'why': why})
            break
    return good


def run(ctx):
    rep = ctx.rep
    rng = Rng(ctx.seed, 9)
    items = []
    for i in range(ctx.budget(900, 40000)):
        r = rng.fork(i)
        text = descs.any_text(r)
        if r.chance(1, 6):
            # other line-ending conventions and stray control characters: the recorded original text is the input, verbatim
            text = text.replace('\n', r.choice(['\r\n', '\r', '\n\r', '\r\n\t'])) if '\n' in text else text + r.choice(['\r\n', '\r', ' \r\n'])
        cfg = descs.valid_config(r)
        layout = r.choice([None, None, None, None] + gen.LAYOUTS + ['copy_all'])
        source = r.choice([None, 'doc 1', 'x'])
        usage = r.choice(['init', 'init', 'wait', 'reparse', 'reparse_kw'])
        try:
            good = check(rep, text, cfg, layout, source, usage)
        except Exception as e:  # noqa  (totality is C03's business; still a failing input for this property's observables)
            rep.violation('failing-input', {'text': text, 'config': cfg, 'layout': layout, 'why': f'raised {type(e).__name__}'})
            good = False
        rep.count()
        if good:
            rep.nontrivial((text, cfg, layout))
        rep.sample({'text': text[:160], 'config': cfg, 'layout': layout}, cap=4)
        if i % 3 == 0 or ctx.thorough:
            items.append(descs.corr_item(text, layout=layout, cfg=cfg, src=source))
        if usage != 'init' and i % 2 == 0:
            items.append(descs.corr_item(text, layout=layout, cfg=cfg, src=source, wait=True, kw={}))
    ctx.compare(items)


def replay(payload):
    return None      # no input-specific replay: run_check re-runs the check with the recorded seed and tier
