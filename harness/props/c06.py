"""C06 — tract parsing is compositional: lots, divisions, acreages and aliquots."""
import gen
import impl
from common import Rng

import pytrs


def safely(rep, what, f, *a):
    """run one oracle check; an exception escaping the library is itself a failing input for the observables"""
    try:
        return f(rep, *a)
    except Exception as e:  # noqa
        rep.violation('failing-input', {'check': what, 'args': [str(x)[:300] for x in a], 'why': f'raised {type(e).__name__}: {e}'})
        return None


RULE = ("sequences of 1-6 elements (lot | lot range | lot with acreage | aliquot-of-lot(s) | aliquot chain | ALL last) "
        "joined by ', ' / '; ' / ',\\n' x suppress_lot_divs x depth settings; compared with the concatenation of the "
        "single-element parses obtained from the implementation itself; non-trivial = at least 2 elements; distinct by text")
TRUSTED = ["C06: metamorphic oracle (whole = concatenation of parts) needs no model; adjacency side conditions LexElems "
           "are monitored on every generated text"]
ASSUMPTIONS = ["ALL only as the last element; separators contain a comma or semicolon (a bare line break between an "
               "aliquot and the next element joins them: known finding F16)"]

SEPS = [', ', '; ', ',\n', ';\n', ' , ']


def lot_elem(r):
    k = r.below(7)
    n = r.range(1, 40)
    if k == 0:
        return f'Lot {n}'
    if k == 1:
        m = n + r.range(1, 3)
        return f'Lots {n} {r.choice(["-", "through", "thru", "to"])} {m}'
    if k == 2:
        return f'Lot {n} ({r.range(1, 80)}.{r.range(0, 99):02d})'
    if k == 3:
        return f'Lot {n} [{r.range(1, 80)}.{r.range(0, 9)}]'
    if k == 4:
        return f'Lots {n} and {n + r.range(1, 5)}'
    # a range whose first and / or last lot states its acreage
    m = n + r.range(1, 3)
    a1 = f'({r.range(1, 80)}.{r.range(0, 99):02d})' if r.chance(2, 3) else ''
    a2 = f'[{r.range(1, 80)}.{r.range(0, 9)}]' if (not a1 or r.chance(1, 2)) else ''
    return f'Lots {n}{a1} {r.choice(["-", "through", "thru"])} {m}{a2}'


def aliquot_elem(r):
    ch = gen.rand_chain(r, 3)
    sty = r.below(3)
    if sty == 0:
        return gen.canon_chain(ch)
    return ''.join(c + ('/2' if c in gen.HALVES else '/4') for c in ch)


def divided_lot_elem(r):
    ch = gen.rand_chain(r, 2)
    a = ''.join(c + ('/2' if c in gen.HALVES else '/4') for c in ch)
    return a + r.choice([' of ', ' ', ' of ']) + lot_elem(r)


def rand_elems(r):
    n = r.range(1, 6)
    out = []
    for _ in range(n):
        k = r.below(10)
        out.append(lot_elem(r) if k < 4 else aliquot_elem(r) if k < 8 else divided_lot_elem(r))
    if r.chance(1, 5) and out:
        out.append(r.choice(out))          # force a duplicate element
    if r.chance(1, 8):
        out.append('ALL')                  # ALL only as the last element (see known finding C06-all-not-last)
    return out


def cfg_for(r):
    parts = []
    if r.chance(1, 3):
        parts.append('suppress_lot_divs')
    k = r.below(4)
    if k == 1:
        parts.append('qq_depth_min.1')
    elif k == 2:
        parts.append('qq_depth.2')
    elif k == 3:
        parts.append('qq_depth_min.3')
    if r.chance(1, 5):
        parts.append('break_halves')
    return ','.join(parts)


def snap(t):
    return {'lots': t.lots, 'qqs': t.qqs, 'lot_acres': t.lot_acres, 'aliquots_whole': t.aliquots_whole}


OTHER_SETTINGS = [{'suppress_lot_divs': True}, {'qq_depth': 1}, {'qq_depth_max': 2}, {'qq_depth_min': 1}, {'break_halves': True},
                  {'suppress_lot_divs': False}, {}]


def stated_in_text(text):
    import re
    out = {}
    for m in re.finditer(r'(\d{1,3})\s*[\(\[]([\d.]+)[\)\]]', text):
        out.setdefault('L' + str(int(m.group(1))), []).append(m.group(2))
    return out


def dup_consistent(t):
    dl = len(set(t.lots)) != len(t.lots)
    dq = len(set(t.qqs)) != len(t.qqs)
    fl = any(f.startswith('dup_lot<') for f in t.w_flags)
    fq = any(f.startswith('dup_qq<') for f in t.w_flags)
    if dl != fl:
        return f'dup_lot warning present={fl} but a lot occurs twice={dl}'
    if dq != fq:
        return f'dup_qq warning present={fq} but an aliquot occurs twice={dq}'
    return None


def check(rep, elems, sep, cfg, rng=None):
    text = sep.join(elems)
    whole = pytrs.Tract(text, parse_qq=True, config=cfg)
    parts = [pytrs.Tract(e, parse_qq=True, config=cfg) for e in elems]
    exp_lots = [x for p in parts for x in p.lots]
    exp_qqs = [x for p in parts for x in p.qqs]
    exp_whole = [x for p in parts for x in p.aliquots_whole]
    stated = {}
    for p in parts:
        for k, v in p.lot_acres.items():
            stated.setdefault(k, []).append(v)
    why = None
    if whole.lots != exp_lots:
        why = 'lots differ from the concatenation of the single-element results'
    elif whole.qqs != exp_qqs:
        why = 'aliquots differ from the concatenation of the single-element results'
    elif whole.aliquots_whole != exp_whole:
        why = 'aliquots_whole differs'
    elif stated_in_text(text) and not all(k in whole.lot_acres and whole.lot_acres[k] in v for k, v in stated_in_text(text).items()):
        # independent reading of the text: a number directly followed by (acres) or [acres] states that lot's acreage
        why = 'a stated lot acreage is not attributed to its lot'
    elif set(whole.lot_acres) != set(stated) or any(whole.lot_acres[k] not in v for k, v in stated.items()):
        # (when one lot has two stated acreages the property does not say which one wins)
        why = 'a stated lot acreage is not attributed to its lot'
    elif any(len(v) > 1 for v in stated.values()) != any(f.startswith('dup_lot_acreage<') for f in whole.w_flags):
        why = 'dup_lot_acreage warning does not match "some lot has two stated acreages"'
    elif whole.lots_qqs != whole.lots + whole.qqs:
        why = 'lots_qqs is not lots followed by qqs'
    elif whole.ilots != [int(x.split('L')[-1]) for x in whole.lots]:
        why = 'ilots does not mirror lots'
    else:
        why = dup_consistent(whole)
    if not why and rng is not None:
        # the duplicate warnings must keep describing the tract's own lots / aliquots through further parses:
        # an exploratory parse (commit=False) with other settings changes nothing; a committed one replaces both
        kw = rng.choice(OTHER_SETTINGS)
        commit = rng.chance(1, 2)
        before = (list(whole.lots), list(whole.qqs), list(whole.w_flags))
        whole.parse(commit=commit, **kw)
        if not commit and (whole.lots, whole.qqs, whole.w_flags) != before:
            why = f'parse(commit=False, {kw}) changed the tract'
        else:
            why = dup_consistent(whole)
            if why:
                why = f'after parse(commit={commit}, {kw}): ' + why
            # ... and through a THIRD and FOURTH committed parse under yet other settings (stale book-keeping of "which flags
            # did the previous parse generate" shows only then)
            for kw2 in (rng.choice(OTHER_SETTINGS), {'suppress_lot_divs': False, 'qq_depth_max': None}, rng.choice(OTHER_SETTINGS)):
                if why:
                    break
                whole.parse(**{k: v for k, v in kw2.items() if v is not None})
                why = dup_consistent(whole)
                if why:
                    why = f'after a further parse({kw2}): ' + why
    if not why and rng is not None and rng.chance(1, 3):
        # "an aliquot written directly before a lot group qualifies those lots as a lot division unless divisions are suppressed":
        # suppression (and break_halves) switched ON in the configuration and OFF again by an explicit keyword must parse like a
        # tract that never had the setting, and the other way round
        for setting in ('suppress_lot_divs', 'break_halves'):
            plain = pytrs.Tract(text, parse_qq=True)
            with_it = pytrs.Tract(text, parse_qq=True, config=setting)
            t_on = pytrs.Tract(text, parse_qq=True, config=setting)
            t_on.parse(**{setting: False})
            t_off = pytrs.Tract(text, parse_qq=True)
            t_off.parse(**{setting: True})
            if (t_on.lots, t_on.qqs) != (plain.lots, plain.qqs):
                why = f'configured {setting}, then parse({setting}=False): not the result of a tract without the setting'
            elif (t_off.lots, t_off.qqs) != (with_it.lots, with_it.qqs):
                why = f'parse({setting}=True) on a plain tract: not the result of a tract configured with the setting'
            if why:
                whole = t_on if 'False' in why else t_off
                exp_lots, exp_qqs = (plain.lots, plain.qqs) if 'False' in why else (with_it.lots, with_it.qqs)
                break
    if why:
        rep.violation('failing-input', {'elements': elems, 'separator': sep, 'config': cfg, 'text': text, 'why': why,
                                        'observed': snap(whole), 'expected_lots': exp_lots, 'expected_qqs': exp_qqs})


def run(ctx):
    rep = ctx.rep
    rng = Rng(ctx.seed, 6)
    items = []
    for i in range(ctx.budget(900, 150000)):
        r = rng.fork(i)
        elems = rand_elems(r)
        sep = r.choice(SEPS)
        cfg = cfg_for(r)
        safely(rep, 'compose', check, elems, sep, cfg, r)
        text = sep.join(elems)
        if len(elems) >= 2:
            rep.nontrivial(text + '|' + cfg)
        rep.dist('c06_elements', len(elems))
        rep.sample({'text': text, 'config': cfg}, cap=5)
        a = (text, 'clean_qq' in cfg, 'suppress_lot_divs' in cfg, 2, None, None, 'break_halves' in cfg)
        items.append((impl.line_tract_parse(*a), impl.impl_tract_parse(*a), {'op': 'tract.parse', 'text': text}))
        # single divided-lot element: the aliquot qualifies the lot and is not reported on its own
        n = r.range(1, 30)
        ch = gen.rand_chain(r, 2)
        a_txt = ''.join(c + ('/2' if c in gen.HALVES else '/4') for c in ch)
        plain = ''.join(c + ('2' if c in gen.HALVES else '') for c in ch)
        t = pytrs.Tract(f'{a_txt} of Lot {n}', parse_qq=True)
        ts = pytrs.Tract(f'{a_txt} of Lot {n}', parse_qq=True, config='suppress_lot_divs')
        if t.lots != [f'{plain} of L{n}'] or t.qqs != [] or ts.lots != [f'L{n}'] or ts.qqs != []:
            rep.violation('failing-input', {'text': f'{a_txt} of Lot {n}', 'why': 'lot division', 'observed': t.lots,
                                            'observed_qqs': t.qqs, 'suppressed': ts.lots})
        rep.count()
    ctx.compare(items)
    # known findings (outside the proved domain): exhibited on the implementation, never silently excluded
    t = pytrs.Tract('ALL, Lot 1', parse_qq=True)
    if t.qqs == [] and t.lots == ['L1']:
        rep.violation('failing-input', {'text': 'ALL, Lot 1', 'why': 'ALL is only recognised as the last element'}, tag='C06-all-not-last')
    t = pytrs.Tract('NE/4\nNW/4', parse_qq=True)
    if t.qqs == ['NENW']:
        rep.violation('failing-input', {'text': 'NE/4\\nNW/4', 'why': 'a bare line break joins two aliquots'}, tag='C06-linebreak-joins')


def replay(payload):
    from common import Report
    rep = Report('C06', 'quick', 0)
    p = payload.get('replay', {})
    if 'elements' in p:
        check(rep, p['elements'], p['separator'], p['config'])
    return not rep.violations
