"""C20 — optional parse modes are conservative where they are not needed."""
import descs
import gen
from common import Rng

import pytrs


def safely(rep, what, f, *a):
    """run one oracle check; an exception escaping the library is itself a failing input for the observables"""
    try:
        return f(rep, *a)
    except Exception as e:  # noqa
        rep.violation('failing-input', {'check': what, 'args': [str(x)[:300] for x in a], 'why': f'raised {type(e).__name__}: {e}'})
        return None


RULE = ("single-layout descriptions of C01 x {segment}; descriptions with every subset-style removal of colons (all / none) x "
        "{sec_colon_required, sec_colon_cautious}; (leading text, section or range, trailing text, Twp/Rge before / inside / "
        "after) x {sec_within}; non-trivial = more than one tract or a mode that changes the default outcome; distinct by (text, mode)")
TRUSTED = []
ASSUMPTIONS = ["sec_within: exactly one embedded section or multi-section; lead/trail text free of Twp/Rge and section words"]


def tr(d):
    return [(t.trs, t.desc) for t in d.tracts]


CULL_ONLY = ['the', 'of', 'in', 'and', 'all of', 'all in']     # cleanup_desc's connector words (a block consisting of nothing else)


def check_segment(rep, text):
    a = pytrs.PLSSDesc(text)
    b = pytrs.PLSSDesc(text, config='segment')
    if tr(a) != tr(b):
        # listed finding, keyed narrowly: the ONLY difference is that a description which consists of one connector word
        # (after the chunk-wise clean-up also removed the section's colon) comes out empty under segment
        ta, tb = tr(a), tr(b)
        tag = None
        if len(ta) == len(tb) and all(x[0] == y[0] for x, y in zip(ta, tb)) and \
                all(x[1] == y[1] or (y[1] == '' and x[1].strip().lower() in ('the', 'of', 'in', 'and', 'all')) for x, y in zip(ta, tb)):
            tag = 'C20-segment-cull-word'
        rep.violation('failing-input', {'text': text, 'mode': 'segment', 'why': 'segment changes the tracts of a single-layout description',
                                        'default': tr(a)[:8], 'segment': tr(b)[:8]}, tag=tag)


def backref_desc(r):
    """a TRS_desc / S_desc_TR description some of whose blocks refer back to their own section and Twp/Rge ('... lying within
    Section 4 of T154N-R97W ...'): the library documents such a Twp/Rge as a reference inside the text (twprge_ignored), not a
    new one.  Returns (text, expected tracts)."""
    lay = r.choice(['TRS_desc', 'S_desc_TR'])
    g2 = []
    for (t, ns, rr, ew, sgs) in gen.rand_abs_desc(r, 3, 3, 2):
        nsgs = []
        for its, block in sgs:
            if r.chance(1, 2):
                n = gen.expand_items(its)[0]
                trs = r.choice(gen.twprge_spellings(t, ns, rr, ew))
                block = (r.choice(['That part of the NE/4', 'A tract in the W/2', 'Lots 1 - 3']) + r.choice([' lying within ', ' in ', ' of ', ', '])
                         + f'Section {n}' + r.choice([' of ', ' in ', ', ']) + trs + r.choice(['', ' north of the river', ' containing 40 acres']))
            nsgs.append((its, block))
        g2.append((t, ns, rr, ew, nsgs))
    return gen.render_desc(g2, lay, r), gen.expected_tracts(g2)


def check_segment_backref(rep, text, expected):
    a = pytrs.PLSSDesc(text)
    if a.e_flags or tr(a) != expected:
        return False          # not read as the single-layout description it was meant to be: outside this clause
    b = pytrs.PLSSDesc(text, config='segment')
    if tr(a) != tr(b):
        rep.violation('failing-input', {'text': text, 'mode': 'segment', 'why': 'segment changes the tracts of a single-layout description '
                                        '(blocks that refer back to their own section and Twp/Rge)', 'default': tr(a)[:8], 'segment': tr(b)[:8]})
    return True


def check_colons_present(rep, text):
    a = pytrs.PLSSDesc(text)
    for mode in ('sec_colon_required', 'sec_colon_cautious'):
        b = pytrs.PLSSDesc(text, config=mode)
        if tr(a) != tr(b) or b.w_flags != a.w_flags:
            rep.violation('failing-input', {'text': text, 'mode': mode, 'why': 'colon mode changes the result although every section has a colon',
                                            'default': tr(a)[:8], 'mode_result': tr(b)[:8], 'w_flags': b.w_flags})
            return


def check_colons_absent(rep, text, order=0):
    # the three modes meet the text in varying order (the first parse of a text in a process must not decide the others),
    # each mode twice
    made = {}
    for mode in [('d', 'c', 'q'), ('c', 'q', 'd'), ('q', 'c', 'd'), ('c', 'd', 'q')][order % 4]:
        cfg = {'d': None, 'c': 'sec_colon_cautious', 'q': 'sec_colon_required'}[mode]
        made[mode] = pytrs.PLSSDesc(text, config=cfg)
    a, c, q = made['d'], made['c'], made['q']
    c2 = pytrs.PLSSDesc(text, config='sec_colon_cautious')
    q2 = pytrs.PLSSDesc(text)
    q2.parse(sec_colon_required=True)
    why = None
    if (tr(c2), c2.w_flags) != (tr(c), c.w_flags):
        why = 'a second sec_colon_cautious parse of the same text differs from the first'
    elif tr(q2) != tr(q):
        why = 'parse(sec_colon_required=True) differs from config sec_colon_required on the same text'
    if why:
        pass
    elif tr(c) != tr(a):
        why = 'sec_colon_cautious changes the tracts'
    elif not any(f.startswith('pulled_sec_without_colon') for f in c.w_flags):
        why = 'sec_colon_cautious did not warn'
    elif not (len(q.tracts) == 1 and q.tracts[0].desc == q.pp_desc):
        why = 'sec_colon_required did not keep the whole text in one fallback tract'
    if why:
        rep.violation('failing-input', {'text': text, 'why': why, 'default': tr(a)[:6], 'cautious': tr(c)[:6], 'required': tr(q)[:6],
                                        'cautious_flags': c.w_flags})


PREAMBLES = ['Parcel ZZTOPAZ', 'Also the following:', 'Tract KKBARIUM of the survey']
LEADS = ['That part of the NE/4 of', 'A strip of land 100 feet wide across', 'All that portion of', 'The railroad right-of-way through']
TRAILS = ['lying within the right-of-way', 'lying north of the river', 'described by metes and bounds as follows', 'containing 40 acres',
          'only', 'east', 'N2N2', 'north', 'RoW 2']


def check_sec_within(rep, r):
    lead = r.choice(LEADS)
    trail = r.choice(TRAILS)
    items = [('single', r.range(1, 36))] if r.chance(1, 2) else [('range', 1, 1 + r.range(1, 3))]
    sec = gen.render_items(items, r, ['Section ', 'Sec ', 'Sections '], repeat_word=False)
    trg = 'T154N-R97W'
    place = r.below(5)
    pre = ''
    if place == 0:
        text = f'{trg} {lead} {sec} {trail}'
    elif place == 1:
        text = f'{lead} {sec}, {trg}, {trail}'
    elif place == 2:
        text = f'{lead} {sec} {trail}, {trg}'
    elif place == 3:
        # text before the Twp/Rge as well: two leftover blocks, one before and one after the captured description
        pre = r.choice(PREAMBLES)
        text = f'{pre} {trg}: {lead} {sec} {trail}'
    else:
        pre = r.choice(PREAMBLES)
        text = f'{lead} {sec} {pre} {trg} {trail}'
    d = pytrs.PLSSDesc(text, config='sec_within')
    secs = [f'{n:02d}' for n in gen.expand_items(items)]
    why = None
    if [t.sec for t in d.tracts] != secs or any(t.twprge != '154n97w' for t in d.tracts):
        why = "the section's tract(s) are not produced"
    else:
        core = lead[:-3] if lead.endswith(' of') else lead     # a trailing 'of' is a connector, removed by design
        for t in d.tracts:
            il, it_ = t.desc.find(core), t.desc.find(trail)
            if il < 0 or it_ < 0 or il > it_:
                why = 'description is not the leading and trailing text joined in order'
                break
        if not why and pre and any(pre.rstrip(':') not in t.desc for t in d.tracts):
            why = 'leftover text before/after the Twp/Rge was not re-attached to the description'
        if not why and pre:
            # all pieces in reading order: (preamble,) lead, (preamble,) trail
            p0 = pre.rstrip(':')
            for t in d.tracts:
                ip, il, it_ = t.desc.find(p0), t.desc.find(core), t.desc.find(trail)
                if (place == 3 and not ip < il < it_) or (place == 4 and not il < ip < it_):
                    why = 'the re-attached pieces are not in reading order'
                    break
        if not why and not any(f.startswith('sec_within<') for f in d.w_flags):
            why = 'no sec_within warning'
    if why:
        rep.violation('failing-input', {'text': text, 'mode': 'sec_within', 'why': why, 'tracts': tr(d)[:4], 'w_flags': d.w_flags,
                                        'e_flags': d.e_flags})
    return text


def run(ctx):
    rep = ctx.rep
    rng = Rng(ctx.seed, 20)
    items = []
    for i in range(ctx.budget(250, 8000)):
        r = rng.fork(i)
        text, lay, g = descs.structured(r)
        safely(rep, 'segment', check_segment, text)
        rep.count()
        n = len(gen.expected_tracts(g))
        if n > 1:
            rep.nontrivial((text, 'segment'))
        items.append(descs.corr_item(text, cfg='segment'))
        if i % 5 == 0:
            # blocks that consist of a connector word only (known finding C20-segment-cull-word; anything else is new)
            w1, w2 = r.choice(CULL_ONLY + ['NE/4']), r.choice(CULL_ONLY + ['W/2'])
            tc = (f'T{r.range(1, 160)}N-R{r.range(1, 99)}W Sec {r.range(1, 36)}: {w1}{r.choice(["; ", ", ", chr(10)])}'
                  f'T{r.range(1, 160)}N-R{r.range(1, 99)}W Sec {r.range(1, 36)}: {w2}')
            safely(rep, 'segment (connector-word blocks)', check_segment, tc)
            rep.count()
        for _ in range(2):
            tb, eb = backref_desc(r)
            if safely(rep, 'segment (back references)', check_segment_backref, tb, eb):
                rep.nontrivial((tb, 'segment'))
                rep.dist('c20_backref', 'counted')
                items.append(descs.corr_item(tb, cfg='segment'))
            rep.count()
        t2, lay2, g2 = descs.structured(r, max_tr=2, max_sg=2, layout=r.choice(['TRS_desc', 'S_desc_TR']), colons=True)
        safely(rep, 'colons_present', check_colons_present, t2)
        t3 = t2.replace(':', '')
        # removing the colon after the Twp/Rge spelling 'T..: ' is harmless; sections now have none
        safely(rep, 'colons_absent', check_colons_absent, t3, i)
        rep.count(2)
        rep.nontrivial((t3, 'colons'))
        items.append(descs.corr_item(t3, cfg='sec_colon_cautious'))
        if i % 2 == 0:
            items.append(descs.corr_item(t3, cfg='sec_colon_required'))
        t4 = safely(rep, 'sec_within', check_sec_within, r) or ''
        rep.count()
        rep.nontrivial((t4, 'sec_within'))
        items.append(descs.corr_item(t4, cfg='sec_within'))
        rep.sample({'segment': text[:120], 'no_colons': t3[:120], 'sec_within': t4}, cap=3)
    # known finding, always exhibited on the implementation
    safely(rep, 'segment (connector-word blocks)', check_segment, 'T154N-R97W Sec 1: the; T155N-R97W Sec 2: NE/4')
    ctx.compare(items)


def replay(payload):
    return None      # no input-specific replay: run_check re-runs the check with the recorded seed and tier
