"""C10 — flags are well-typed, shared with tracts, and raised whenever warranted."""
import descs
import gen
from common import Rng

import pytrs

RULE = ("C03's input space (strings x valid configs x layouts) plus trigger phrases placed at token boundaries of generated "
        "descriptions; non-trivial = the description carries at least one flag; distinct by (text, config)")
TRUSTED = []
ASSUMPTIONS = ["trigger wording is placed inside the text of a parsed chunk (with `segment`, text outside every chunk is "
               "reported as unused text, not scanned for triggers)"]

TRIGGERS = [('less and except', 'less_except'), ('except', 'less_except'), ('limited to', 'less_except'),
            ('insofar as', 'insofar'), ('only insofar', 'insofar'), ('including', 'including'),
            ('surface to the base of', 'depth'), ('depths', 'depth'), ('formation', 'depth'), ('wellbore', 'well'),
            ('well', 'well')]


def earlier_same_flag(text, phrase, flag):
    from pytrs.parser import rgxlib
    rgx = {'well': rgxlib.well_regex, 'depth': rgxlib.depth_regex, 'including': rgxlib.including_regex,
           'less_except': rgxlib.less_except_regex, 'insofar': rgxlib.isfa_regex}[flag]
    k = text.lower().find(phrase.split()[0].lower())
    return k > 0 and any(m.start() < k for m in rgx.finditer(text))


def typed_ok(flags, lines):
    if not isinstance(flags, list) or not isinstance(lines, list):
        return 'flag containers are not lists'
    if any(not isinstance(f, str) for f in flags):
        return 'a flag is not a str'
    for l in lines:
        if not (isinstance(l, tuple) and len(l) == 2 and isinstance(l[0], str) and isinstance(l[1], str)):
            return 'a flag line is not a (str, str) tuple'
    if len(flags) != len(lines) or [l[0] for l in lines] != flags:
        return 'flags and flag lines are not paired one-to-one'
    return None


def state_ok(d):
    """typing, sharing and flawed-ness of a description and its tracts, as they stand now"""
    why = typed_ok(d.w_flags, d.w_flag_lines) or typed_ok(d.e_flags, d.e_flag_lines)
    if not why:
        for t in d.tracts:
            why = typed_ok(t.w_flags, t.w_flag_lines) or typed_ok(t.e_flags, t.e_flag_lines)
            if why:
                why = 'tract: ' + why
                break
            for a in ('w_flags', 'e_flags', 'w_flag_lines', 'e_flag_lines'):
                mine = getattr(t, a)
                if any(x not in mine for x in getattr(d, a)):
                    why = f'a description {a[:-1]} is missing on a tract'
                    break
            if why:
                break
    if not why:
        # the combined views `.flags` / `.flag_lines` (errors first, then warnings) of the description and of each tract
        for o in [d] + list(d.tracts):
            if o.flags != o.e_flags + o.w_flags or o.flag_lines != o.e_flag_lines + o.w_flag_lines:
                why = '.flags / .flag_lines are not the error flags followed by the warning flags'
                break
            if typed_ok(o.flags, o.flag_lines):
                why = '.flags / .flag_lines: ' + typed_ok(o.flags, o.flag_lines)
                break
    if not why and d.desc_is_flawed != (len(d.e_flags) > 0):
        why = 'desc_is_flawed does not agree with the error flags'
    if not why and any(('XXXz' in t.trs or t.trs.endswith('XX')) for t in d.tracts) and not d.e_flags:
        why = 'a tract has an undecipherable Twp/Rge/Sec but there is no error flag'
    return why


REPARSE_KW = [{}, {'qq_depth': 1}, {'break_halves': True}, {'clean_qq': True}, {'qq_depth_min': 1, 'qq_depth_max': 3},
              {'suppress_lot_divs': True}]


def check(rep, text, cfg, layout, trigger=None, rng=None):
    d = pytrs.PLSSDesc(text, config=cfg, layout=layout, parse_qq=True)
    tag = None
    why = state_ok(d)
    if not why and rng is not None:
        # the same must hold after the tracts are parsed again (all of them, or one), with or without new settings
        step = rng.below(4)
        if step == 0:
            kw = rng.choice(REPARSE_KW)
            d.parse_tracts(**kw)
            why = state_ok(d)
            if why:
                why = f'after parse_tracts({kw}): ' + why
        elif step == 1 and d.tracts:
            kw = rng.choice(REPARSE_KW)
            d.tracts[rng.below(len(d.tracts))].parse(**kw)
            why = state_ok(d)
            if why:
                why = f'after tract.parse({kw}): ' + why
        elif step == 2:
            d.parse_tracts()
            d.parse_tracts(**rng.choice(REPARSE_KW))
            why = state_ok(d)
            if why:
                why = 'after parse_tracts() twice: ' + why
    if not why and trigger:
        phrase, flag = trigger
        hits = [l for l in d.w_flag_lines if l[0] == flag]
        if not hits:
            why = f'trigger wording {phrase!r} did not raise the {flag!r} warning'
        elif not any(phrase.split()[0].lower() in l[1].lower() for l in hits):
            why = f'the {flag!r} warning context does not contain the triggering words'
            # the listed finding is specific: a trigger that starts inside the context window of an EARLIER warning of the same
            # kind.  A trigger with no earlier match of its pattern in the text (e.g. at the very start of the text) is not it.
            if earlier_same_flag(d.pp_desc, phrase, flag):
                tag = 'C10-trigger-cut-by-context'
    if why:
        rep.violation('failing-input', {'text': text, 'config': cfg, 'layout': layout, 'trigger': trigger, 'why': why,
                                        'w_flags': str(d.w_flags)[:300], 'e_flags': str(d.e_flags)[:300]}, tag=tag)
    return bool(d.w_flags or d.e_flags)


def run(ctx):
    rep = ctx.rep
    rng = Rng(ctx.seed, 10)
    items = []
    for i in range(ctx.budget(700, 30000)):
        r = rng.fork(i)
        text = descs.any_text(r)
        cfg = descs.valid_config(r)
        layout = r.choice([None, None, None, None] + gen.LAYOUTS + ['copy_all'])
        try:
            has = check(rep, text, cfg, layout, rng=r)
        except Exception as e:  # noqa
            rep.violation('failing-input', {'text': text, 'config': cfg, 'why': f'raised {type(e).__name__}'})
            has = False
        rep.count()
        if has:
            rep.nontrivial((text, cfg, layout))
        if i % 3 == 0 or ctx.thorough:
            items.append(descs.corr_item(text, layout=layout, cfg=cfg, pq=True))
        # trigger phrase placed inside a structured description
        # (canonical one-token Twp/Rge spelling: a trigger word is never placed *inside* a Twp/Rge)
        base, lay, g = descs.structured(r, max_tr=2, max_sg=2, canonical_tr=True)
        toks = base.split(' ')
        p = 0 if r.chance(1, 6) else r.below(len(toks) + 1)     # the very start of the text: no room for left context
        trig = r.choice(TRIGGERS)
        t2 = ' '.join(toks[:p] + [trig[0]] + toks[p:])
        mode = r.choice([None, None, 'sec_within', 'sec_colon_cautious', 'parse_qq'])
        try:
            check(rep, t2, mode, None, trig)
        except Exception as e:  # noqa
            rep.violation('failing-input', {'text': t2, 'config': mode, 'why': f'raised {type(e).__name__}'})
        rep.count()
        rep.nontrivial((t2, mode))
        rep.dist('c10_trigger', trig[1])
        rep.sample({'text': t2[:200], 'trigger': trig[0], 'config': mode}, cap=5)
        if i % 3 == 1:
            items.append(descs.corr_item(t2, cfg=mode, pq=True))
    # known finding, always exhibited on the implementation
    try:
        check(rep, '97n-97e\nE/2, less and except the wellbore, Section 11 and 24, and limited to 13 Through 16', None, None,
              ('limited to', 'less_except'))
    except Exception:  # noqa
        pass
    ctx.compare(items)


def replay(payload):
    from common import Report
    rep = Report('C10', 'quick', 0)
    p = payload.get('replay', {})
    if 'text' in p:
        t = p.get('trigger')
        check(rep, p['text'], p.get('config'), p.get('layout'), tuple(t) if t else None)
    return not rep.violations
