"""C08 — Twp/Rge spellings are equivalent; missing directions come from defaults only."""
import gen
import impl
from common import Rng

import pytrs
from pytrs.parser.config.master_config import MasterConfig


def safely(rep, what, f, *a):
    """run one oracle check; an exception escaping the library is itself a failing input for the observables"""
    try:
        return f(rep, *a)
    except Exception as e:  # noqa
        rep.violation('failing-input', {'check': what, 'args': [str(x)[:300] for x in a], 'why': f'raised {type(e).__name__}: {e}'})
        return None


RULE = ("Twp/Rge numbers (1-3 digits) x N/S x E/W x documented spellings x presence/absence of each direction letter x "
        "default_ns/default_ew via config string, keyword and MasterConfig (also each axis from a different source) x ocr_scrub, embedded in a description with "
        "neighbours (start, ', ', newline, Sec, aliquots such as 'N2 W2', 'Lot 2,'); non-trivial = spelling differs from "
        "the canonical 'T154N-R97W'; distinct by (text, channel)")
TRUSTED = ["C08: the lexical part (what twprge_regex / pp_twprge_* match) is executed on the regenerated patterns for every "
           "generated spelling; unpack_twprge algebra is a theorem for every match object"]
ASSUMPTIONS = ["range '2' only with an explicit 'R'; a spelling with a missing direction keeps 'T' and 'R' (or the other "
               "direction) as the preprocessing patterns require"]


def spellings(t, ns, r, ew):
    NS = {'N': 'North', 'S': 'South'}[ns]
    EW = {'E': 'East', 'W': 'West'}[ew]
    out = [f"T{t}{ns}-R{r}{ew}", f"Township {t} {NS}, Range {r} {EW}", f"Twp. {t} {ns}., Rge. {r} {ew}.",
           f"t{t}{ns.lower()}-r{r}{ew.lower()}", f"T{t}{ns} R{r}{ew}", f"township {t} {NS.lower()}, range {r} {EW.lower()}",
           f"Township {t} {NS} - Range {r} {EW}", f"T{t}{ns}, R{r}{ew}"]
    if str(r) != '2':
        out += [f"{t}{ns}-{r}{ew}", f"{t}{ns.lower()}-{r}{ew.lower()}"]
    return out


def missing_dir_spellings(t, ns, r, ew):
    """(text, has_ns, has_ew)"""
    return [(f"T{t}-R{r}", False, False), (f"T{t}{ns}-R{r}", True, False), (f"T{t}-R{r}{ew}", False, True),
            (f"Township {t}, Range {r}", False, False), (f"Twp {t} {ns}, Rge {r}", True, False),
            (f"T{t} R{r}{ew}", False, True)]


TAILS = [' Sec 14: NE/4', '\nSection 14: Lot 2, N2 W2', ', Sec 14: NE/4', ': Sec 14: Lot 2, N2 W2', ' Sec 14: S/2']


def check_explicit(rep, t, ns, r, ew, sp, tail, dns, dew, channel):
    canon = f"T{t}{ns}-R{r}{ew}"
    text = sp + tail
    short = f"{t}{ns.lower()}{r}{ew.lower()}"
    old = (MasterConfig.default_ns, MasterConfig.default_ew)
    try:
        if channel == 'config':
            d = pytrs.PLSSDesc(text, config=f"{dns},{dew}")
            found = pytrs.find_twprge(text, default_ns=dns, default_ew=dew, preprocess=True)
        elif channel == 'keyword':
            d0 = pytrs.PLSSDesc(text, wait_to_parse=True)
            tracts = d0.parse(default_ns=dns, default_ew=dew, commit=True)
            d = d0
            found = pytrs.find_twprge(text, default_ns=dns, default_ew=dew, preprocess=True)
        else:
            MasterConfig.default_ns, MasterConfig.default_ew = dns, dew
            d = pytrs.PLSSDesc(text)
            found = pytrs.find_twprge(text, preprocess=True)
    finally:
        MasterConfig.default_ns, MasterConfig.default_ew = old
    why = None
    if not d.pp_desc.startswith(canon):
        why = f'preprocessed text does not start with {canon}'
    elif [x.trs for x in d.tracts] != [short + '14']:
        why = f'tracts {[x.trs for x in d.tracts]} instead of {short}14'
    elif found != [canon]:
        why = f'find_twprge gave {found}'
    if why:
        rep.violation('failing-input', {'text': text, 'default_ns': dns, 'default_ew': dew, 'channel': channel,
                                        'why': why, 'pp_desc': d.pp_desc, 'trs': [x.trs for x in d.tracts]})


def check_missing(rep, t, ns, r, ew, sp, has_ns, has_ew, tail, channel, lead=''):
    """defaults fill the gaps (and only the gaps), with a warning; same tracts as if written out.
    `lead`: text put in front (e.g. the same Twp/Rge written out in full with its own section: the warning is still due)"""
    dns = ns.lower()
    dew = ew.lower()
    # the written direction is the opposite of the default: the default must not override it
    alt_ns = 's' if dns == 'n' else 'n'
    alt_ew = 'e' if dew == 'w' else 'w'
    use_ns = dns if not has_ns else alt_ns
    use_ew = dew if not has_ew else alt_ew
    text = lead + sp + tail
    canon = f"T{t}{ns}-R{r}{ew}"
    old = (MasterConfig.default_ns, MasterConfig.default_ew)
    try:
        if isinstance(channel, tuple):
            # each axis from a source of its own (config string / parse keyword / MasterConfig); an axis that does not come
            # from MasterConfig finds the opposite value there, which must not win
            src_ns, src_ew = channel
            opp = {'n': 's', 's': 'n', 'e': 'w', 'w': 'e'}
            MasterConfig.default_ns = use_ns if src_ns == 'master' else opp[use_ns]
            MasterConfig.default_ew = use_ew if src_ew == 'master' else opp[use_ew]
            cfg = ','.join(v for v, src in ((use_ns, src_ns), (use_ew, src_ew)) if src == 'config')
            kw = {k: v for k, v, src in (('default_ns', use_ns, src_ns), ('default_ew', use_ew, src_ew)) if src == 'keyword'}
            d = pytrs.PLSSDesc(text, config=cfg or None, wait_to_parse=True)
            d.parse(**kw)
        elif channel == 'config':
            d = pytrs.PLSSDesc(text, config=f"{use_ns},{use_ew}")
        elif channel == 'keyword':
            d = pytrs.PLSSDesc(text, wait_to_parse=True)
            d.parse(default_ns=use_ns, default_ew=use_ew)
        else:
            MasterConfig.default_ns, MasterConfig.default_ew = use_ns, use_ew
            d = pytrs.PLSSDesc(text)
    finally:
        MasterConfig.default_ns, MasterConfig.default_ew = old
    ref = pytrs.PLSSDesc(lead + canon + tail)
    why = None
    if not d.pp_desc.startswith(canon):
        why = f'preprocessed text does not start with {canon}'
    elif [(x.trs, x.desc) for x in d.tracts] != [(x.trs, x.desc) for x in ref.tracts]:
        why = 'tracts differ from those of the written-out spelling'
    elif not any(f.startswith('fixed_twprge<') for f in d.w_flags):
        why = 'no fixed_twprge warning although a direction was filled in'
    if why:
        rep.violation('failing-input', {'text': text, 'default_ns': use_ns, 'default_ew': use_ew, 'channel': channel,
                                        'why': why, 'pp_desc': d.pp_desc, 'trs': [x.trs for x in d.tracts], 'w_flags': d.w_flags})


def check_keyword_is_one_off(rep, t, ns, r, ew, sp, has_ns, has_ew, tail, via_master):
    """a default direction passed as a keyword to one parse() fills the gaps of THAT parse only: the next plain parse() (and
    preprocess()) goes back to the configured default / MasterConfig"""
    dns, dew = ns.lower(), ew.lower()
    opp = {'n': 's', 's': 'n', 'e': 'w', 'w': 'e'}
    text = sp + tail
    old = (MasterConfig.default_ns, MasterConfig.default_ew)
    try:
        if via_master:
            MasterConfig.default_ns, MasterConfig.default_ew = dns, dew
            d = pytrs.PLSSDesc(text, wait_to_parse=True)
        else:
            d = pytrs.PLSSDesc(text, config=f'{dns},{dew}', wait_to_parse=True)
        d.parse(default_ns=opp[dns], default_ew=opp[dew])
        first = [x.trs for x in d.tracts]
        d.parse()
        second = [x.trs for x in d.tracts]
        pp = d.preprocess(commit=False)
        ref = pytrs.PLSSDesc(text, config=None if via_master else f'{dns},{dew}')
    finally:
        MasterConfig.default_ns, MasterConfig.default_ew = old
    canon = f"T{t}{ns}-R{r}{ew}"
    if second != [x.trs for x in ref.tracts] or not pp.startswith(canon) or not d.pp_desc.startswith(canon):
        rep.violation('failing-input', {'text': text, 'configured_defaults': [dns, dew], 'via': 'MasterConfig' if via_master else 'config string',
                                        'why': 'after parse(default_ns=, default_ew=) a plain parse() / preprocess() no longer uses the configured defaults',
                                        'keyword_parse': first, 'plain_parse_after': second, 'fresh_object': [x.trs for x in ref.tracts], 'pp_desc': d.pp_desc})


OCR = {'1': ['I', 'l'], '0': ['O'], '5': ['S']}


def run(ctx):
    rep = ctx.rep
    rng = Rng(ctx.seed, 8)
    items = []
    for i in range(ctx.budget(500, 20000)):
        r = rng.fork(i)
        t = r.choice([1, 7, 12, 154, 100, 9, 23, 999, 30])
        rg = r.choice([1, 3, 7, 14, 97, 101, 58, 2, 22, 10])
        ns, ew = r.choice('NS'), r.choice('EW')
        sp = r.choice(spellings(t, ns, rg, ew))
        tail = r.choice(TAILS)
        channel = r.choice(['config', 'keyword', 'master'])
        # explicit directions: defaults are the opposite ones and must not matter
        safely(rep, 'explicit', check_explicit, t, ns, rg, ew, sp, tail, 's' if ns == 'N' else 'n', 'e' if ew == 'W' else 'w', channel)
        msp, hn, he = r.choice(missing_dir_spellings(t, ns, rg, ew))
        safely(rep, 'missing', check_missing, t, ns, rg, ew, msp, hn, he, tail, channel)
        # each axis' default from a source of its own
        mixed = (r.choice(['config', 'keyword', 'master']), r.choice(['config', 'keyword', 'master']))
        safely(rep, 'missing-mixed-sources', check_missing, t, ns, rg, ew, msp, hn, he, tail, mixed)
        rep.count()
        rep.dist('c08_mixed_sources', '/'.join(mixed))
        if i % 2 == 0:
            safely(rep, 'keyword-is-one-off', check_keyword_is_one_off, t, ns, rg, ew, msp, hn, he, tail, r.chance(1, 2))
            rep.count()
        if i % 3 == 0:
            # the same Twp/Rge once written out in full and once with a direction missing: the filled-in one is still reported
            lead = f"T{t}{ns}-R{rg}{ew} Sec {r.range(1, 36)}: ALL, "
            safely(rep, 'missing-repeated', check_missing, t, ns, rg, ew, msp, hn, he, tail, channel, lead)
            rep.count()
            rep.nontrivial((lead + msp + tail, channel))
        if sp != f"T{t}{ns}-R{rg}{ew}":
            rep.nontrivial((sp + tail, channel))
        rep.nontrivial((msp + tail, channel))
        rep.count(2)
        rep.sample({'explicit': sp + tail, 'missing_direction': msp + tail, 'channel': channel}, cap=5)
        rep.dist('c08_channel', channel)
        mc = ('n', 'w') if r.chance(1, 2) else (r.choice('ns'), r.choice('ew'))
        for text in (sp + tail, msp + tail):
            dns = r.choice([None, 'n', 's'])
            dew = r.choice([None, 'e', 'w'])
            ocr = r.chance(1, 4)
            items.append((impl.line_plss_pp(mc, text, dns, dew, ocr), impl.impl_plss_pp(mc, text, dns, dew, ocr),
                          {'op': 'plss_preprocess', 'text': text, 'mc': mc, 'ns': dns, 'ew': dew, 'ocr': ocr}))
            items.append((impl.line_find_twprge(mc, text, dns, dew, True, ocr), impl.impl_find_twprge(mc, text, dns, dew, True, ocr),
                          {'op': 'find_twprge', 'text': text}))
        # OCR look-alikes in the numbers
        digits = str(t)
        cand = [k for k, c in enumerate(digits) if c in OCR]
        if cand and len(digits) >= 2:
            k = r.choice(cand)
            garbled = digits[:k] + r.choice(OCR[digits[k]]) + digits[k + 1:]
            text = f"T{garbled}{ns}-R{rg}{ew}" + tail
            d = pytrs.PLSSDesc(text, config='ocr_scrub')
            rep.count()
            if not d.pp_desc.startswith(f"T{t}{ns}-R{rg}{ew}"):
                rep.violation('failing-input', {'text': text, 'config': 'ocr_scrub', 'why': 'look-alike letter not read as digit',
                                                'pp_desc': d.pp_desc}, tag='C08-ocr-range2' if str(rg) == '2' else None)
            items.append((impl.line_plss_pp(('n', 'w'), text, None, None, True), impl.impl_plss_pp(('n', 'w'), text, None, None, True),
                          {'op': 'plss_preprocess', 'text': text, 'ocr': True}))
    ctx.compare(items)


def replay(payload):
    return None      # no input-specific replay: run_check re-runs the check with the recorded seed and tier
