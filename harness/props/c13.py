"""C13 — configuration round-trips through text and has a single precedence order."""
import descs
import gen
import hist
import impl
from common import Rng

import pytrs
from pytrs.parser.config.config import Config
from pytrs.parser.config.master_config import MasterConfig
import pytrs.parser.plssdesc.plssdesc as plssdesc_mod
import pytrs.parser.tract.tract as tract_mod


def safely(rep, what, f, *a):
    """run one oracle check; an exception escaping the library is itself a failing input for the observables"""
    try:
        return f(rep, *a)
    except Exception as e:  # noqa
        rep.violation('failing-input', {'check': what, 'args': [str(x)[:300] for x in a], 'why': f'raised {type(e).__name__}: {e}'})
        return None


RULE = ("all single-setting assignments (16 settings: booleans in {unset, True, False}, directions, layouts, integer depths) "
        "x the three channels (config string at creation, assignment to .config before parsing, keyword to parse()) x "
        "PLSSDesc and Tract, on descriptions where the setting changes the outcome; pairs of conflicting sources; random "
        "full assignments for the text round trip; non-trivial = every (setting, value, channel) triple; distinct by that triple")
TRUSTED = ["C13: the parameters actually received by PLSSParser / TractParser are observed by wrapping their constructors "
           "from the harness (no repository hook)"]
ASSUMPTIONS = ["well-formed values (bools, ints, n/s/e/w, implemented layouts)"]

BOOLS = ['wait_to_parse', 'parse_qq', 'clean_qq', 'sec_colon_required', 'sec_colon_cautious', 'suppress_lot_divs', 'ocr_scrub',
         'segment', 'break_halves', 'sec_within']
INTS = ['qq_depth', 'qq_depth_min', 'qq_depth_max']


def rand_cfg_dict(r):
    d = {}
    for a in BOOLS:
        k = r.below(3)
        if k:
            d[a] = (k == 1)
    for a in INTS:
        if r.chance(1, 3):
            d[a] = r.range(0, 4)
    if r.chance(1, 2):
        d['default_ns'] = r.choice('ns')
    if r.chance(1, 2):
        d['default_ew'] = r.choice('ew')
    if r.chance(1, 3):
        d['layout'] = r.choice(gen.LAYOUTS + ['copy_all'])
    return d


def cfg_text(d, r=None):
    parts = []
    for k, v in d.items():
        if k in ('default_ns', 'default_ew'):
            parts.append(v if (r is None or r.chance(1, 2)) else f'{k}.{v}')
        elif k == 'layout':
            parts.append(v if (r is None or r.chance(1, 2)) else f'layout.{v}')
        elif v is True and (r is None or r.chance(1, 2)):
            parts.append(k)
        else:
            sep = '.' if r is None else r.choice(['.', '='])
            parts.append(f'{k}{sep}{v}')
    if r is not None:
        r.shuffle(parts)
        return r.choice([',', ', ', ';', ' ; ']).join(parts)
    return ','.join(parts)


def attrs_of(c):
    return {a: getattr(c, a) for a in Config._CONFIG_ATTRIBUTES if getattr(c, a) is not None}


def check_roundtrip(rep, d, text):
    c = Config(text)
    if attrs_of(c) != d:
        return rep.violation('failing-input', {'config_text': text, 'why': 'Config(text) does not hold the settings written in the text',
                                               'expected': d, 'observed': attrs_of(c)})
    t2 = c.decompile_to_text()
    c2 = Config(t2)
    if attrs_of(c2) != d or c2.decompile_to_text() != t2:
        rep.violation('failing-input', {'config_text': text, 'decompiled': t2, 'why': 'configuration does not survive conversion to text and back',
                                        'observed': attrs_of(c2)})
    c3 = Config.from_dict(d)
    if attrs_of(Config(c3.decompile_to_text())) != d:
        rep.violation('failing-input', {'config_dict': d, 'why': 'from_dict -> text -> Config loses settings'})
    c4 = Config.from_kwargs(**d)
    if attrs_of(c4) != d or attrs_of(Config(c4.decompile_to_text())) != d:
        rep.violation('failing-input', {'config_dict': d, 'why': 'from_kwargs -> text -> Config loses settings'})
    # the configuration of an object, read back from the object (Config.from_parent), goes through text unchanged too
    import pytrs
    for obj in (pytrs.PLSSDesc('T154N-R97W Sec 14: NE/4', config=text, wait_to_parse=True), pytrs.Tract('NE/4', config=text)):
        c5 = Config.from_parent(obj)
        want = {a: getattr(obj, a, None) for a in ('layout', 'parse_qq', 'clean_qq', 'default_ns', 'default_ew', 'suppress_lot_divs')}
        got = {a: getattr(c5, a) for a in want}
        back = Config(c5.decompile_to_text())
        if got != want or attrs_of(back) != attrs_of(c5):
            rep.violation('failing-input', {'config_text': text, 'object': type(obj).__name__,
                                            'why': 'Config.from_parent does not carry the object\'s settings through text and back',
                                            'object_settings': want, 'from_parent': got, 'after_text': attrs_of(back)})


class Capture:
    """records the keyword arguments PLSSParser / TractParser are constructed with"""

    def __init__(self):
        self.desc_calls = []
        self.tract_calls = []

    def __enter__(self):
        self.P, self.T = plssdesc_mod.PLSSParser, tract_mod.TractParser
        cap = self

        class P2(self.P):
            def __init__(s, *a, **k):
                cap.desc_calls.append(dict(k))
                super().__init__(*a, **k)

        class T2(self.T):
            def __init__(s, *a, **k):
                cap.tract_calls.append({x: y for x, y in k.items() if x != 'parent'})
                super().__init__(*a, **k)
        plssdesc_mod.PLSSParser = P2
        tract_mod.TractParser = T2
        return self

    def __exit__(self, *a):
        plssdesc_mod.PLSSParser, tract_mod.TractParser = self.P, self.T


def effect(tracts):
    return [(t.trs, t.desc, t.lots, t.qqs, t.w_flags, t.e_flags, t.pp_desc) for t in tracts]


# description on which each setting matters
DESC_FOR = {
    'parse_qq': 'T154N-R97W Sec 14: N2 NE, Lot 1',
    'clean_qq': 'T154N-R97W Sec 14: NE, N2',
    'sec_colon_required': 'T154N-R97W Sec 14 NE/4',
    'sec_colon_cautious': 'T154N-R97W Sec 14 NE/4',
    'suppress_lot_divs': 'T154N-R97W Sec 14: N/2 of Lot 1',
    'ocr_scrub': 'TI54N-R97W Sec 14: NE/4',
    'segment': 'T154N-R97W Sec 14: NE/4, T155N-R97W NW/4 of Sec 1',
    'break_halves': 'T154N-R97W Sec 14: N/2 N/2 N/2',
    'sec_within': 'T154N-R97W That part of Sec 14 lying north of the river',
    'qq_depth': 'T154N-R97W Sec 14: N/2 NE/4',
    'qq_depth_min': 'T154N-R97W Sec 14: N/2 NE/4',
    'qq_depth_max': 'T154N-R97W Sec 14: N/2 NE/4 NW/4',
    'default_ns': 'T154-R97W Sec 14: NE/4',
    'default_ew': 'T154N-R97 Sec 14: NE/4',
    'layout': 'NE/4 of Sec 14, T154N-R97W',
}
DESC_KW = ['parse_qq', 'clean_qq', 'sec_colon_required', 'sec_colon_cautious', 'ocr_scrub', 'segment', 'break_halves',
           'sec_within', 'qq_depth', 'qq_depth_min', 'qq_depth_max', 'default_ns', 'default_ew', 'layout']
TRACT_KW = ['clean_qq', 'suppress_lot_divs', 'qq_depth', 'qq_depth_min', 'qq_depth_max', 'break_halves']
TRACT_TEXT = {'clean_qq': 'NE, N2', 'suppress_lot_divs': 'N/2 of Lot 1', 'qq_depth': 'N/2 NE/4', 'qq_depth_min': 'N/2 NE/4',
              'qq_depth_max': 'N/2 NE/4 NW/4', 'break_halves': 'N/2 N/2 N/2'}


DEPTH_FAMILY = ('qq_depth', 'qq_depth_min', 'qq_depth_max')
COLON_FAMILY = ('sec_colon_required', 'sec_colon_cautious')


def values_for(s):
    if s in BOOLS:
        return [True, False]
    if s in INTS:
        return [1, 2, 3]
    if s == 'default_ns':
        return ['n', 's']
    if s == 'default_ew':
        return ['e', 'w']
    return gen.LAYOUTS + ['copy_all']


def one_cfg(s, v):
    return cfg_text({s: v})


def check_desc_channels(rep, s, v, base_cfg, items, hists):
    text = DESC_FOR[s]
    base = 'parse_qq' if s not in ('parse_qq',) else ''
    cfg_full = ','.join(x for x in (base, base_cfg, one_cfg(s, v)) if x)
    pre = ','.join(x for x in (base, base_cfg) if x)
    with Capture() as cap:
        a = pytrs.PLSSDesc(text, config=cfg_full)
        b = pytrs.PLSSDesc(text, config=pre, wait_to_parse=True)
        b.config = one_cfg(s, v)
        b.parse()
        c = pytrs.PLSSDesc(text, config=pre, wait_to_parse=True)
        c.parse(**{s: v})
        # a conflicting value in the config string must lose against the keyword
        other = [x for x in values_for(s) if x != v][0]
        d = pytrs.PLSSDesc(text, config=','.join(x for x in (pre, one_cfg(s, other)) if x), wait_to_parse=True)
        d.parse(**{s: v})
    ea, eb, ec, ed = effect(a.tracts), effect(b.tracts), effect(c.tracts), effect(d.tracts)
    why = None
    if ea != eb:
        why = 'config string at creation and assignment to .config differ'
    elif ea != ec:
        why = 'config string and parse() keyword differ'
    elif ec != ed:
        why = 'a conflicting config value was not overridden by the keyword'
    if why:
        rep.violation('failing-input', {'class': 'PLSSDesc', 'setting': s, 'value': v, 'base_config': pre, 'text': text, 'why': why,
                                        'config_string': ea[:3], 'assigned': eb[:3], 'keyword': ec[:3], 'conflict': ed[:3]})
    if not why:
        # a Config *object* given by the caller is input, not scratch space: after any parse (keywords, dry runs) it still says
        # what it said, and a second object built from it behaves like one built from the same text
        for base2 in (base_cfg, pre):
            cobj = Config(base2 or None)
            before = attrs_of(cobj)
            with Capture():
                e1 = pytrs.PLSSDesc(text, config=cobj, wait_to_parse=True)
                e1.parse(commit=False, **{s: v})
                e1.parse(**{s: v})
                e2 = pytrs.PLSSDesc(text, config=cobj)
                ref = pytrs.PLSSDesc(text, config=base2 or None)
                t1 = pytrs.Tract('NE, N2, N/2 of Lot 1', trs='154n97w14', config=cobj, parse_qq=True)
                tref = pytrs.Tract('NE, N2, N/2 of Lot 1', trs='154n97w14', config=base2 or None, parse_qq=True)
            if attrs_of(cobj) != before or effect(e2.tracts) != effect(ref.tracts) or effect([t1]) != effect([tref]):
                rep.violation('failing-input', {'class': 'PLSSDesc', 'setting': s, 'value': v, 'config_object': base2, 'text': text,
                                                'why': 'a Config object passed to PLSSDesc was changed by parse(): objects built from it '
                                                       'afterwards get settings nobody configured',
                                                'config_before': str(before), 'config_after': str(attrs_of(cobj))})
                break
    items.append(descs.corr_item(text, cfg=cfg_full))
    items.append(descs.corr_item(text, cfg=pre, wait=True, kw={s: v}))
    h = [('desc', 0, text, None, pre, None, None, True), ('desc.config', 0, one_cfg(s, v)), ('desc.parse', 0, True, {})]
    hists.append((h, hist.run_history(h)))


PAIR_SETTINGS = ['parse_qq', 'clean_qq', 'sec_colon_required', 'sec_colon_cautious', 'ocr_scrub', 'segment', 'break_halves',
                 'sec_within', 'default_ns', 'default_ew', 'layout']
PAIR_TEXTS = ['T154N-R97W Sec 14 NE/4', 'T154N-R97W Sec 14: NE/4, Sec 15 W/2', 'TI54-R97 Sec 14 NE, N2, T155N-R97W NW/4 of Sec 1',
              'T154N-R97 That part of Sec 14 lying north of the river', 'NE/4 of Sec 14, T154-R97W']


def check_pair_channels(rep, s1, v1, s2, v2, ch1, ch2, text, items):
    """two different settings, each delivered through its own channel ('create' | 'assign' | 'keyword'):
    the result must be the one obtained with both in the config string at creation"""
    ref = pytrs.PLSSDesc(text, config=','.join(['parse_qq' if 'parse_qq' not in (s1, s2) else '', one_cfg(s1, v1), one_cfg(s2, v2)]).strip(','))
    create = [x for x in ('parse_qq' if 'parse_qq' not in (s1, s2) else '',) if x]
    assign, kw = [], {}
    for s, v, ch in ((s1, v1, ch1), (s2, v2, ch2)):
        if ch == 'create':
            create.append(one_cfg(s, v))
        elif ch == 'assign':
            assign.append(one_cfg(s, v))
        else:
            kw[s] = v
    d = pytrs.PLSSDesc(text, config=','.join(create), wait_to_parse=True)
    if assign:
        # assigning a config replaces the Config object but only sets the settings it names
        d.config = ','.join(assign)
    d.parse(**kw)
    if effect(ref.tracts) != effect(d.tracts):
        rep.violation('failing-input', {'class': 'PLSSDesc', 'settings': {s1: [v1, ch1], s2: [v2, ch2]}, 'text': text,
                                        'why': 'the effect of two settings depends on the channels they came through',
                                        'all_in_config': effect(ref.tracts)[:3], 'mixed_channels': effect(d.tracts)[:3]})
    items.append(descs.corr_item(text, cfg=','.join(create), wait=True, kw=kw) if not assign else descs.corr_item(text, cfg=','.join(create + assign)))


def check_tract_channels(rep, s, v, items, hists):
    text = TRACT_TEXT[s]
    with Capture() as cap:
        a = pytrs.Tract(text, config='parse_qq,' + one_cfg(s, v))
        b = pytrs.Tract(text)
        b.config = one_cfg(s, v)
        b.parse()
        c = pytrs.Tract(text)
        c.parse(**{s: v})
        other = [x for x in values_for(s) if x != v][0]
        d = pytrs.Tract(text, config=one_cfg(s, other))
        d.parse(**{s: v})
    ea, eb, ec, ed = effect([a]), effect([b]), effect([c]), effect([d])
    why = None
    if ea != eb:
        why = 'config string at creation and assignment to .config differ'
    elif ea != ec:
        why = 'config string and parse() keyword differ'
    elif ec != ed:
        why = 'a conflicting config value was not overridden by the keyword'
    if why:
        rep.violation('failing-input', {'class': 'Tract', 'setting': s, 'value': v, 'text': text, 'why': why,
                                        'config_string': ea, 'assigned': eb, 'keyword': ec, 'conflict': ed})
    items.append(descs.tract_corr_item(text, cfg='parse_qq,' + one_cfg(s, v)))
    items.append(descs.tract_corr_item(text, kw={s: v}))
    h = [('tract', 0, text, None, None, None), ('tract.config', 0, one_cfg(s, v)), ('tract.parse', 0, True, {})]
    hists.append((h, hist.run_history(h)))


def check_masterconfig(rep):
    old = (MasterConfig.default_ns, MasterConfig.default_ew)
    try:
        MasterConfig.default_ns, MasterConfig.default_ew = 's', 'e'
        a = pytrs.PLSSDesc('T154-R97 Sec 14: NE/4')                      # MasterConfig fills both
        b = pytrs.PLSSDesc('T154-R97 Sec 14: NE/4', config='n,w')        # config string wins over MasterConfig
        c = pytrs.PLSSDesc('T154-R97 Sec 14: NE/4', config='n,w', wait_to_parse=True)
        c.parse(default_ns='s', default_ew='e')                           # keyword wins over config string
    finally:
        MasterConfig.default_ns, MasterConfig.default_ew = old
    got = ([t.trs for t in a.tracts], [t.trs for t in b.tracts], [t.trs for t in c.tracts])
    if got != (['154s97e14'], ['154n97w14'], ['154s97e14']):
        rep.violation('failing-input', {'text': 'T154-R97 Sec 14: NE/4', 'why': 'keyword > config string > MasterConfig not respected for default directions',
                                        'observed': got})


def run(ctx):
    rep = ctx.rep
    rng = Rng(ctx.seed, 13)
    items = []
    hists = []
    for i in range(ctx.budget(400, 15000)):
        r = rng.fork(i)
        d = rand_cfg_dict(r)
        text = cfg_text(d, r)
        safely(rep, 'config_roundtrip', check_roundtrip, d, text)
        rep.count()
        rep.nontrivial(text)
        rep.sample({'config_text': text}, cap=3)
        items.append((impl.line_config_text(text), impl.impl_config_text(text), {'op': 'Config', 'text': text}))
        bad = r.choice(['bogus', 'parse_q', 'qq_depth_mid.2', 'x.y', 'clean_qq.True.False', 'layout.TRS_desc.x', 'nw', '1'])
        t2 = (text + ',' if text else '') + bad
        try:
            Config(t2)
            rep.violation('failing-input', {'config_text': t2, 'why': 'unknown setting name accepted'})
        except ValueError:
            pass
        except Exception as e:  # noqa
            rep.violation('failing-input', {'config_text': t2, 'why': f'unknown setting raised {type(e).__name__}, not ValueError'})
        items.append((impl.line_config_text(t2), impl.impl_config_text(t2), {'op': 'Config', 'text': t2}))
    # precedence: every setting x value x class, on its own and on top of a random base configuration
    for s in DESC_KW:
        for v in values_for(s):
            for rep_i in range(3 if ctx.thorough else 1):
                r = rng.fork(900000 + len(items))
                # the base configuration never contains another member of the depth family when a depth setting is under
                # test (qq_depth vs qq_depth_min/max resolve against each other by their own rule, which the property
                # does not state), nor the other colon mode
                fam = DEPTH_FAMILY if s in DEPTH_FAMILY else (COLON_FAMILY if s in COLON_FAMILY else ())
                basec = '' if rep_i == 0 else cfg_text({k: x for k, x in rand_cfg_dict(r).items()
                                                         if k not in (s, 'wait_to_parse', 'layout', 'parse_qq') and k not in fam})
                try:
                    check_desc_channels(rep, s, v, basec, items, hists)
                except Exception as e:  # noqa
                    rep.violation('failing-input', {'class': 'PLSSDesc', 'setting': s, 'value': v, 'why': f'raised {type(e).__name__}: {e}'})
                rep.count()
                rep.nontrivial(('PLSSDesc', s, v, basec))
    for s in TRACT_KW:
        for v in values_for(s):
            try:
                check_tract_channels(rep, s, v, items, hists)
            except Exception as e:  # noqa
                rep.violation('failing-input', {'class': 'Tract', 'setting': s, 'value': v, 'why': f'raised {type(e).__name__}: {e}'})
            rep.count()
            rep.nontrivial(('Tract', s, v))
    rep.sample({'precedence_settings_PLSSDesc': DESC_KW, 'precedence_settings_Tract': TRACT_KW}, cap=6)
    # pairs of settings through mixed channels: the two colon modes exhaustively, other pairs sampled
    chans = ['create', 'assign', 'keyword']
    pair_cases = [('sec_colon_required', v1, 'sec_colon_cautious', v2, c1, c2, t)
                  for v1 in (True, False) for v2 in (True, False) for c1 in chans for c2 in chans if c1 != c2
                  for t in PAIR_TEXTS[:2]]
    for i in range(ctx.budget(60, 4000)):
        r = rng.fork(950000 + i)
        s1 = r.choice(PAIR_SETTINGS)
        s2 = r.choice([x for x in PAIR_SETTINGS if x != s1])
        pair_cases.append((s1, r.choice(values_for(s1)), s2, r.choice(values_for(s2)), r.choice(chans), r.choice(chans), r.choice(PAIR_TEXTS)))
    for (s1, v1, s2, v2, c1, c2, t) in pair_cases:
        if 'layout' in (s1, s2) and 'assign' in (c1 if s1 == 'layout' else c2,):
            continue      # (assigning a layout through .config after creation is covered by the single-setting check)
        try:
            check_pair_channels(rep, s1, v1, s2, v2, c1, c2, t, items)
        except Exception as e:  # noqa
            rep.violation('failing-input', {'class': 'PLSSDesc', 'settings': [s1, v1, c1, s2, v2, c2], 'text': t, 'why': f'raised {type(e).__name__}: {e}'})
        rep.count()
        rep.nontrivial(('pair', s1, v1, c1, s2, v2, c2, t))
    # wait_to_parse and suppress_lot_divs have no parse() keyword in PLSSDesc: config channels only
    a = pytrs.PLSSDesc('T154N-R97W Sec 14: NE/4', config='wait_to_parse')
    if len(a.tracts) != 0:
        rep.violation('failing-input', {'setting': 'wait_to_parse', 'why': "config 'wait_to_parse' ignored at creation"})
    b = pytrs.PLSSDesc('T154N-R97W Sec 14: N/2 of Lot 1', config='parse_qq,suppress_lot_divs')
    c = pytrs.PLSSDesc('T154N-R97W Sec 14: N/2 of Lot 1', config='parse_qq', wait_to_parse=True)
    c.config = 'suppress_lot_divs'
    c.parse()
    if effect(b.tracts) != effect(c.tracts) or b.tracts[0].lots != ['L1']:
        rep.violation('failing-input', {'setting': 'suppress_lot_divs', 'why': 'config channels differ', 'observed': [effect(b.tracts), effect(c.tracts)]})
    # depth family: a depth given in the config vs. a *different* depth keyword; PLSSDesc and Tract must agree
    for a in (1, 2, 3):
        for kw in ({'qq_depth_min': 1}, {'qq_depth_min': 3}, {'qq_depth_max': 2}, {'qq_depth_min': 1, 'qq_depth_max': 1},
                   {'qq_depth': 2}, {}):
            for cfgname in ('qq_depth', 'qq_depth_min', 'qq_depth_max'):
                cfg = f'{cfgname}.{a}'
                text = 'T154N-R97W Sec 14: N/2 NE/4 NW/4'
                try:
                    d = pytrs.PLSSDesc(text, config=cfg, wait_to_parse=True)
                    r1 = d.parse(parse_qq=True, commit=False, **kw)
                    t = pytrs.Tract('N/2 NE/4 NW/4', config=cfg)
                    t.parse(**kw)
                    if [x.qqs for x in r1] != [t.qqs]:
                        rep.violation('failing-input', {'class': 'PLSSDesc vs Tract', 'config': cfg, 'keywords': kw, 'text': text,
                                                        'why': 'the same config and keywords give different depths in PLSSDesc and in Tract',
                                                        'PLSSDesc': [x.qqs for x in r1], 'Tract': t.qqs})
                except Exception as e:  # noqa
                    rep.violation('failing-input', {'config': cfg, 'keywords': kw, 'why': f'raised {type(e).__name__}: {e}'})
                rep.count()
                rep.nontrivial(('depth-conflict', cfg, str(kw)))
                items.append(descs.corr_item(text, cfg=cfg, wait=True, kw=dict(kw, parse_qq=True)))
    # a setting given at creation keeps its effect when ANOTHER setting is assigned to .config afterwards (settings accumulate
    # on the object; the later assignment says nothing about the first setting): same result as both at creation
    for s1 in DESC_FOR:
        if s1 == 'parse_qq':
            continue
        for v1 in values_for(s1):
            for later in ('parse_qq', 'clean_qq' if s1 != 'clean_qq' else 'break_halves', 'parse_qq,segment.False' if s1 != 'segment' else 'parse_qq,sec_within.False'):
                text = DESC_FOR[s1]
                try:
                    with Capture():
                        both = pytrs.PLSSDesc(text, config=one_cfg(s1, v1) + ',' + later)
                        d = pytrs.PLSSDesc(text, config=one_cfg(s1, v1), wait_to_parse=True)
                        d.config = later
                        d.parse()
                        d2 = pytrs.PLSSDesc(text, config=later, wait_to_parse=True)
                        d2.config = one_cfg(s1, v1)
                        d2.parse()
                    if not (effect(both.tracts) == effect(d.tracts) == effect(d2.tracts)):
                        rep.violation('failing-input', {'class': 'PLSSDesc', 'setting': s1, 'value': v1, 'assigned_later': later, 'text': text,
                                                        'why': 'a setting given at creation loses its effect when another setting is assigned to '
                                                               '.config before parsing (or the other way round)',
                                                        'both_at_creation': effect(both.tracts)[:2], 'creation_then_assignment': effect(d.tracts)[:2],
                                                        'other_order': effect(d2.tracts)[:2]})
                except Exception as e:  # noqa
                    rep.violation('failing-input', {'setting': s1, 'value': v1, 'assigned_later': later, 'why': f'raised {type(e).__name__}: {e}'})
                rep.count()
                rep.nontrivial(('accumulate', s1, str(v1), later))
    for s1 in TRACT_KW:
        for v1 in values_for(s1):
            later = 'clean_qq' if s1 != 'clean_qq' else 'break_halves'
            with Capture():
                both = pytrs.Tract(TRACT_TEXT[s1], trs='154n97w14', config=one_cfg(s1, v1) + ',' + later, parse_qq=True)
                t = pytrs.Tract(TRACT_TEXT[s1], trs='154n97w14', config=one_cfg(s1, v1))
                t.config = later
                t.parse()
            if effect([both]) != effect([t]):
                rep.violation('failing-input', {'class': 'Tract', 'setting': s1, 'value': v1, 'assigned_later': later,
                                                'why': 'a setting given at creation loses its effect when another setting is assigned to .config'})
            rep.count()
    check_masterconfig(rep)
    rep.count(3)
    ctx.compare(items)
    hist.compare_histories(ctx, hists)


def replay(payload):
    return None      # no input-specific replay: run_check re-runs the check with the recorded seed and tier
