"""C03 — parsing is total: any text, any valid configuration, never an exception."""
import descs
import gen
import lexfacts
from common import Rng

import pytrs
from pytrs.parser.config.config import ConfigError
from pytrs.parser.config.master_config import DefaultNSError, DefaultEWError

RULE = ("strings: structured descriptions, truncated / shuffled / token-deleted variants, token soup of PLSS vocabulary, "
        "unicode, empty x random valid configs (layouts, segment, sec_within, colon modes, ocr_scrub, clean_qq, depths, "
        "default directions) x entry points (PLSSDesc init, parse, parse_tracts, Tract init, Tract.parse); non-trivial = "
        "non-empty text; distinct by (text, config, entry)")
TRUSTED = ["C03: CPython's re never raises on str input (engine abstract in the theorems)"]
ASSUMPTIONS = ["valid configuration = well-typed values for the 16 documented settings"]


def run_entry(rep, text, cfg, layout, entry):
    try:
        if entry == 'desc':
            d = pytrs.PLSSDesc(text, config=cfg, layout=layout, parse_qq=True)
            ok = len(d.tracts) >= 1
            d.parse_tracts()
        elif entry == 'desc_wait':
            d = pytrs.PLSSDesc(text, config=cfg, layout=layout, wait_to_parse=True)
            r = d.parse(commit=False)
            d.parse()
            ok = len(r) >= 1 and len(d.tracts) >= 1
        elif entry == 'tract':
            t = pytrs.Tract(text, config=cfg, parse_qq=True)
            t.parse()
            t.parse(commit=False, clean_qq=True, qq_depth=1)
            t.parse()                                   # a committed parse after a preview
            t.parse(commit=False)
            t.parse(qq_depth=2)
            ok = True
        elif entry == 'tract_preview_first':
            t = pytrs.Tract(text, trs='154n97w14', config=cfg)
            t.parse(commit=False)                       # preview before any committed parse
            t.parse()
            pytrs.TractList([t]).parse_tracts()
            ok = True
        else:
            t = pytrs.Tract(text, trs='154n97w14', config=cfg)
            t.preprocess(commit=True)
            t.parse(qq_depth_min=1, qq_depth_max=3, break_halves=True)
            ok = True
        if not ok:
            rep.violation('failing-input', {'text': text, 'config': cfg, 'layout': layout, 'entry': entry, 'why': 'no tract produced'})
    except Exception as e:  # noqa
        rep.violation('failing-input', {'text': text, 'config': cfg, 'layout': layout, 'entry': entry,
                                        'why': f'raised {type(e).__name__}: {e}'})


def expect_exc(rep, f, classes, what):
    try:
        f()
    except classes:
        return
    except Exception as e:  # noqa
        rep.violation('failing-input', {'call': what, 'why': f'raised {type(e).__name__} instead of the documented exception'})
        return
    rep.violation('failing-input', {'call': what, 'why': 'invalid argument accepted without exception'})


def run(ctx):
    rep = ctx.rep
    rng = Rng(ctx.seed, 3)
    items = []
    for i in range(ctx.budget(900, 40000)):
        r = rng.fork(i)
        text = descs.any_text(r)
        cfg = descs.valid_config(r)
        layout = r.choice([None, None, None, None] + gen.LAYOUTS + ['copy_all'])
        entry = r.choice(['desc', 'desc', 'desc_wait', 'tract', 'tract_trs', 'tract_preview_first'])
        if entry.startswith('tract') and r.chance(1, 3):
            # tract texts whose parse generates flags of its own (duplicates, descending ranges, acreage stated twice)
            text = r.choice(['NE/4, NE/4', 'Lots 1, 2, 2', 'Lots 4 - 1', 'Lot 1(40.1), Lot 1(39.9)', 'N/2NE/4, NE/4NE/4', 'Lots 8 - 6, 7, NE/4, N/2']) \
                + r.choice(['', ', ' + text[:40]])
        run_entry(rep, text, cfg, layout, entry)
        lexfacts.check_text(rep, text, lots=entry.startswith('tract'))
        rep.count()
        if text.strip():
            rep.nontrivial((text, cfg, layout, entry))
        rep.dist('c03_entry', entry)
        rep.sample({'text': text[:160], 'config': cfg, 'layout': layout, 'entry': entry}, cap=5)
        if entry.startswith('desc') and (i % 3 == 0 or ctx.thorough):
            items.append(descs.corr_item(text, layout=layout, cfg=cfg, pq=True if entry == 'desc' else None))
        elif entry == 'tract' and i % 3 == 0:
            items.append(descs.tract_corr_item(text, cfg=cfg, pq=True))
    # OCR-garbled Twp/Rge numbers under ocr_scrub: every character the OCR pattern admits into a number, not only those the
    # substitution table repairs
    # every character the OCR Twp/Rge pattern admits into a number (asked of the compiled pattern itself, so IGNORECASE's Unicode
    # partners such as U+017F, U+0131, U+0130 are included), not only those the substitution table repairs
    from pytrs.parser.rgxlib import pp_twprge_ocr_scrub
    admitted = ''.join(chr(c) for c in range(0x20, 0x250) if not chr(c).isdigit()
                       and (m := pp_twprge_ocr_scrub.search(f'T1{chr(c)}4N-R97W')) is not None and m.group(0).startswith('T1' + chr(c)))
    OCR_CHARS = 'SsOoIiLl]|0159' + admitted
    rep.extra['ocr_admitted_chars'] = admitted
    for i in range(ctx.budget(150, 5000)):
        r = rng.fork(700000 + i)
        def garble(n):
            ds = list(str(n))
            for k in range(len(ds)):
                if r.chance(1, 2):
                    ds[k] = r.choice(OCR_CHARS)
            return ''.join(ds)
        t, rg = r.choice([154, 7, 100, 15]), r.choice([97, 3, 100, 10])
        ns, ew = r.choice('NS'), r.choice('EW')
        tr = r.choice([f'T{garble(t)}{ns}-R{garble(rg)}{ew}', f'Township {garble(t)} {"North" if ns == "N" else "South"}, Range {garble(rg)} '
                       f'{"West" if ew == "W" else "East"}', f'T{garble(t)}{ns} R{garble(rg)}{ew}', f'{garble(t)}{ns}-{garble(rg)}{ew}'])
        text = r.choice([tr + ' Sec 14: NE/4', 'NE/4 of Sec 14, ' + tr, tr + '\nSection 1: Lots 1 - 3', tr])
        cfg = ','.join(x for x in ('ocr_scrub', descs.valid_config(r) or '') if x)
        entry = r.choice(['desc', 'desc_wait', 'desc'])
        run_entry(rep, text, cfg, None, entry)
        rep.count()
        rep.nontrivial((text, cfg, None, entry))
        if i % 3 == 0:
            items.append(descs.corr_item(text, cfg=cfg, pq=True if entry == 'desc' else None))
    # invalid arguments: only the documented exception types
    expect_exc(rep, lambda: pytrs.PLSSDesc(3), (TypeError,), 'PLSSDesc(3)')
    expect_exc(rep, lambda: pytrs.PLSSDesc(None), (TypeError,), 'PLSSDesc(None)')
    expect_exc(rep, lambda: pytrs.PLSSDesc('x', config=3), (ConfigError,), "PLSSDesc('x', config=3)")
    expect_exc(rep, lambda: pytrs.Tract('x', config=3.5), (ConfigError,), "Tract('x', config=3.5)")
    expect_exc(rep, lambda: pytrs.PLSSDesc('x', config='bogus_setting'), (ValueError,), "config='bogus_setting'")
    expect_exc(rep, lambda: pytrs.Tract('x', config='nosuch.True'), (ValueError,), "Tract config='nosuch.True'")
    expect_exc(rep, lambda: pytrs.PLSSDesc('x', config='default_ns.q'), (DefaultNSError,), "config='default_ns.q'")
    expect_exc(rep, lambda: pytrs.PLSSDesc('x', config='default_ew.q'), (DefaultEWError,), "config='default_ew.q'")
    expect_exc(rep, lambda: pytrs.Tract('x', trs=5), (TypeError,), "Tract('x', trs=5)")
    expect_exc(rep, lambda: pytrs.Tract(5, parse_qq=True), (TypeError,), "Tract(5)")
    expect_exc(rep, lambda: pytrs.PLSSDesc('T154N-R97W Sec 1: X').parse(default_ns='q'), (DefaultNSError,), "parse(default_ns='q')")
    rep.count(11)
    items.append(descs.corr_item('x', cfg='bogus_setting'))
    items.append(descs.corr_item('x', cfg='default_ns.q'))
    items.append(descs.corr_item('x', cfg=3))
    lexfacts.record(rep)
    ctx.compare(items)


def replay(payload):
    from common import Report
    rep = Report('C03', 'quick', 0)
    p = payload.get('replay', {})
    if 'entry' in p:
        run_entry(rep, p['text'], p['config'], p['layout'], p['entry'])
    return not rep.violations
