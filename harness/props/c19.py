"""C19 — bulk export is faithful, ordered and total over documented attributes."""
import csv
import os
import tempfile

import elems
import impl
from common import Rng

import pytrs
from pytrs import Tract
from pytrs.tractwriter import TractWriter


def safely(rep, what, f, *a):
    """run one oracle check; an exception escaping the library is itself a failing input for the observables"""
    try:
        return f(rep, *a)
    except Exception as e:  # noqa
        rep.violation('failing-input', {'check': what, 'args': [str(x)[:300] for x in a], 'why': f'raised {type(e).__name__}: {e}'})
        return None


RULE = ("parsed descriptions (lots, acreages, flags with context, multi-line text, commas and quotes in descriptions) x "
        "subsets / orders of attribute names (all of Tract.ATTRIBUTES plus unknown names) x header options x write/append "
        "modes x both writers; non-trivial = at least one tract and two attributes; distinct by (text, attributes, mode)")
TRUSTED = ["C19: CPython's csv module implements the 'excel' dialect (the Lean quoting/reader model is cross-checked against it)"]
ASSUMPTIONS = []

TEXTS = [
    'T154N-R97W Sec 14: Lots 1 - 3, Lot 1(39.8), NE/4, less and except the wellbore',
    'T154N-R97W Sec 14: NE/4, "the quoted part", and more\nSec 15: W/2,\nline two',
    'T2N-R2W Sec 1 - 3: Lot 5 [40.1], N/2 of Lot 6, S/2',
    'That part of Sec 9 lying north, T1S-R1E',
    'T154N-R97W Section of land',
    'NE/4 of Sec 14, T154N-R97W; S/2 of Sec 5 thru 3, T1N-R1E',
    'no land description at all, just "text", commas',
]
ALL_ATTS = list(Tract.ATTRIBUTES.keys())


def joined(v):
    """the documented cell content: scalar as is; list / dict contents joined into one string"""
    if isinstance(v, dict):
        return ','.join(f'{k}:{x}' for k, x in v.items())
    if isinstance(v, (list, tuple)):
        flat = []

        def fl(x):
            for e in x:
                if isinstance(e, (list, tuple)):
                    fl(e)
                else:
                    flat.append(e)
        fl(v)
        return ', '.join(str(e) for e in flat)
    if v is None:
        return ''
    return str(v)


def alpha(n):
    """1 -> a, 26 -> z, 27 -> aa (the documented letter component of a TractWriter UID)"""
    out = ''
    while n > 0:
        n, r = divmod(n - 1, 26)
        out = chr(ord('a') + r) + out
    return out


def expected_header(atts, nice):
    """the documented header rule of get_headers / TractWriter / tracts_to_csv"""
    if isinstance(nice, dict):
        return [nice.get(a, a) for a in atts]
    if isinstance(nice, (list, tuple)):
        return list(nice)
    if nice:
        return [Tract.ATTRIBUTES.get(a, a) for a in atts]
    return list(atts)


def check(rep, text, cfg, atts, nice, mode, pre_exists, plus=None, uid=None):
    d = pytrs.PLSSDesc(text, config=cfg, parse_qq=True)
    tl = d.tracts
    why = None
    recs = tl.tracts_to_dict(atts)
    lists = tl.tracts_to_list(atts)
    exp = [{a: getattr(t, a, f'{a}: n/a') for a in atts} for t in tl]
    exp_l = [[getattr(t, a, f'{a}: n/a') for a in atts] for t in tl]
    if recs != exp or lists != exp_l or list(tl.iter_to_dict(atts)) != exp or list(tl.iter_to_list(atts)) != exp_l:
        why = 'records differ from the tract attributes'
    # the same through the description's own methods (PLSSDesc.tracts_to_dict / _list / iter_*) and per tract (to_dict / to_list)
    elif (d.tracts_to_dict(atts) != exp or d.tracts_to_list(atts) != exp_l or list(d.iter_to_dict(atts)) != exp
          or list(d.iter_to_list(atts)) != exp_l):
        why = 'PLSSDesc.tracts_to_dict / tracts_to_list / iter_to_dict / iter_to_list differ from the tract attributes'
    elif [t.to_dict(atts) for t in tl] != exp or [t.to_list(atts) for t in tl] != exp_l:
        why = 'Tract.to_dict / to_list differ from the tract attributes'
    elif Tract.get_headers(atts, nice, plus) != expected_header(atts, nice) + list(plus or []):
        why = 'get_headers does not follow the documented header rule'
    tmp = tempfile.mkdtemp(prefix='pytrs_verif_')
    try:
        for writer in ('tracts_to_csv', 'PLSSDesc.tracts_to_csv', 'TractWriter'):
            if why:
                break
            fp = os.path.join(tmp, writer + '.csv')
            if pre_exists:
                with open(fp, 'w', newline='') as f:
                    f.write('old,row\r\n')
            extra_h, extra_rows = [], [[] for _ in exp_l]
            try:
                if writer == 'tracts_to_csv':
                    tl.tracts_to_csv(atts, fp, mode, nice_headers=nice)
                elif writer == 'PLSSDesc.tracts_to_csv':
                    d.tracts_to_csv(atts, fp, mode, nice_headers=nice)
                else:
                    kw = {}
                    if plus:
                        kw['plus_cols'] = list(plus)
                    if uid is not None:
                        kw['uid'] = uid
                    w = TractWriter(atts, fp, mode, nice_headers=nice, **kw)
                    n_none0 = w.write(None)              # nothing to write: no row, but the UID number moves on
                    vals = [f'v{j}' for j in range(len(plus or []))]
                    n_written = w.write(d, plus_cols=vals) if plus else w.write(d)
                    n_none = w.write(None)
                    w.close()
                    reopened = uid is None and not plus and len(exp_l) > 0 and (len(atts) % 2 == 0)
                    if reopened:
                        # the documented close() -> open() -> write more: appended rows only, no second header
                        w.open()
                        n_again = w.write(d)
                        w.close()
                        if n_again != len(exp_l):
                            why = f'TractWriter.write after re-opening reports {n_again} rows for {len(exp_l)} tracts'
                            break
                    extra_h = list(plus or []) + (['UID'] if uid is not None else [])
                    n = len(exp_l)
                    extra_rows = [vals + ([f'{str(uid + 1).rjust(4, "0")}.{alpha(j + 1)}-{alpha(n)}'] if uid is not None else [])
                                  for j in range(n)]
                    if n_written != len(exp_l) or n_none != 0 or n_none0 != 0:
                        why = f'TractWriter.write reports {n_written} rows written for {len(exp_l)} tracts (and {n_none} for nothing to write)'
                        break
            except Exception as e:  # noqa
                why = f'{writer} raised {type(e).__name__}: {e}'
                break
            with open(fp, newline='') as f:
                rows = [list(r) for r in csv.reader(f)]
            old = [['old', 'row']] if (pre_exists and mode == 'a') else []
            hdr = [] if (pre_exists and mode == 'a') else [expected_header(atts, nice) + extra_h]
            body = [[joined(v) for v in row] + ex for row, ex in zip(exp_l, extra_rows)]
            if writer == 'TractWriter' and uid is None and not plus and len(exp_l) > 0 and (len(atts) % 2 == 0):
                body = body + body          # written once more after close() / open()
            # csv.reader yields [] for an empty line: a row of one empty cell is written as '""' -> ['']
            if rows != old + hdr + body:
                why = f'{writer}: file content differs from one header row plus one row per tract with joined cell contents'
    finally:
        for f in os.listdir(tmp):
            os.remove(os.path.join(tmp, f))
        os.rmdir(tmp)
    if why:
        rep.violation('failing-input', {'text': text, 'config': cfg, 'attributes': atts, 'nice_headers': nice, 'mode': mode,
                                        'pre_exists': pre_exists, 'plus_cols': plus, 'uid': uid, 'why': why})
    return len(tl)


def run(ctx):
    rep = ctx.rep
    rng = Rng(ctx.seed, 19)
    items = []
    for i in range(ctx.budget(300, 50000)):
        r = rng.fork(i)
        text = r.choice(TEXTS)
        cfg = r.choice([None, 'clean_qq', 'segment', 'sec_colon_cautious'])
        k = r.range(1, 8)
        atts = [r.choice(ALL_ATTS + ['bogus', 'uid_not_there']) for _ in range(k)]
        if r.chance(1, 6):
            atts = ALL_ATTS + ['bogus']
        nice = r.chance(1, 3)
        mode = r.choice(['w', 'a'])
        pre = r.chance(1, 2)
        # the documented forms of nice_headers: True / None / False / a list of strings / a dict keyed by attribute name
        nice_form = nice
        k2 = r.below(8)
        if k2 == 0:
            nice_form = None
        elif k2 == 1:
            nice_form = [f'H{j}' for j in range(len(atts))]
        elif k2 == 2:
            nice_form = {a: f'hdr {a}' for a in atts if r.chance(1, 2)}
        plus = [f'extra{j}' for j in range(r.range(1, 2))] if r.chance(1, 5) else None
        uid = r.choice([0, 26, 998]) if r.chance(1, 5) else None
        n = safely(rep, 'export', check, text, cfg, atts, nice_form, mode, pre, plus, uid) or 0
        rep.count()
        if n >= 1 and len(atts) >= 2:
            rep.nontrivial((text, tuple(atts), nice, mode, pre))
        rep.sample({'text': text[:80], 'attributes': atts[:6], 'mode': mode, 'nice_headers': nice}, cap=4)
        # correspondence of the export model on element lists
        specs = elems.rand_specs(r, kind='t')
        a2 = [r.choice(ALL_ATTS + ['bogus']) for _ in range(r.range(1, 6))]
        items.append((impl.line_export_rows(specs, a2, nice, pre, mode), impl.impl_export_rows(specs, a2, nice, pre, mode),
                      {'op': 'tracts_to_csv', 'elements': [list(s) for s in specs], 'attributes': a2, 'mode': mode}))
        rows = [[''.join(r.choice(list('ab ,"\n\r\'')) for _ in range(r.range(0, 6))) for _ in range(r.range(1, 4))] for _ in range(r.range(1, 4))]
        items.append((impl.line_csv_roundtrip(rows), impl.impl_csv_roundtrip(rows), {'op': 'csv', 'rows': rows}))
    ctx.compare(items)


def replay(payload):
    from common import Report
    rep = Report('C19', 'quick', 0)
    p = payload.get('replay', {})
    if 'attributes' in p and 'text' in p:
        check(rep, p['text'], p['config'], p['attributes'], p['nice_headers'], p['mode'], p['pre_exists'], p.get('plus_cols'), p.get('uid'))
    return not rep.violations
