"""C14 — re-parsing is idempotent and commit=False has no side effects."""
import descs
import gen
import hist
import impl
from common import Rng

import pytrs

RULE = ("operation sequences of length 1-8 over {parse(commit in {True,False}, keyword overrides), parse_tracts(...), "
        "preprocess(commit), config assignment, sort} applied to one PLSSDesc or Tract whose text raises flags "
        "(duplicates, non-sequential ranges, acreages, unused text); snapshots of all public attributes before/after each "
        "call; non-trivial = history with at least one committed parse after the first; distinct by (text, history)")
TRUSTED = []
ASSUMPTIONS = []

DESC_TEXTS = [
    'T154N-R97W Sec 14: Lots 1 - 3, Lot 1, NE/4, NE/4',
    'T154N-R97W Sec 14: Lots 5 - 3, Lot 2 (40.0), Lot 2 [39.9], N2 NE',
    'T154N-R97W Sec 14: NE/4, Sec 15 - 13: W/2 less and except the wellbore\nT155N-R97W Sec 1: ALL and some more',
    'NE/4 of Sec 14, S/2 of Sec 9 - 7, T154N-R97W, and trailing words here',
    'T154N R97 Sec 14: Lot 1, Lot 1',
    'That part of Sec 14 lying north, T154N-R97W',
    'T154N-R97W Sec 14: Lots 4 - 2, S/2N/2, Lots 8 - 6, Sec 15: Lots 9 - 7, Lots 3 - 1',
]
TRACT_TEXTS = ['Lot 1, Lot 1, NE/4, NE/4', 'Lots 5 - 3, Lot 2 (40.0), Lot 2 [39.9]', 'N2 NE, NE', 'N/2 of Lots 1 - 3, Lot 1', 'ALL',
               # one parse raising the very same flag several times (two backward ranges; the same duplicate twice)
               'Lots 4 - 2, S/2N/2, Lots 8 - 6', 'Lots 9 - 7, Lots 3 - 1, Lot 12 - 10', 'Lot 1, Lot 1, Lot 1, NE/4, NE/4, NE/4']

DESC_KW = [{}, {'parse_qq': True}, {'clean_qq': True, 'parse_qq': True}, {'segment': True}, {'sec_colon_required': True},
           {'qq_depth': 1, 'parse_qq': True}, {'layout': 'copy_all'}, {'sec_within': True}, {'qq_depth_min': 3, 'parse_qq': True}]
TRACT_KW = [{}, {'clean_qq': True}, {'qq_depth': 1}, {'qq_depth_min': 1, 'qq_depth_max': 2}, {'suppress_lot_divs': True},
            {'break_halves': True}]


def snap_desc(d):
    return impl.render(impl.desc_snap(d))


def snap_tract(t):
    return impl.render(impl.tract_snap(t))


def only_flags_differ(a, b):
    """both are rendered snapshots; true if they agree once the four flag lists are ignored"""
    import re
    strip = lambda s: re.sub(r's"[we]_flag(_line)?s":\[.*?\](?=[,}])', '', s)   # noqa
    return strip(a) == strip(b)


def check_desc_history(rep, text, cfg, ops):
    d = pytrs.PLSSDesc(text, config=cfg)
    cfgs = [cfg] if cfg else []          # settings accumulate over successive config assignments
    for op in ops:
        before = snap_desc(d)
        k = op[0]
        if k == 'parse':
            commit, kw = op[1], op[2]
            r = d.parse(commit=commit, **kw)
            after = snap_desc(d)
            if not commit and after != before:
                return rep.violation('failing-input', {'object': 'PLSSDesc', 'text': text, 'config': cfg, 'history': ops,
                                                       'why': 'parse(commit=False) changed the object'})
            if commit:
                d.parse(commit=True, **kw)
                again = snap_desc(d)
                if again != after:
                    return rep.violation('failing-input', {'object': 'PLSSDesc', 'text': text, 'config': cfg, 'history': ops,
                                                           'why': 're-parsing with unchanged settings changed the result'})
                # a committed parse replaces earlier results and leaves no trace of earlier one-off keywords:
                # same as a fresh object with the accumulated settings, parsed with these keywords
                fresh = pytrs.PLSSDesc(text, config=cfg, wait_to_parse=True)
                for c in cfgs[(1 if cfg else 0):]:
                    fresh.config = c            # the same assignments, in order — only the earlier parses are left out
                fresh.parse(commit=True, **kw)
                if snap_desc(fresh) != after:
                    return rep.violation('failing-input', {'object': 'PLSSDesc', 'text': text, 'config': cfg, 'history': ops,
                                                           'why': 'committed parse differs from a fresh object with the same settings'})
        elif k == 'parse_tracts':
            d.parse_tracts(**op[1])
            after = snap_desc(d)
            d.parse_tracts(**op[1])
            again = snap_desc(d)
            if again != after:
                tag = 'C14-tract-reparse-flags' if only_flags_differ(after, again) else None
                return rep.violation('failing-input', {'object': 'PLSSDesc', 'text': text, 'config': cfg, 'history': ops,
                                                       'why': 'parse_tracts twice differs from once (results accumulate)'}, tag=tag)
        elif k == 'preprocess':
            d.preprocess(commit=op[1])
            after = snap_desc(d)
            if not op[1] and after != before:
                return rep.violation('failing-input', {'object': 'PLSSDesc', 'text': text, 'history': ops,
                                                       'why': 'preprocess(commit=False) changed the object'})
        elif k == 'config':
            d.config = op[1]
            cfgs.append(op[1])
        elif k == 'sort':
            d.sort_tracts(op[1])
    return None


def check_tract_history(rep, text, cfg, ops):
    t = pytrs.Tract(text, trs='154n97w14', config=cfg)
    cfgs = [cfg] if cfg else []          # settings accumulate over successive config assignments
    for op in ops:
        before = snap_tract(t)
        k = op[0]
        if k == 'parse':
            commit, kw = op[1], op[2]
            t.parse(commit=commit, **kw)
            after = snap_tract(t)
            if not commit and after != before:
                return rep.violation('failing-input', {'object': 'Tract', 'text': text, 'config': cfg, 'history': ops,
                                                       'why': 'parse(commit=False) changed the object'})
            if commit:
                t.parse(commit=True, **kw)
                again = snap_tract(t)
                if again != after:
                    tag = 'C14-tract-reparse-flags' if only_flags_differ(after, again) else None
                    return rep.violation('failing-input', {'object': 'Tract', 'text': text, 'config': cfg, 'history': ops,
                                                           'why': 're-parsing with unchanged settings changed the result (flags accumulate)'}, tag=tag)
                # a committed parse replaces earlier results: same as a fresh object parsed with these settings
                fresh = pytrs.Tract(text, trs='154n97w14', config=','.join(cfgs))
                fresh.config = t.config
                fresh.parse(commit=True, **kw)
                if snap_tract(fresh) != after:
                    tag = 'C14-tract-reparse-flags' if only_flags_differ(after, snap_tract(fresh)) else None
                    return rep.violation('failing-input', {'object': 'Tract', 'text': text, 'config': cfg, 'history': ops,
                                                           'why': 'committed parse differs from a fresh object with the same settings'}, tag=tag)
        elif k == 'preprocess':
            t.preprocess(commit=op[1])
            if not op[1] and snap_tract(t) != before:
                return rep.violation('failing-input', {'object': 'Tract', 'text': text, 'history': ops,
                                                       'why': 'preprocess(commit=False) changed the object'})
        elif k == 'config':
            t.config = op[1]
            cfgs.append(op[1])
    return None


def rand_desc_ops(r):
    ops = []
    for _ in range(r.range(1, 6)):
        k = r.below(8)
        if k < 4:
            ops.append(('parse', r.chance(2, 3), r.choice(DESC_KW)))
        elif k == 4:
            ops.append(('parse_tracts', r.choice(TRACT_KW)))
        elif k == 5:
            ops.append(('preprocess', r.chance(1, 2)))
        elif k == 6:
            ops.append(('config', r.choice(['parse_qq', 'clean_qq,parse_qq', 'segment', 'qq_depth.1', 's,e', 'sec_colon_cautious'])))
        else:
            ops.append(('sort', r.choice(['s', 't.ns,s', 'i.rev', 'r,t'])))
    return ops


def rand_tract_ops(r):
    ops = []
    for _ in range(r.range(1, 6)):
        k = r.below(6)
        if k < 4:
            ops.append(('parse', r.chance(2, 3), r.choice(TRACT_KW)))
        elif k == 4:
            ops.append(('preprocess', r.chance(1, 2)))
        else:
            ops.append(('config', r.choice(['clean_qq', 'qq_depth.1', 'suppress_lot_divs', 'break_halves', 'qq_depth_min.1'])))
    return ops


def to_hist_desc(text, cfg, ops):
    h = [('desc', 0, text, None, cfg, None, None, None)]
    for op in ops:
        if op[0] == 'parse':
            h.append(('desc.parse', 0, op[1], op[2]))
        elif op[0] == 'parse_tracts':
            h.append(('desc.parse_tracts', 0, None, op[1]))
        elif op[0] == 'preprocess':
            h.append(('desc.preprocess', 0, op[1]))
        elif op[0] == 'config':
            h.append(('desc.config', 0, op[1]))
        elif op[0] == 'sort':
            h.append(('desc.sort', 0, op[1], False))
    return h


def to_hist_tract(text, cfg, ops):
    h = [('tract', 0, text, '154n97w14', cfg, None)]
    for op in ops:
        if op[0] == 'parse':
            h.append(('tract.parse', 0, op[1], op[2]))
        elif op[0] == 'preprocess':
            h.append(('tract.preprocess', 0, None, op[1]))
        elif op[0] == 'config':
            h.append(('tract.config', 0, op[1]))
    return h


def run(ctx):
    rep = ctx.rep
    rng = Rng(ctx.seed, 14)
    histories = []
    for i in range(ctx.budget(400, 15000)):
        r = rng.fork(i)
        if r.chance(1, 2):
            text = r.choice(DESC_TEXTS) if r.chance(2, 3) else descs.structured(r, 2, 2)[0]
            cfg = r.choice([None, 'parse_qq', 'parse_qq,clean_qq', 'segment'])
            ops = rand_desc_ops(r)
            check_desc_history(rep, text, cfg, ops)
            h = to_hist_desc(text, cfg, ops)
        else:
            text = r.choice(TRACT_TEXTS)
            cfg = r.choice([None, 'parse_qq', 'clean_qq'])
            ops = rand_tract_ops(r)
            check_tract_history(rep, text, cfg, ops)
            h = to_hist_tract(text, cfg, ops)
        rep.count()
        if sum(1 for o in ops if o[0] == 'parse' and o[1]) >= 1:
            rep.nontrivial((text, cfg, str(ops)))
        rep.dist('c14_len', len(ops))
        rep.sample({'text': text[:100], 'config': cfg, 'history': [list(map(str, o)) for o in ops]}, cap=4)
        if i % 2 == 0 or ctx.thorough:
            histories.append((h, hist.run_history(h)))
    hist.compare_histories(ctx, histories)


def replay(payload):
    from common import Report
    rep = Report('C14', 'quick', 0)
    p = payload.get('replay', {})
    if p.get('object') == 'Tract':
        check_tract_history(rep, p['text'], p.get('config'), [tuple(o) for o in p['history']])
    elif p.get('object') == 'PLSSDesc':
        check_desc_history(rep, p['text'], p.get('config'), [tuple(o) for o in p['history']])
    return not rep.violations
