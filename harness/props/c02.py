"""C02 — aliquot parsing tiles exactly the described area at the requested depth."""
from fractions import Fraction

import gen
import impl
from common import Rng

import pytrs
from pytrs.parser.tract.aliquot_parse import parse_aliquot


def safely(rep, what, f, *a):
    """run one oracle check; an exception escaping the library is itself a failing input for the observables"""
    try:
        return f(rep, *a)
    except Exception as e:  # noqa
        rep.violation('failing-input', {'check': what, 'args': [str(x)[:300] for x in a], 'why': f'raised {type(e).__name__}: {e}'})
        return None


RULE = ("exhaustive component chains up to length L (3 quick / 5 thorough) x qq_depth_min 1..3 x qq_depth_max in "
        "{None, min..min+2} x break_halves, plus random chains up to length 10 and qq_depth; non-trivial = chain of "
        "length >= 2; distinct by (chain, settings)")
TRUSTED = ["C02: geometric oracle = independent dyadic-box tiler (harness/props/c02.py), used for the failing-input search"]
ASSUMPTIONS = ["depth settings with 1 <= min <= max (the documented domain)"]

AX = {'N': ('y', 1), 'S': ('y', 0), 'E': ('x', 1), 'W': ('x', 0)}


def refine(box, comp):
    """box = (xbits, ybits) as tuples of 0/1, most significant first"""
    xb, yb = box
    if comp == 'ALL':
        return box
    if len(comp) == 1:
        ax, bit = AX[comp]
        return (xb + (bit,), yb) if ax == 'x' else (xb, yb + (bit,))
    ns, ew = comp[0], comp[1]
    return (xb + (AX[ew][1],), yb + (AX[ns][1],))


def region(chain):
    """chain in text order (smallest first)"""
    box = ((), ())
    for c in reversed(chain):
        box = refine(box, c)
    return box


def truncate(box, d):
    return (box[0][:d], box[1][:d])


def interval(bits):
    lo = Fraction(0)
    w = Fraction(1)
    for b in bits:
        w /= 2
        if b:
            lo += w
    return lo, lo + w


def rect(box):
    return interval(box[0]) + interval(box[1])


def area(box):
    return Fraction(1, 2 ** (len(box[0]) + len(box[1])))


def inside(a, b):
    """box a within box b"""
    return a[0][:len(b[0])] == b[0] and a[1][:len(b[1])] == b[1]


def disjoint(a, b):
    def ax_disj(p, q):
        n = min(len(p), len(q))
        return p[:n] != q[:n]
    return ax_disj(a[0], b[0]) or ax_disj(a[1], b[1])


def piece_tokens(p):
    if len(p) % 2:
        return None
    return [p[i:i + 2] for i in range(0, len(p), 2)]


def piece_box(p):
    toks = piece_tokens(p)
    if toks is None:
        return None
    chain = []
    for t in toks:
        if t in gen.QUARTERS:
            chain.append(t)
        elif t[1] == '2' and t[0] in gen.HALVES:
            chain.append(t[0])
        else:
            return None
    return region(chain), toks


def check_tiling(chain, mn, mx, bh, pieces):
    """None if fine, else a description of what is wrong"""
    R = region(chain)
    if mx is not None:
        R = truncate(R, mx)
    boxes = []
    for p in pieces:
        pb = piece_box(p)
        if pb is None:
            return f'piece {p!r} is not a chain of halves/quarters'
        b, toks = pb
        if not inside(b, R):
            return f'piece {p!r} lies outside the described region'
        if len(toks) < mn or any(t not in gen.QUARTERS for t in toks[-mn:]):
            return f'piece {p!r} is not divided to the minimum depth {mn}'
        if mx is not None and len(toks) > mx:
            return f'piece {p!r} is deeper than the maximum depth {mx}'
        if bh and any(t.endswith('2') for t in toks):
            return f'piece {p!r} contains a half although break_halves is on'
        boxes.append(b)
    for i in range(len(boxes)):
        for j in range(i + 1, len(boxes)):
            if not disjoint(boxes[i], boxes[j]):
                return f'pieces {pieces[i]!r} and {pieces[j]!r} overlap'
    if sum((area(b) for b in boxes), Fraction(0)) != area(R):
        return 'areas of the pieces do not add up to the described region'
    return None


def one(ctx, chain, mn, mx, d, bh, items, via_tract=False):
    rep = ctx.rep
    text = gen.canon_chain(chain) if chain != ['ALL'] else 'ALL'
    emn, emx = (d, d) if d is not None else (mn, mx)
    if via_tract:
        cfg = f'qq_depth_min.{mn}'
        if mx is not None:
            cfg += f',qq_depth_max.{mx}'
        if d is not None:
            cfg += f',qq_depth.{d}'
        if bh:
            cfg += ',break_halves'
        pieces = pytrs.Tract(text, parse_qq=True, config=cfg).qqs
    else:
        pieces = parse_aliquot(text, mn, mx, d, bh)
        items.append((impl.line_aliquot_parse(text, mn, mx, d, bh), impl.render(pieces),
                      {'op': 'parse_aliquot', 'text': text, 'min': mn, 'max': mx, 'depth': d, 'break_halves': bh}))
    why = check_tiling(chain, emn, emx, bh, pieces)
    if why:
        rep.violation('failing-input', {'chain': text, 'qq_depth_min': mn, 'qq_depth_max': mx, 'qq_depth': d,
                                        'break_halves': bh, 'via_tract': via_tract, 'pieces': pieces, 'why': why})
    if len(chain) >= 2:
        rep.nontrivial((text, mn, mx, d, bh, via_tract))
    if not via_tract:
        return
    rep.count()


def run(ctx):
    rep = ctx.rep
    rng = Rng(ctx.seed, 2)
    items = []
    L = 5 if ctx.thorough else 3
    chains = list(gen.all_chains(L)) + [['ALL']]
    for ch in chains:
        for mn in (1, 2, 3):
            for mx in (None, mn, mn + 1, mn + 2):
                for bh in (False, True):
                    one(ctx, ch, mn, mx, None, bh, items)
    rep.extra['exhaustive_chain_length'] = L
    for i in range(ctx.budget(1500, 200000)):
        r = rng.fork(i)
        ch = gen.rand_chain(r, 10)
        mn = r.range(1, 4)
        mx = r.choice([None, mn, mn + 1, mn + 3])
        d = r.choice([None, None, None, 1, 2, 3, 4])
        bh = r.chance(1, 2)
        one(ctx, ch, mn, mx, d, bh, items, via_tract=r.chance(1, 4))
        rep.dist('c02_chain_len', len(ch))
        rep.sample({'chain': gen.canon_chain(ch), 'min': mn, 'max': mx, 'depth': d, 'break_halves': bh}, cap=5)
    # the standardisation step on its own (incl. strings outside the component alphabet)
    for i in range(ctx.budget(300, 25000)):
        r = rng.fork(100000 + i)
        comps = [r.choice(gen.COMPS + ['ALL']) for _ in range(r.range(0, 9))]
        items.append((impl.line_aliquot_std(comps), impl.impl_aliquot_std(comps), {'op': 'standardize', 'comps': comps}))
    ctx.compare(items)


def replay(payload):
    p = payload.get('replay', {})
    chain_text = p.get('chain')
    if chain_text is None:
        return True
    comps = [m for m in __import__('re').findall(r'ALL|NE|NW|SE|SW|N|S|E|W', chain_text)]
    mn, mx, d, bh = p['qq_depth_min'], p['qq_depth_max'], p['qq_depth'], p['break_halves']
    emn, emx = (d, d) if d is not None else (mn, mx)
    pieces = parse_aliquot(chain_text, mn, mx, d, bh)
    return check_tiling(comps, emn, emx, bh, pieces) is None
