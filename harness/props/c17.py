"""C17 — sorting is a stable multi-key permutation with errors last."""
import elems
import impl
from common import Rng

import pytrs


def safely(rep, what, f, *a):
    """run one oracle check; an exception escaping the library is itself a failing input for the observables"""
    try:
        return f(rep, *a)
    except Exception as e:  # noqa
        rep.violation('failing-input', {'check': what, 'args': [str(x)[:300] for x in a], 'why': f'raised {type(e).__name__}: {e}'})
        return None


RULE = ("lists of 0-10 TRS / Tract elements (valid, error, undefined and partially undefined Twp/Rge/Sec; ties; mixed N/S, "
        "E/W) x key strings of 1-3 parts x sub-method x .rev/.reverse x spacing / case x reverse flag; non-trivial = list "
        "of >= 2 elements with >= 2 distinct Twp/Rge/Sec; distinct by (list, key)")
TRUSTED = ["C17: list.sort is stable, also with reverse=True (modelled by Lean's stable mergeSort)"]
ASSUMPTIONS = []

VARS = {'i': ['', '.num'], 't': ['', '.num', '.ns', '.sn'], 'r': ['', '.num', '.ew', '.we'], 's': ['', '.num']}


def rand_key(r):
    parts = []
    for _ in range(r.range(1, 3)):
        v = r.choice('itrs')
        k = v + r.choice(VARS[v]) + r.choice(['', '', '.rev', '.reverse'])
        if r.chance(1, 5):
            k = k.upper()
        if r.chance(1, 5):
            k = ' ' + k + ' '
        parts.append(k)
    return ','.join(parts)


def key_fn(objs, part):
    """independent reading of the documentation: returns (keyfunc, reverse)"""
    part = part.strip().lower().replace('reverse', 'rev')
    rev = part.endswith('.rev')
    if rev:
        part = part[:-4]
    var, _, meth = part.partition('.')
    meth = meth or 'num'

    def mx(att):
        vals = [getattr(o, att) for o in objs if getattr(o, att) is not None]
        return (max(vals) if vals else 0) + 1
    big = {'t': mx('twp_num'), 'r': mx('rge_num'), 's': mx('sec_num')}
    if var == 'i':
        order = {id(o): k for k, o in enumerate(sorted([o for o in objs if isinstance(o, pytrs.Tract)], key=lambda o: o._Tract__uid))}
        return (lambda o: order.get(id(o), -1) if isinstance(o, pytrs.Tract) else -1), rev
    if var == 's':
        return (lambda o: o.sec_num if o.sec_num is not None else big['s']), rev
    num_att, dir_att, pos, neg = ('twp_num', 'twp_ns', 's', 'n') if var == 't' else ('rge_num', 'rge_ew', 'e', 'w')
    if meth == 'num':
        return (lambda o: getattr(o, num_att) if getattr(o, num_att) is not None else big[var]), rev
    first_neg = meth in ('ns', 'we')        # n..s : north first (descending numbers), then south ascending

    def f(o):
        n = getattr(o, num_att)
        d = getattr(o, dir_att)
        if n is None or d is None:
            return (2, 0)
        lead = neg if first_neg else pos
        if n == 0:
            # the base line itself: 'Township 0 North' and 'Township 0 South' are the same place on the signed number
            # line the order is defined on; the property does not order them (theorem C17_…_partial has the counterexample)
            return (0, 0)
        if d == lead:
            return (0, -n)
        return (1, n)
    return f, rev


def expected_order(objs, key, reverse):
    cur = list(objs)
    for part in key.split(','):
        f, rev = key_fn(objs, part)
        cur = sorted(cur, key=f, reverse=rev)
    if reverse:
        cur.reverse()
    return cur


def check(rep, specs, key, reverse):
    l, objs = impl.mklist(specs)
    before = list(l)
    l.custom_sort(key, reverse)
    after = list(l)
    why = None
    if sorted(map(id, before)) != sorted(map(id, after)):
        why = 'elements lost or duplicated'
    else:
        exp = expected_order(before, key, reverse)
        if [id(o) for o in exp] != [id(o) for o in after]:
            # equal TRS objects are interchangeable for the observable order
            if [impl.tag(o) for o in exp] != [impl.tag(o) for o in after]:
                why = 'order differs from successive stable sorts by the documented keys'
    if why:
        rep.violation('failing-input', {'elements': [list(s) for s in specs], 'key': key, 'reverse': reverse, 'why': why,
                                        'observed': [impl.tag(o) for o in after]})


def check_list_form(rep, specs, key, r):
    """documented: `key` may be a list of keys, applied left to right (compared with `reverse` off: what `reverse` does to string keys is not part of the property); a list of `reverse`
    flags must be as long as the list of keys, otherwise IndexError"""
    parts = key.split(',')
    l1, _ = impl.mklist(specs)
    l2, _ = impl.mklist(specs)
    l1.custom_sort(key)
    revs = [False for _ in parts] if r.chance(1, 2) else False
    l2.custom_sort(list(parts) if r.chance(1, 2) else tuple(parts), revs)
    if [impl.tag(o) for o in l1] != [impl.tag(o) for o in l2]:
        rep.violation('failing-input', {'elements': [list(s) for s in specs], 'key': parts, 'reverse': revs,
                                        'why': 'a list of keys does not sort like the same keys separated by commas',
                                        'observed': [impl.tag(o) for o in l2], 'expected': [impl.tag(o) for o in l1]})
    if len(parts) >= 1:
        l3, _ = impl.mklist(specs)
        before = [impl.tag(o) for o in l3]
        bad = [False] * (len(parts) + r.range(1, 2)) if r.chance(1, 2) else [True] * (len(parts) - 1)
        try:
            l3.custom_sort(list(parts), bad)
            rep.violation('failing-input', {'key': parts, 'reverse': bad, 'why': 'mismatched lengths of key list and reverse list accepted '
                                            '(keys silently dropped)', 'observed': [impl.tag(o) for o in l3], 'before': before})
        except IndexError:
            pass
        except Exception as e:  # noqa
            rep.violation('failing-input', {'key': parts, 'reverse': bad, 'why': f'raised {type(e).__name__}, not IndexError'})


BAD_KEYS = ['x', 'q.num', 'i.ns', 's.ew', 't.we', 'r.ns', '1', 'i.sn', '', 'b.a']


def run(ctx):
    rep = ctx.rep
    rng = Rng(ctx.seed, 17)
    items = []
    for i in range(ctx.budget(1200, 250000)):
        r = rng.fork(i)
        specs = elems.rand_specs(r)
        key = rand_key(r)
        reverse = r.chance(1, 4)
        safely(rep, 'custom_sort', check, specs, key, reverse)
        rep.count()
        if len(specs) >= 2 and len(set(s[2] if s[0] == 't' else s[1] for s in specs)) >= 2:
            rep.nontrivial((tuple(specs), key, reverse))
        rep.dist('c17_len', len(specs))
        rep.sample({'elements': [s[2] if s[0] == 't' else s[1] for s in specs], 'key': key, 'reverse': reverse}, cap=5)
        items.append((impl.line_cont_sort(specs, key, reverse), impl.impl_cont_sort(specs, key, reverse),
                      {'op': 'custom_sort', 'elements': [list(s) for s in specs], 'key': key, 'reverse': reverse}))
        if r.chance(1, 5):
            safely(rep, 'custom_sort(list of keys)', check_list_form, specs, key, r)
            rep.count()
        if r.chance(1, 6):
            bk = r.choice(BAD_KEYS)
            full = bk if (r.chance(1, 2) and bk) else 't,' + bk
            l, _ = impl.mklist(specs)
            try:
                l.custom_sort(full)
                rep.violation('failing-input', {'key': full, 'why': 'illegal sort key accepted'})
            except ValueError:
                pass
            except Exception as e:  # noqa
                rep.violation('failing-input', {'key': full, 'why': f'illegal sort key raised {type(e).__name__}, not ValueError'})
            rep.count()
            items.append((impl.line_cont_sort(specs, full, False), impl.impl_cont_sort(specs, full, False),
                          {'op': 'custom_sort', 'key': full}))
    # PLSSDesc.sort_tracts goes through the same code
    d = pytrs.PLSSDesc('T154N-R97W Sec 14: NE/4, Sec 3: W/2\nT155N-R97W Sec 1: ALL, T2S-R1E Sec 5: N/2')
    d.sort_tracts('s,r,t.ns')
    if [t.trs for t in d.tracts] != ['155n97w01', '154n97w03', '154n97w14', '2s1e05']:
        rep.violation('failing-input', {'call': "sort_tracts('s,r,t.ns')", 'observed': [t.trs for t in d.tracts]})
    ctx.compare(items)


def replay(payload):
    from common import Report
    rep = Report('C17', 'quick', 0)
    p = payload.get('replay', {})
    if 'elements' in p:
        check(rep, [tuple(e) for e in p['elements']], p['key'], p['reverse'])
    return not rep.violations
