"""C05 — elided lists of sections and lots expand to exactly the numbers they denote."""
import gen
import impl
from common import Rng

import pytrs


def safely(rep, what, f, *a):
    """run one oracle check; an exception escaping the library is itself a failing input for the observables"""
    try:
        return f(rep, *a)
    except Exception as e:  # noqa
        rep.violation('failing-input', {'check': what, 'args': [str(x)[:300] for x in a], 'why': f'raised {type(e).__name__}: {e}'})
        return None


RULE = ("item lists (single | ascending | descending range) of 1-6 items rendered with independent connective / keyword "
        "spellings; non-trivial = the list contains at least one range or two items; distinct by rendered text")
TRUSTED = ["C05: lexical hypothesis LexList (what multisec_regex/multilot_regex return at each endpos) is monitored by "
           "executing the regenerated patterns on every generated list, not proved for all strings"]
ASSUMPTIONS = ["numbers 1..99 for sections, 1..999 for lots; documented connectives only"]


def pad(n):
    return str(n).rjust(2, '0')


def oracle_sections(rep, text, items, ctx):
    exp = [pad(n) for n in gen.expand_items(items)]
    got = pytrs.find_sec(text)
    if got != exp:
        rep.violation('failing-input', {'call': 'find_sec', 'text': text, 'items': items, 'expected': exp, 'observed': got})
        return
    full = 'T154N-R97W ' + text + ': NE/4'
    d = pytrs.PLSSDesc(full)
    secs = [t.sec for t in d.tracts]
    descs = set(t.desc for t in d.tracts)
    if secs != exp or descs != {'NE/4'}:
        rep.violation('failing-input', {'call': 'PLSSDesc', 'text': full, 'items': items, 'expected': exp,
                                        'observed': secs, 'descs': sorted(descs)})
        return
    strictly_desc = any(it[0] == 'range' and it[1] > it[2] for it in items)
    none_desc = not any(it[0] == 'range' and it[1] >= it[2] for it in items)
    has_flag = any(f.startswith('nonsequential_sec') for f in d.w_flags)
    if (strictly_desc and not has_flag) or (none_desc and has_flag):
        rep.violation('failing-input', {'call': 'PLSSDesc.w_flags', 'text': full, 'items': items,
                                        'expected_nonsequential_flag': strictly_desc, 'observed': d.w_flags})


def oracle_lots(rep, text, items):
    exp = gen.expand_items(items)
    t = pytrs.Tract(text, parse_qq=True)
    if t.lots != ['L%d' % n for n in exp] or t.ilots != exp:
        rep.violation('failing-input', {'call': 'Tract.lots/ilots', 'text': text, 'items': items, 'expected': exp,
                                        'observed': t.lots, 'ilots': t.ilots})
        return
    strictly_desc = any(it[0] == 'range' and it[1] > it[2] for it in items)
    none_desc = not any(it[0] == 'range' and it[1] >= it[2] for it in items)
    has_flag = any(f.startswith('nonsequential_lots') for f in t.w_flags)
    if (strictly_desc and not has_flag) or (none_desc and has_flag):
        rep.violation('failing-input', {'call': 'Tract.w_flags', 'text': text, 'items': items,
                                        'expected_nonsequential_flag': strictly_desc, 'observed': t.w_flags})
        return
    # the same list read again (a second Tract, and the tracts of a multi-section that share the block): same lots, same warning
    t2 = pytrs.Tract(text, parse_qq=True)
    d = pytrs.PLSSDesc('T154N-R97W Sec 4 - 6: ' + text, parse_qq=True)
    for who, x in [('second Tract with the same text', t2)] + [(f'tract {k} of a multi-section sharing the block', x) for k, x in enumerate(d.tracts)]:
        flag = any(f.startswith('nonsequential_lots') for f in x.w_flags)
        if x.lots != t.lots or x.ilots != t.ilots or flag != has_flag:
            rep.violation('failing-input', {'call': who, 'text': text, 'items': items, 'expected': exp, 'observed': x.lots,
                                            'expected_nonsequential_flag': has_flag, 'w_flags': x.w_flags})
            return
    if [x.sec for x in d.tracts] != ['04', '05', '06']:
        rep.violation('failing-input', {'call': 'PLSSDesc (multi-section sharing a lot block)', 'text': text,
                                        'observed': [x.trs for x in d.tracts]})


SEC_WORDS = ['Section ', 'Sec ', 'Sec. ', 'Sections ', 'Secs ', '§ ', 'Sec', 'Sect. ', 'section ', 'SECTION ']
LOT_WORDS = ['Lot ', 'Lots ', 'L', 'L.', 'Lt ', 'Lt. ', 'lot ', 'LOTS ', 'Lot']


def run(ctx):
    rep = ctx.rep
    rng = Rng(ctx.seed, 5)
    n = ctx.budget(700, 60000)
    items_cmp = []
    for i in range(n):
        r = rng.fork(i)
        items = gen.rand_items(r, r.range(1, 6), 99)
        text = gen.render_items(items, r, SEC_WORDS, pad=True)
        safely(rep, 'sections', oracle_sections, text, items, ctx)
        items_cmp.append((impl.line_sec_unpack(text), impl.impl_sec_unpack(text), {'op': 'sec.unpack', 'text': text}))
        items_cmp.append((impl.line_find_sec(text), impl.impl_find_sec(text), {'op': 'find_sec', 'text': text}))
        rep.sample({'sections': text, 'denotes': gen.expand_items(items)}, cap=3)
        if len(items) > 1 or items[0][0] == 'range':
            rep.nontrivial(text)
        rep.dist('c05_items', len(items))
        litems = gen.rand_items(r, r.range(1, 5), r.choice([12, 99, 999]))
        ltext = gen.render_items(litems, r, LOT_WORDS)
        safely(rep, 'lots', oracle_lots, ltext, litems)
        items_cmp.append((impl.line_lot_unpack(ltext), impl.impl_lot_unpack(ltext), {'op': 'lot.unpack', 'text': ltext}))
        a = (ltext, False, False, 2, None, None, False)
        items_cmp.append((impl.line_tract_parse(*a), impl.impl_tract_parse(*a), {'op': 'tract.parse', 'text': ltext}))
        if len(litems) > 1 or litems[0][0] == 'range':
            rep.nontrivial(ltext)
        rep.sample({'lots': ltext, 'denotes': gen.expand_items(litems)}, cap=6)
        # damaged variants keep the model/implementation tie honest outside the oracle's domain
        if r.chance(1, 4):
            dt = gen.damage(text, r)
            items_cmp.append((impl.line_sec_unpack(dt), impl.impl_sec_unpack(dt), {'op': 'sec.unpack', 'text': dt}))
            dl = gen.damage(ltext, r) + r.choice(['', ' (40.00)', '[39.12]'])
            items_cmp.append((impl.line_lot_unpack(dl), impl.impl_lot_unpack(dl), {'op': 'lot.unpack', 'text': dl}))
    ctx.compare(items_cmp)


def replay(payload):
    from common import Report
    rep = Report('C05', 'quick', 0)
    p = payload.get('replay', {})
    if 'items' in p and p.get('call', '').startswith('Tract'):
        oracle_lots(rep, p['text'], [tuple(x) for x in p['items']])
    elif 'items' in p:
        t = p['text']
        if p.get('call', '').startswith('PLSSDesc'):
            t = t[len('T154N-R97W '):-len(': NE/4')]
        oracle_sections(rep, t, [tuple(x) for x in p['items']], None)
    return not rep.violations
