"""C01 — descriptions in the documented layouts parse back to exactly their tracts."""
import descs
import gen
from common import Rng

import pytrs


def safely(rep, what, f, *a):
    """run one oracle check; an exception escaping the library is itself a failing input for the observables"""
    try:
        return f(rep, *a)
    except Exception as e:  # noqa
        rep.violation('failing-input', {'check': what, 'args': [str(x)[:300] for x in a], 'why': f'raised {type(e).__name__}: {e}'})
        return None


RULE = ("abstract descriptions (1-3 Twp/Rge groups x 1-3 section groups: single / 'and' list / 'through' range) x description "
        "blocks from an open vocabulary x four layouts x independent renderings (Twp/Rge spelling, section word, "
        "connectors, separators); non-trivial = at least two tracts expected; distinct by rendered text")
TRUSTED = ["C01: the lexical hypothesis LexLayout (where the regenerated patterns match in the rendered text) is executed on "
           "every generated description through the correspondence of the full PLSSDesc snapshot"]
ASSUMPTIONS = ["blocks contain no Twp/Rge or section reference and no line break (pretty_desc re-indents line breaks: known finding C01-multiline-block)"]


def check(rep, text, lay, groups):
    exp = gen.expected_tracts(groups)
    if len(text) % 3 == 0:
        # asking for the layout under a restricted candidate list (public API) before the text was ever parsed is a question,
        # not a setting: the parse below must be unaffected
        others = [x for x in gen.LAYOUTS if x != lay][:2]
        pytrs.PLSSDesc(text, wait_to_parse=True).deduce_layout(candidates=others)
    d = pytrs.PLSSDesc(text)
    got = [(t.trs, t.desc) for t in d.tracts]
    why = None
    if d.current_layout != lay:
        why = f'layout deduced as {d.current_layout}, description is in {lay}'
    elif d.deduce_layout() != lay:
        why = f'PLSSDesc.deduce_layout() answers {d.deduce_layout()}, description is in {lay}'
    elif got != exp:
        why = 'tracts differ from the sections named in the description'
    elif d.e_flags:
        why = f'error flags raised: {d.e_flags}'
    else:
        p = d.pretty_desc()
        d2 = pytrs.PLSSDesc(p)
        if [(t.trs, t.desc) for t in d2.tracts] != exp or d2.e_flags:
            why = 'pretty_desc() does not parse back to the same tracts'
    if why:
        rep.violation('failing-input', {'text': text, 'layout': lay, 'why': why, 'expected': exp[:12], 'observed': got[:12],
                                        'e_flags': d.e_flags})
    return len(exp)


SHORT_BLOCKS = ['N2', 'S2', 'E2', 'W2', 'NE', 'NW', 'SE', 'SW', 'N½', 'W½', 'NE¼', 'N/2', 'L1', 'ALL', 'Lot 1']


def short_block_desc(r):
    """descriptions whose blocks are the shortest legitimate ones (bare halves and quarters, 'L1'); in the description-first
    layouts a short block is joined to its section by the documented connector 'of' (the library tells Twp/Rge-Sec-desc from
    Twp/Rge-desc-Sec by the length of the text between the first Twp/Rge and the first section word, connector included)"""
    g = gen.rand_abs_desc(r, 2, 2, 2)
    g2 = [(t, ns, rr, ew, [(its, r.choice(SHORT_BLOCKS) if r.chance(2, 3) else b) for its, b in sgs]) for (t, ns, rr, ew, sgs) in g]
    lay = r.choice(gen.LAYOUTS)
    if lay in ('TRS_desc', 'S_desc_TR'):
        return gen.render_desc(g2, lay, r), lay, g2
    parts = []
    for (t, ns, rr, ew, sgs) in g2:
        tr = r.choice(gen.twprge_spellings(t, ns, rr, ew))
        body = r.choice([', ', '; ', '\n', ',\n']).join(b + ' of ' + gen.render_sec_group(its, r) for its, b in sgs)
        parts.append(tr + r.choice([', ', '\n', ' ', ': ']) + body if lay == 'TR_desc_S'
                     else body + r.choice([', ', '\n', '; ', ',\n']) + tr)
    return r.choice(['\n', '; ', '\n\n', ', ']).join(parts), lay, g2


def run(ctx):
    rep = ctx.rep
    rng = Rng(ctx.seed, 1)
    items = []
    for i in range(ctx.budget(200, 10000)):
        r = rng.fork(1000000 + i)
        text, lay, groups = short_block_desc(r)
        n = safely(rep, 'layout (short blocks)', check, text, lay, groups) or 0
        rep.count()
        if n >= 2:
            rep.nontrivial(text)
        rep.dist('c01_short_blocks', lay)
        if i % 4 == 0:
            items.append(descs.corr_item(text))
    for i in range(ctx.budget(450, 30000)):
        r = rng.fork(i)
        text, lay, groups = descs.structured(r)
        if r.chance(1, 5) and '\n' in text:
            # the same description with Windows / old-Mac line ends
            text = text.replace('\n', r.choice(['\r\n', '\r']))
        n = safely(rep, 'layout', check, text, lay, groups) or 0
        rep.count()
        if n >= 2:
            rep.nontrivial(text)
        rep.dist('c01_layout', lay)
        rep.dist('c01_tracts', min(n, 20))
        rep.sample({'layout': lay, 'text': text}, cap=4)
        if i % 2 == 0 or ctx.thorough:
            items.append(descs.corr_item(text))
    # known finding: a block with a line break does not survive pretty_desc() verbatim
    d = pytrs.PLSSDesc('T154N-R97W Sec 14: NE/4,\nthat part north of the river')
    d2 = pytrs.PLSSDesc(d.pretty_desc())
    if [t.desc for t in d2.tracts] != [t.desc for t in d.tracts]:
        rep.violation('failing-input', {'text': d.orig_desc, 'why': 'pretty_desc re-indents a multi-line block'}, tag='C01-multiline-block')
    ctx.compare(items)


def replay(payload):
    return None      # no input-specific replay: run_check re-runs the check with the recorded seed and tier
