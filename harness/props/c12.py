"""C12 — the Twp/Rge/Sec standard form is canonical, round-trips, and is strict."""
import impl
from common import Rng

import pytrs
from pytrs import TRS


def safely(rep, what, f, *a):
    """run one oracle check; an exception escaping the library is itself a failing input for the observables"""
    try:
        return f(rep, *a)
    except Exception as e:  # noqa
        rep.violation('failing-input', {'check': what, 'args': [str(x)[:300] for x in a], 'why': f'raised {type(e).__name__}: {e}'})
        return None


RULE = ("(twp 0..999, ns, rge 0..999, ew, sec 0..99) x input encodings (int / digit str / str with direction letter) "
        "for the round trip; single and double edits (insert/delete/substitute/prefix/suffix over "
        "'0-9 n s e w N S E W X z _ a space') of valid and placeholder TRS strings for strictness; non-trivial = every "
        "edited string and every component tuple; distinct by input")
TRUSTED = ["C12: strictness oracle = regex-free recogniser of the standard form (harness/props/c12.py)"]
ASSUMPTIONS = ["a missing section is read as the error section with Twp/Rge kept (TRS('154n97w') is used by the library "
               "itself for Twp/Rge-only strings)"]

ERR = ('XXXz', 'XXXz', 'XX')
UND = ('___z', '___z', '__')


def parse_tr(l, i, dirs):
    """parse one Twp or Rge component of lower-cased l at i -> (canonical, next) or None"""
    if l.startswith('xxxz', i):
        return 'XXXz', i + 4
    if l.startswith('___z', i):
        return '___z', i + 4
    j = i
    while j < len(l) and j - i < 3 and l[j].isdecimal():
        j += 1
    if j == i or j >= len(l) or l[j] not in dirs:
        return None
    return l[i:j + 1], j + 1


def recognise(s):
    """expected `.trs` for input string s, from the definition of the standard form alone"""
    if s == '':
        return '___z___z__'
    l = s.lower()
    a = parse_tr(l, 0, 'ns')
    if a is None:
        return 'XXXzXXXzXX'
    b = parse_tr(l, a[1], 'ew')
    if b is None:
        return 'XXXzXXXzXX'
    rest = l[b[1]:]
    if rest == '':
        sec = 'XX'
    elif rest == 'xx':
        sec = 'XX'
    elif rest == '__':
        sec = '__'
    elif len(rest) == 2 and rest[0].isdecimal() and rest[1].isdecimal():
        sec = rest
    else:
        return 'XXXzXXXzXX'
    return a[0] + b[0] + sec


ALPH = '0123456789nsewNSEWXz_a \n\t\r-.٣ſ'


def edits(s, r, k):
    for _ in range(k):
        op = r.below(5)
        c = r.choice(ALPH)
        i = r.below(len(s) + 1)
        if op == 0:
            s = s[:i] + c + s[i:]
        elif op == 1 and s:
            i = r.below(len(s))
            s = s[:i] + s[i + 1:]
        elif op == 2 and s:
            i = r.below(len(s))
            s = s[:i] + c + s[i + 1:]
        elif op == 3:
            s = c + s
        else:
            s = s + c
    return s


def check_roundtrip(rep, t, ns, r, ew, sec, enc, items, master=False):
    def encode(num, d, kind):
        if enc == 0:
            return num
        if enc == 1:
            return str(num)
        if enc == 2:
            return f'{num}{d}'
        if enc == 3:
            return f'{num}{d.upper()}'
        return str(num).rjust(3, '0') if enc == 4 else num
    twp = encode(t, ns, 't')
    rge = encode(r, ew, 'r')
    s_in = sec if enc in (0, 2) else str(sec) if enc in (1, 3) else str(sec).rjust(2, '0')
    # defaults are the *opposite* directions when the direction is written out: they must not override it
    if enc in (2, 3):
        dns, dew = ('s' if ns == 'n' else 'n'), ('e' if ew == 'w' else 'w')
    else:
        dns, dew = ns, ew
    exp = f'{t}{ns}{r}{ew}{sec:02d}'
    if master:
        # the directions come from MasterConfig at the time of the call (no keyword); restored afterwards
        from pytrs.parser.config.master_config import MasterConfig
        old_mc = (MasterConfig.default_ns, MasterConfig.default_ew)
        MasterConfig.default_ns, MasterConfig.default_ew = dns, dew
        try:
            obj = TRS.from_twprgesec(twp, rge, s_in)
            o2 = TRS()
            o2.set_twprgesec(twp, rge, s_in)
            if o2.trs != obj.trs:
                rep.violation('failing-input', {'call': 'set_twprgesec vs from_twprgesec (MasterConfig defaults)', 'twp': twp, 'rge': rge,
                                                'sec': s_in, 'MasterConfig': [dns, dew], 'observed': [o2.trs, obj.trs]})
        finally:
            MasterConfig.default_ns, MasterConfig.default_ew = old_mc
    else:
        obj = TRS.from_twprgesec(twp, rge, s_in, default_ns=dns, default_ew=dew)
    ok = (obj.trs == exp and obj.twp_num == t and obj.rge_num == r and obj.sec_num == sec and obj.twp_ns == ns
          and obj.rge_ew == ew and obj.twp == f'{t}{ns}' and obj.rge == f'{r}{ew}' and obj.sec == f'{sec:02d}'
          and obj.twprge == f'{t}{ns}{r}{ew}' and TRS(obj.trs).trs == exp and TRS(obj.trs) == obj
          and hash(TRS(obj.trs)) == hash(obj) and pytrs.Tract('x', trs=exp).trs == exp)
    # equal strings compare and hash equal also for an object that was hashed earlier and then re-set (setter / set_twprgesec)
    o3 = TRS('1n1w01')
    h_old = hash(o3)
    in_set = {o3}
    o3.trs = exp
    o4 = TRS('2s2e02')
    hash(o4)
    o4.set_twprgesec(twp, rge, s_in, default_ns=dns, default_ew=dew)
    for who, o in (('trs setter', o3), ('set_twprgesec', o4)):
        if not (o == TRS(exp) and hash(o) == hash(TRS(exp)) and TRS(exp) in {o} and {o: 1}.get(TRS(exp)) == 1):
            rep.violation('failing-input', {'call': f'hash / == after {who}', 'trs': exp, 'why': 'an object re-set to this string does not '
                                            'compare and hash like a fresh TRS of the same string', 'observed': o.trs})
            break
    if not ok:
        rep.violation('failing-input', {'call': 'from_twprgesec', 'twp': twp, 'rge': rge, 'sec': s_in,
                                        'default_ns': dns, 'default_ew': dew, 'defaults_via': 'MasterConfig' if master else 'keyword',
                                        'expected': exp, 'observed': obj.trs})
    items.append((impl.line_trs_construct(twp, rge, s_in, dns, dew, False), impl.impl_trs_construct(twp, rge, s_in, dns, dew, False),
                  {'op': 'construct_trs', 'args': [twp, rge, s_in, dns, dew]}))
    rep.nontrivial(('rt', t, ns, r, ew, sec, enc))


def check_strict(rep, s, items):
    exp = recognise(s)
    got = pytrs.trs_to_dict(s)['trs']
    got2 = TRS(s).trs
    got3 = pytrs.Tract('x', trs=s).trs
    if not (got == exp and got2 == exp and got3 == exp):
        rep.violation('failing-input', {'call': 'trs_to_dict', 'input': s, 'expected': exp, 'observed': got,
                                        'TRS': got2, 'Tract': got3})
    # idempotence
    again = pytrs.trs_to_dict(got)
    if again != pytrs.trs_to_dict(s) and s != '':
        first = pytrs.trs_to_dict(s)
        if {k: v for k, v in again.items()} != {k: v for k, v in first.items()}:
            rep.violation('failing-input', {'call': 'idempotence', 'input': s, 'first': str(first), 'second': str(again)})
    items.append((impl.line_trs_to_dict(s), impl.impl_trs_to_dict(s), {'op': 'trs_to_dict', 'input': s}))
    rep.nontrivial(('st', s))
    # "a township, range or section that is individually the error or undefined placeholder is reported as such":
    # is_error / is_undef for every selection of components, read off the expected string alone
    k = min(i for i, ch in enumerate(exp) if ch in 'nsz')        # the township ends with its direction letter (or the placeholder's z)
    p_t, p_r, p_s = exp[:k + 1], exp[k + 1:-2], exp[-2:]
    e_t, e_r, e_s = p_t == 'XXXz', p_r == 'XXXz', p_s == 'XX'
    u_t, u_r, u_s = p_t == '___z', p_r == '___z', p_s == '__'
    o = TRS(s)
    tr = pytrs.Tract('x', trs=s)
    for bits in range(8):
        a, b, c = bool(bits & 1), bool(bits & 2), bool(bits & 4)
        want_e = (a and e_t) or (b and e_r) or (c and e_s)
        want_u = (a and u_t) or (b and u_r) or (c and u_s)
        got_e = [bool(o.is_error(a, b, c)), bool(tr.trs_is_error(a, b, c))]
        got_u = [bool(o.is_undef(a, b, c)), bool(tr.trs_is_undef(a, b, c))]
        if got_e != [want_e] * 2 or got_u != [want_u] * 2:
            rep.violation('failing-input', {'call': f'is_error / is_undef (twp={a}, rge={b}, sec={c})', 'input': s, 'trs': exp,
                                            'expected': [want_e, want_u], 'observed': [got_e, got_u]})
            break
    if [bool(o.is_error()), bool(o.is_undef())] != [e_t or e_r or e_s, u_t or u_r or u_s]:
        rep.violation('failing-input', {'call': 'is_error() / is_undef() with default arguments', 'input': s, 'trs': exp,
                                        'observed': [bool(o.is_error()), bool(o.is_undef())]})


def run(ctx):
    rep = ctx.rep
    rng = Rng(ctx.seed, 12)
    items = []
    edge = [0, 1, 9, 10, 99, 100, 154, 999]
    for i in range(ctx.budget(1500, 200000)):
        r = rng.fork(i)
        t = r.choice(edge) if r.chance(1, 3) else r.range(0, 999)
        rg = r.choice(edge) if r.chance(1, 3) else r.range(0, 999)
        sec = r.choice([0, 1, 9, 10, 36, 99]) if r.chance(1, 3) else r.range(0, 99)
        ns, ew, enc = r.choice('ns'), r.choice('ew'), r.below(5)
        safely(rep, 'roundtrip', check_roundtrip, t, ns, rg, ew, sec, enc, items)
        if i % 3 == 0:
            # the same components again, directions taken from MasterConfig, first one way and then the other
            flip = {'n': 's', 's': 'n', 'e': 'w', 'w': 'e'}
            safely(rep, 'roundtrip (MasterConfig)', check_roundtrip, t, ns, rg, ew, sec, enc, [], True)
            safely(rep, 'roundtrip (MasterConfig)', check_roundtrip, t, flip[ns], rg, flip[ew], sec, enc, [], True)
            rep.count(2)
    bases = []
    for i in range(ctx.budget(2500, 300000)):
        r = rng.fork(500000 + i)
        k = r.below(10)
        if k < 6:
            base = f"{r.range(0, 999)}{r.choice('ns')}{r.range(0, 999)}{r.choice('ew')}{r.range(0, 99):02d}"
        elif k < 9:
            base = r.choice(['XXXz', '___z', f"{r.range(1, 200)}n"]) + r.choice(['XXXz', '___z', f"{r.range(1, 200)}w"]) \
                + r.choice(['XX', '__', '07', ''])
        else:
            base = r.choice(['', 'XXXzXXXzXX', '___z___z__', '154n97w', 'T154N-R97W', '154n97w14'])
        s = base if r.chance(1, 5) else edits(base, r, 1 if r.chance(2, 3) else 2)
        if r.chance(1, 6):
            s = s.upper() if r.chance(1, 2) else s.swapcase()
        safely(rep, 'strict', check_strict, s, items)
        rep.sample({'input': s, 'expected_trs': recognise(s)}, cap=6)
        rep.dist('c12_kind', 'standard' if recognise(s) not in ('XXXzXXXzXX',) else 'rejected')
    ctx.compare(items)


def replay(payload):
    from common import Report
    rep = Report('C12', 'quick', 0)
    p = payload.get('replay', {})
    if 'input' in p:
        check_strict(rep, p['input'], [])
    elif p.get('call') == 'from_twprgesec':
        obj = TRS.from_twprgesec(p['twp'], p['rge'], p['sec'], default_ns=p['default_ns'], default_ew=p['default_ew'])
        return obj.trs == p['expected']
    return not rep.violations
