"""C18 — filter/group operations partition the list; containers never drop silently."""
import elems
import impl
from common import Rng

import pytrs
from pytrs import TractList, TRSList, TRS, Tract


def safely(rep, what, f, *a):
    """run one oracle check; an exception escaping the library is itself a failing input for the observables"""
    try:
        return f(rep, *a)
    except Exception as e:  # noqa
        rep.violation('failing-input', {'check': what, 'args': [str(x)[:300] for x in a], 'why': f'raised {type(e).__name__}: {e}'})
        return None


RULE = ("lists of 0-10 elements (repeated instances, equal TRS, error/undefined TRS, parsed and unparsed tracts) x predicates "
        "x attribute lists of length 1-3 x duplicate methods x drop flag; iterables mixing acceptable and unacceptable "
        "element types x construction paths (constructor, extend, +=, +, insert, __setitem__, append, from_multiple with "
        "nesting); non-trivial = list of >= 2 elements; distinct by (list, operation)")
TRUSTED = []
ASSUMPTIONS = ["group_by attributes are hashable Tract/TRS attributes"]

PREDS = ['sec_odd', 'has_lots', 'true', 'false', 'secnum_lt:3', 'secnum_lt:15', 'twp_eq:2n', 'twp_eq:XXXz']
ATTRS = ['twprge', 'sec', 'twp', 'rge', 'trs', 'twp_num', 'sec_num', 'twp_ns', 'bogus']


def ids(l):
    return [id(o) for o in l]


def check_filter(rep, specs, p, drop):
    l, objs = impl.mklist(specs)
    f = impl.pred_fn(p)
    want = [o for o in objs if f(o)]
    rest = [o for o in objs if not f(o)]
    got = l.filter(f, drop)
    if ids(got) != ids(want) or ids(l) != (ids(rest) if drop else ids(objs)):
        rep.violation('failing-input', {'op': 'filter', 'elements': [list(s) for s in specs], 'pred': p, 'drop': drop,
                                        'why': 'filter result / remainder is not the order-preserving partition'})


def check_defaults_and_wrappers(rep, r):
    """the documented defaults (drop=False; filter_errors on all three components, undefined not counted; duplicates by
    instance for a TractList) and the PLSSDesc methods of the same names, which act on the description's tracts"""
    text = r.choice(['T154N-R97W Sec 14: NE/4, Sec 15: W/2, Sec 14: NE/4\nT155N-R97W NE/4', 'Sec 5: ALL, T1N-R1W Sec 1: Lot 1, Sec 1: Lot 1',
                     'T154N-R97W Sec 14: NE/4, Sec 101: W/2, Sec 14: S/2'])
    d = pytrs.PLSSDesc(text, parse_qq=True)
    for who, tl in (('TractList', d.tracts), ('PLSSDesc', d)):
        objs = list(d.tracts)
        def ok(got, want):
            return ids(got) == ids(want) and ids(d.tracts) == ids(objs)
        f = impl.pred_fn(r.choice(sorted(impl.PREDS)))
        bad = None
        if not ok(tl.filter(f), [o for o in objs if f(o)]):
            bad = 'filter(key) with the default drop'
        elif not ok(tl.filter_errors(), [o for o in objs if 'XXXz' in o.trs or o.trs.endswith('XX')]):
            bad = 'filter_errors() with the default arguments'
        elif not ok(tl.filter_duplicates(), []):
            bad = 'filter_duplicates() with the default method (instance) and drop'
        elif not ok(tl.filter_duplicates('trs'), [o for k, o in enumerate(objs) if o.trs in [x.trs for x in objs[:k]]]):
            bad = "filter_duplicates('trs') with the default drop"
        else:
            g = tl.group_by('twprge')
            if [k for k in g] != list(dict.fromkeys(o.twprge for o in objs)) or any(ids(v) != ids([o for o in objs if o.twprge == k]) for k, v in g.items()):
                bad = "group_by('twprge')"
        if bad:
            rep.violation('failing-input', {'op': f'{who}.{bad}', 'text': text, 'why': 'result is not the documented one, or the receiver was changed although drop was not asked for'})
        rep.count()


def check_errors(rep, specs, twp, rge, sec, undef, drop):
    l, objs = impl.mklist(specs)

    def bad(o):
        t = TRS(o.trs)
        comps = []
        if twp:
            comps.append((t.twp_num, t.twp_undef))
        if rge:
            comps.append((t.rge_num, t.rge_undef))
        if sec:
            comps.append((t.sec_num, t.sec_undef))
        return any((n is None and not u) or (undef and u) for n, u in comps)
    want = [o for o in objs if bad(o)]
    rest = [o for o in objs if not bad(o)]
    got = l.filter_errors(twp, rge, sec, undef, drop)
    if ids(got) != ids(want) or ids(l) != (ids(rest) if drop else ids(objs)):
        rep.violation('failing-input', {'op': 'filter_errors', 'elements': [list(s) for s in specs],
                                        'args': [twp, rge, sec, undef, drop], 'why': 'not the elements with an error component'})


def dup_key(o, method):
    if method == 'trs':
        return o.trs
    if method == 'desc':
        return f"{o.trs}_{o.pp_desc.strip()}" if isinstance(o, Tract) else o.trs
    if method == 'lots_qqs':
        if not isinstance(o, Tract) or not o.parse_complete:
            return None
        return f"{o.trs}_{sorted(set(o.lots_qqs))}"
    return None


def check_dups(rep, specs, method, drop):
    # put a repeated instance into the list as well
    l, objs = impl.mklist(specs)
    if objs and isinstance(objs[0], Tract):
        objs = objs + [objs[0]]
        l = TractList(objs)
    seen_obj, seen_key, want = [], set(), []
    for o in objs:
        # Tract objects are compared by identity, TRS objects by their (hashable) value
        is_dup = any(o is s for s in seen_obj) if isinstance(o, Tract) else any(o == s for s in seen_obj)
        seen_obj.append(o)
        k = dup_key(o, method if method != 'default' else ('trs' if isinstance(l, TRSList) else 'instance'))
        if k is not None:
            if k in seen_key:
                is_dup = True
            seen_key.add(k)
        if is_dup:
            want.append(o)
    rest = [o for o in objs if not any(o is w for w in want)] if drop else objs
    got = l.filter_duplicates(method, drop)
    ok = ids(got) == ids(want)
    if drop:
        # a repeated instance is removed at its later positions only
        remaining = list(objs)
        for w in reversed(want):
            idx = max(i for i, o in enumerate(remaining) if o is w)
            remaining.pop(idx)
        ok = ok and ids(l) == ids(remaining)
    else:
        ok = ok and ids(l) == ids(objs)
    if not ok:
        rep.violation('failing-input', {'op': 'filter_duplicates', 'elements': [list(s) for s in specs], 'method': method,
                                        'drop': drop, 'why': 'not exactly the elements whose key already occurred earlier',
                                        'observed': [impl.tag(o) for o in got], 'expected': [impl.tag(o) for o in want]})


def check_group(rep, specs, attrs):
    l, objs = impl.mklist(specs)

    def key(o):
        vals = [getattr(o, a, f"{a}: n/a") for a in attrs]
        return vals[0] if len(attrs) == 1 else tuple(vals)
    g = l.group_by(list(attrs) if len(attrs) > 1 else attrs[0])
    why = None
    allg = [o for v in g.values() for o in v]
    if sorted(ids(allg)) != sorted(ids(objs)):
        why = 'groups do not contain every element exactly once'
    else:
        for k, v in g.items():
            if ids(v) != [id(o) for o in objs if key(o) == k]:
                why = 'a group is not the order-preserving sublist of elements with its key'
                break
        if not why and ids(type(l).unpack_group(g)) != ids(allg):
            why = 'unpack_group does not return the grouped elements'
        if not why:
            n = l.group_by_nested(list(attrs))
            flat = []

            def walk(d, path):
                for k, v in d.items():
                    if isinstance(v, dict):
                        walk(v, path + [k])
                    else:
                        for o in v:
                            flat.append((tuple(path + [k]), id(o)))
            walk(n, [])
            exp = [((tuple(getattr(o, a, f"{a}: n/a") for a in attrs)), id(o)) for o in objs]
            if sorted(flat, key=lambda x: (str(x[0]), x[1])) != sorted(exp, key=lambda x: (str(x[0]), x[1])):
                why = 'group_by_nested is not the nested version of the same partition'
        if not why and len(objs) >= 2:
            # accumulating into an existing grouping (`into=`), list by list: still every element exactly once, in order
            cut = len(objs) // 2
            cls = type(l)
            acc_flat, acc_nested = {}, {}
            for part in (objs[:cut], objs[cut:]):
                sub = cls(part)
                r1 = sub.group_by(list(attrs) if len(attrs) > 1 else attrs[0], into=acc_flat)
                acc_flat = r1 if r1 is not None else acc_flat
                r2 = sub.group_by_nested(list(attrs), into=acc_nested)
                acc_nested = r2 if r2 is not None else acc_nested
            got = [(k, id(o)) for k, v in acc_flat.items() for o in v]
            expf = [(key(o), id(o)) for o in objs]
            if sorted(got, key=lambda x: (str(x[0]), x[1])) != sorted(expf, key=lambda x: (str(x[0]), x[1])):
                why = 'group_by(..., into=<existing groups>) loses or duplicates elements'
            flat = []
            walk(acc_nested, [])
            if not why and sorted(flat, key=lambda x: (str(x[0]), x[1])) != sorted(exp, key=lambda x: (str(x[0]), x[1])):
                why = 'group_by_nested(..., into=<existing groups>) loses or duplicates elements'
        if not why:
            # the nested grouping unpacks to the same elements; sorting options only reorder inside a group
            cls = type(l)
            n = l.group_by_nested(list(attrs))
            if sorted(ids(cls.unpack_group(n))) != sorted(ids(objs)):
                why = 'unpack_group of a nested grouping does not return the grouped elements'
            for sk in ('i', 's.num', 't.num,r.num'):
                if why:
                    break
                gs = l.group_by(list(attrs) if len(attrs) > 1 else attrs[0], sort_key=sk, sort_reverse=(sk == 's.num'))
                if list(gs.keys()) != list(g.keys()) or any(sorted(ids(gs[k])) != sorted(ids(g[k])) for k in g):
                    why = f'group_by(sort_key={sk!r}) changes the partition'
                    break
                for k in g:
                    ref = cls(list(g[k]))
                    ref.custom_sort(sk, reverse=(sk == 's.num'))
                    if ids(gs[k]) != ids(ref):
                        why = f'group_by(sort_key={sk!r}): a group is not sorted as custom_sort sorts it'
                        break
                if not why:
                    ns = l.group_by_nested(list(attrs), sort_key=sk)
                    if sorted(ids(cls.unpack_group(ns))) != sorted(ids(objs)):
                        why = f'group_by_nested(sort_key={sk!r}) loses or duplicates elements'
                if not why:
                    un = cls.unpack_group(g, sort_key=sk)
                    ref = cls(allg)
                    ref.custom_sort(sk)
                    if ids(un) != ids(ref):
                        why = f'unpack_group(sort_key={sk!r}) is not the sorted list of the grouped elements'
    if why:
        rep.violation('failing-input', {'op': 'group_by', 'elements': [list(s) for s in specs], 'attrs': list(attrs), 'why': why})


def check_desc_wrappers(rep, r):
    """PLSSDesc.group_by / group_by_nested / filter* delegate to the description's TractList"""
    text = r.choice(['T154N-R97W Sec 14: NE/4, Sec 15: W/2, Sec 14: S/2\nT155N-R97W Sec 1: Lots 1 - 3, Sec 14: ALL',
                     'NE/4 of Sec 5, T2N-R3W, W/2 of Sec 9 and 10, T2N-R3W, all of Section, T2N-R3W',
                     'T1S-R1E Sec 1 - 4: N/2'])
    d = pytrs.PLSSDesc(text, parse_qq=True)
    attrs = r.choice([['twprge'], ['sec'], ['twprge', 'sec'], ['twp', 'rge', 'sec_num']])
    why = None

    def flat(dct, path=()):
        out = []
        for k, v in dct.items():
            if isinstance(v, dict):
                out += flat(v, path + (k,))
            else:
                out += [(path + (k,), id(o)) for o in v]
        return out
    a = attrs if len(attrs) > 1 else attrs[0]
    if flat(d.group_by(a)) != flat(d.tracts.group_by(a)):
        why = 'PLSSDesc.group_by differs from its TractList.group_by'
    elif flat(d.group_by_nested(attrs)) != flat(d.tracts.group_by_nested(attrs)):
        why = 'PLSSDesc.group_by_nested differs from its TractList.group_by_nested'
    elif sorted(x[1] for x in flat(d.group_by_nested(attrs))) != sorted(id(t) for t in d.tracts):
        why = 'PLSSDesc.group_by_nested does not put every tract into exactly one group'
    if why:
        rep.violation('failing-input', {'op': 'PLSSDesc grouping wrappers', 'text': text, 'attrs': attrs, 'why': why})


def check_construction(rep, r):
    d = pytrs.PLSSDesc('T154N-R97W Sec 14: NE/4, Sec 15: W/2')
    t1, t2 = d.tracts[0], d.tracts[1]
    good_t = [t1, t2, Tract('x', trs='1n1w01')]
    bad = r.choice(['abc', 3, None, 4.5, ('a',), TRS('1n1w01'), ['x']])
    n = r.range(0, 3)
    seq = list(good_t[:n]) + [bad] + list(good_t[n:])
    paths = {
        'TractList(iterable)': lambda: TractList(seq),
        'extend': lambda: TractList(good_t).extend(seq),
        '+=': lambda: TractList(good_t).__iadd__(seq),
        '+': lambda: TractList(good_t) + seq,
        'append': lambda: TractList(good_t).append(bad),
        'insert': lambda: TractList(good_t).insert(0, bad),
        '__setitem__': lambda: TractList(good_t).__setitem__(0, bad),
        'from_multiple': lambda: TractList.from_multiple(good_t, [bad]),
        'TRSList(iterable)': lambda: TRSList(['154n97w14', 3 if not isinstance(bad, (int, float)) else bad]),
        'TRSList.from_multiple': lambda: TRSList.from_multiple('154n97w14', [[5]]),
    }
    for name, f in paths.items():
        if name.startswith('TRSList') is False and isinstance(bad, Tract):
            continue
        try:
            f()
            rep.violation('failing-input', {'op': name, 'bad_element': repr(bad), 'why': 'unacceptable element accepted or silently dropped'})
        except TypeError:
            pass
        except RecursionError:
            rep.violation('failing-input', {'op': name, 'bad_element': repr(bad), 'why': 'unbounded recursion instead of TypeError'})
        except Exception as e:  # noqa
            rep.violation('failing-input', {'op': name, 'bad_element': repr(bad), 'why': f'raised {type(e).__name__} instead of TypeError'})
        rep.count()
    # acceptable inputs: everything kept, in order; TRSList converts
    tl = TractList(good_t)
    tl.extend([t2, t1])
    tl += [t1]
    tl2 = tl + [t2]
    tl.insert(1, t2)
    tl[0] = t2
    ok = (ids(tl) == ids([t2, t2, t2, good_t[2], t2, t1, t1]) and ids(tl2) == ids(good_t + [t2, t1, t1, t2])
          and ids(TractList.from_multiple(d, [t1, [t2]], tl2)) == ids([t1, t2, t1, t2] + list(tl2)))
    rl = TRSList(['154n97w14', t1, TRS('1n1w01')])
    rl[0] = '2n2w02'
    rl.append(t2)
    rl.insert(0, '3n3w03')
    ok = ok and all(isinstance(e, TRS) for e in rl) and [e.trs for e in rl] == ['3n3w03', '2n2w02', '154n97w14', '1n1w01', '154n97w15']
    ok = ok and [e.trs for e in TRSList.from_multiple('1n1w01', [t1, ['2n2w02']], d.tracts)] == ['1n1w01', '154n97w14', '2n2w02', '154n97w14', '154n97w15']
    if not ok:
        rep.violation('failing-input', {'op': 'construction', 'why': 'acceptable elements not all kept in order / not converted to TRS'})
    rep.count()
    # "built or extended from ANY iterable": tuples, generators, iterators, map objects, reversed views, dict views, deques
    import collections as _c
    kinds = {
        'list': lambda xs: list(xs), 'tuple': lambda xs: tuple(xs), 'generator': lambda xs: (x for x in xs),
        'iter()': lambda xs: iter(list(xs)), 'map': lambda xs: map(lambda x: x, xs), 'reversed(reversed)': lambda xs: reversed(list(reversed(xs))),
        'dict values': lambda xs: {k: x for k, x in enumerate(xs)}.values(), 'deque': lambda xs: _c.deque(xs), 'filter': lambda xs: filter(lambda x: True, xs),
    }
    for cls, elems_, conv in ((TractList, good_t + [t1], ids), (TRSList, ['154n97w14', t1, TRS('1n1w01'), '154n97w14'], lambda l: [e.trs for e in l])):
        want = conv(cls(list(elems_)))
        for kname, mk in kinds.items():
            for how in ('constructor', 'extend', '+=', '+'):
                if how == 'constructor':
                    got = cls(mk(elems_))
                elif how == 'extend':
                    got = cls()
                    got.extend(mk(elems_))
                elif how == '+=':
                    got = cls()
                    got += mk(elems_)
                else:
                    got = cls() + mk(elems_)
                if conv(got) != want or (cls is TRSList and not all(isinstance(e, TRS) for e in got)):
                    rep.violation('failing-input', {'op': f'{cls.__name__} {how} from a {kname}', 'why': 'not every supplied element is in '
                                                    'the container, in order (and no TypeError was raised)', 'observed_length': len(got),
                                                    'expected_length': len(want)})
                rep.count()
    # a TRSList built / extended from a TractList (and from a PLSSDesc) converts every tract to a TRS
    for src_name, src in (('TractList', TractList(good_t + [t1])), ('PLSSDesc', d), ('PLSSDesc.tracts', d.tracts)):
        want = [t.trs for t in src]
        for how in ('constructor', 'extend', '+=', '+', 'from_multiple'):
            if how == 'constructor':
                got = TRSList(src)
            elif how == 'extend':
                got = TRSList()
                got.extend(src)
            elif how == '+=':
                got = TRSList()
                got += src
            elif how == '+':
                got = TRSList() + src
            else:
                got = TRSList.from_multiple(src)
            if [e.trs for e in got] != want or not all(isinstance(e, TRS) for e in got):
                rep.violation('failing-input', {'op': f'TRSList {how} from a {src_name}', 'why': 'elements are not all TRS objects of the '
                                                'supplied tracts, in order', 'types': sorted({type(e).__name__ for e in got})})
            rep.count()
    # a container built from another container of the same class is a new list: later in-place operations on
    # either one must not make the other lose (or gain) elements
    for cls, elems_ in ((TractList, good_t + [t1]), (TRSList, ['154n97w14', '1n1w01', 'XXXzXXXzXX', '154n97w14'])):
        src = cls(elems_)
        before = ids(src)
        for how in ('constructor', 'copy', 'extend', '+=', '+', 'from_multiple'):
            if how == 'constructor':
                cp = cls(src)
            elif how == 'copy':
                cp = src.copy()
            elif how == 'extend':
                cp = cls()
                cp.extend(src)
            elif how == '+=':
                cp = cls()
                cp += src
            elif how == '+':
                cp = cls() + src
            else:
                cp = cls.from_multiple(src)
            op = r.below(5)
            if op == 0:
                cp.filter(lambda e: True, drop=True)
            elif op == 1:
                cp.pop()
            elif op == 2:
                cp.append(elems_[0])
            elif op == 3:
                cp.filter_errors(drop=True)
                cp.filter_duplicates(drop=True)
            else:
                cp.custom_sort('s.rev')
                cp.reverse()
            if ids(src) != before:
                rep.violation('failing-input', {'op': f'{cls.__name__} via {how}, then in-place operation {op} on the new list',
                                                'why': 'the source container no longer holds every element it was given, in order'})
            rep.count()


def run(ctx):
    rep = ctx.rep
    rng = Rng(ctx.seed, 18)
    items = []
    for i in range(ctx.budget(700, 30000)):
        r = rng.fork(i)
        specs = elems.rand_specs(r)
        p = r.choice(PREDS)
        drop = r.chance(1, 2)
        safely(rep, 'filter', check_filter, specs, p, drop)
        items.append((impl.line_cont_filter(specs, p, drop), impl.impl_cont_filter(specs, p, drop), {'op': 'filter', 'pred': p, 'drop': drop, 'elements': [list(s) for s in specs]}))
        a = (r.chance(3, 4), r.chance(3, 4), r.chance(3, 4), r.chance(1, 2), r.chance(1, 2))
        safely(rep, 'filter_errors', check_errors, specs, *a)
        items.append((impl.line_cont_filter_errors(specs, *a), impl.impl_cont_filter_errors(specs, *a), {'op': 'filter_errors', 'args': list(a), 'elements': [list(s) for s in specs]}))
        method = r.choice(['default', 'instance', 'trs', 'desc', 'lots_qqs'])
        safely(rep, 'filter_duplicates', check_dups, specs, method, drop)
        items.append((impl.line_cont_filter_dups(specs, method, drop), impl.impl_cont_filter_dups(specs, method, drop), {'op': 'filter_duplicates', 'method': method, 'drop': drop, 'elements': [list(s) for s in specs]}))
        attrs = [r.choice(ATTRS) for _ in range(r.range(1, 3))]
        safely(rep, 'group_by', check_group, specs, attrs)
        if i % 10 == 0:
            safely(rep, 'PLSSDesc grouping wrappers', check_desc_wrappers, r)
        items.append((impl.line_cont_group(specs, attrs), impl.impl_cont_group(specs, attrs), {'op': 'group_by', 'attrs': attrs, 'elements': [list(s) for s in specs]}))
        rep.count(4)
        if len(specs) >= 2:
            rep.nontrivial((tuple(specs), p, drop, method, tuple(attrs)))
        rep.sample({'elements': [s[2] if s[0] == 't' else s[1] for s in specs], 'pred': p, 'method': method, 'attrs': attrs, 'drop': drop}, cap=5)
        if i % 10 == 0:
            safely(rep, 'construction', check_construction, r)
        if i % 2 == 0:
            safely(rep, 'defaults and PLSSDesc wrappers', check_defaults_and_wrappers, r)
            # construction paths, model vs implementation: a container of either class, built / extended / appended /
            # inserted from tracts, TRS objects, strings and unacceptable objects
            is_trs = r.chance(1, 2)
            self_specs = elems.rand_specs(r, n=r.range(0, 3), kind='r' if is_trs else 't')
            its = []
            for _ in range(r.range(0, 4)):
                k = r.below(8)
                if k < 3:
                    its.append(elems.rand_specs(r, n=1, kind='t')[0])
                elif k < 5:
                    its.append(elems.rand_specs(r, n=1, kind='r')[0])
                elif k < 7:
                    its.append(('s', elems.rand_trs(r)))
                else:
                    its.append(('o',))
            how = r.choice(['construct', 'extend', 'append', 'insert:%d' % r.range(0, 4)])
            if how.startswith(('append', 'insert')):
                its = its[:1] or [('o',)]
            items.append((impl.line_cont_build(is_trs, how, self_specs, its), impl.impl_cont_build(is_trs, how, self_specs, its),
                          {'op': 'cont.build', 'class': 'TRSList' if is_trs else 'TractList', 'how': how, 'items': [list(x) for x in its]}))
    ctx.compare(items)


def replay(payload):
    return None      # no input-specific replay: run_check re-runs the check with the recorded seed and tier
