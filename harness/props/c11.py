"""C11 — copy_all, forced or as fallback, keeps the whole text in exactly one tract."""
import descs
import gen
from common import Rng

import pytrs


def safely(rep, what, f, *a):
    """run one oracle check; an exception escaping the library is itself a failing input for the observables"""
    try:
        return f(rep, *a)
    except Exception as e:  # noqa
        rep.violation('failing-input', {'check': what, 'args': [str(x)[:300] for x in a], 'why': f'raised {type(e).__name__}: {e}'})
        return None


RULE = ("all kinds of strings x {layout='copy_all' via init keyword, config string, parse(layout=) committed or not, .config / .layout assigned after creation}; for "
        "deduced layouts: strings lacking a Twp/Rge, lacking a section, or whose sections are all rejected (colon required "
        "but absent); non-trivial = text that would otherwise split into >= 2 tracts, or a fallback case; distinct by (text, channel)")
TRUSTED = []
ASSUMPTIONS = []


def one_whole(tracts, pp):
    return len(tracts) == 1 and tracts[0].desc == pp


def check_forced(rep, text, extra_cfg):
    ref = pytrs.PLSSDesc(text, wait_to_parse=True, config=extra_cfg)
    pp = ref.preprocess()
    chans = {}
    chans['init keyword'] = pytrs.PLSSDesc(text, layout='copy_all', config=extra_cfg)
    chans['config string'] = pytrs.PLSSDesc(text, config=(extra_cfg + ',' if extra_cfg else '') + 'copy_all')
    d3 = pytrs.PLSSDesc(text, config=extra_cfg)
    r3 = d3.parse(layout='copy_all', commit=False)
    d4 = pytrs.PLSSDesc(text, config=extra_cfg)
    d4.parse(layout='copy_all')
    chans['parse(layout=) committed'] = d4
    # requested after creation: assigned to .config (str or Config) or to .layout, on an unparsed or already parsed object
    d5 = pytrs.PLSSDesc(text, config=extra_cfg, wait_to_parse=True)
    d5.config = 'copy_all'
    d5.parse()
    chans['.config assigned before the first parse'] = d5
    d6 = pytrs.PLSSDesc(text, config=extra_cfg)
    d6.config = pytrs.Config((extra_cfg + ',' if extra_cfg else '') + 'copy_all')
    d6.parse()
    chans['.config assigned (Config object) after a parse'] = d6
    d7 = pytrs.PLSSDesc(text, config=extra_cfg)
    d7.layout = 'copy_all'
    d7.parse()
    chans['.layout assigned after a parse'] = d7
    for name, d in chans.items():
        if not one_whole(d.tracts, pp) or d.current_layout != 'copy_all':
            rep.violation('failing-input', {'text': text, 'config': extra_cfg, 'channel': name,
                                            'why': 'copy_all requested but result is not exactly one tract holding the entire preprocessed text',
                                            'tracts': [(t.trs, t.desc) for t in d.tracts][:5], 'layout': d.current_layout})
            return
    if not one_whole(r3, pp):
        rep.violation('failing-input', {'text': text, 'config': extra_cfg, 'channel': 'parse(layout=, commit=False)',
                                        'why': 'copy_all requested but result is not exactly one tract holding the entire preprocessed text',
                                        'tracts': [(t.trs, t.desc) for t in r3][:5]})


def check_fallback(rep, text, cfg, kind):
    d = pytrs.PLSSDesc(text, config=cfg)
    pp = d.pp_desc
    whole = [t for t in d.tracts if t.desc == pp]
    why = None
    tag = None
    if len(whole) > 1:
        why = 'two tracts both carry the complete text'
    elif kind in ('no_twprge', 'no_sec', 'colon_required'):
        if not one_whole(d.tracts, pp):
            why = f'{kind}: expected exactly one fallback tract with the whole text'
            # listed finding: a fallback decided for a chunk (the description as a whole was not deduced to be copy_all) goes
            # through the parser's clean_up default, so separators / connectors at the two ends of the text are trimmed
            from pytrs.parser.plssdesc.plss_parse import cleanup_desc
            if (len(d.tracts) == 1 and d.current_layout != 'copy_all' and d.tracts[0].desc != pp
                    and d.tracts[0].desc == cleanup_desc(pp)):
                tag = 'C11-fallback-trimmed'
        else:
            t = d.tracts[0]
            both = t.twp_num is not None and t.sec_num is not None
            if not both and not d.e_flags:
                why = 'fallback without an error flag although Twp/Rge or section is missing'
    if why:
        rep.violation('failing-input', {'text': text, 'config': cfg, 'kind': kind, 'why': why,
                                        'tracts': [(t.trs, t.desc) for t in d.tracts][:5], 'e_flags': d.e_flags}, tag=tag)


def run(ctx):
    rep = ctx.rep
    rng = Rng(ctx.seed, 11)
    items = []
    for i in range(ctx.budget(250, 20000)):
        r = rng.fork(i)
        text = descs.any_text(r)
        extra = r.choice(['', '', 'segment', 'sec_within', 'sec_colon_required', 'parse_qq', 'ocr_scrub'])
        safely(rep, 'forced', check_forced, text, extra)
        rep.count(4)
        rep.nontrivial((text, extra))
        rep.sample({'text': text[:160], 'config': extra}, cap=3)
        items.append(descs.corr_item(text, layout='copy_all', cfg=extra or None))
        if i % 2 == 0:
            items.append(descs.corr_item(text, cfg=(extra + ',' if extra else '') + 'copy_all'))
            items.append(descs.corr_item(text, cfg=extra or None, kw={'layout': 'copy_all'}))
        # fallback families
        t2, lay, g = descs.structured(r, max_tr=1, max_sg=2, canonical_tr=True)
        k = r.below(4)
        if k == 0:
            import re as _re
            txt = _re.sub(r'T\d+[NS]-R\d+[EW]', 'the county', t2)
            kind = 'no_twprge'
            cfg = None
        elif k == 1:
            txt = r.choice(['T154N-R97W NE/4 and the river bottom', 'Township 154 North, Range 97 West: all of it',
                            'T154N-R97W', 'T154N-R97W Section of land'])
            kind = 'no_sec'
            cfg = r.choice([None, 'segment', 'segment,sec_within', 'sec_colon_cautious'])
            if r.chance(1, 2):
                txt = r.choice(['That part of T154N-R97W lying north of the river, together with the accretions in T155N-R97W Williams County',
                                'T154N-R97W All lands lying south of the centerline of the river', txt])
        elif k == 2:
            tt, _, _ = descs.structured(r, max_tr=1, max_sg=1, layout='TRS_desc', colons=True, canonical_tr=True)
            txt = tt.replace(':', '')
            kind = 'colon_required'
            cfg = 'sec_colon_required'
        else:
            txt = descs.malformed(r)
            kind = 'any'
            cfg = descs.valid_config(r)
        if kind in ('no_twprge', 'no_sec') and r.chance(1, 2):
            # text whose ends are what cleanup_desc would trim (the whole text must be kept verbatim all the same)
            txt = r.choice(['', '. ', ', ', '- ', ': ']) + txt + r.choice([';', ',', ' of', ' in', ' and', ' the', ' all of', ' -', ':', ' all in'])
        safely(rep, 'fallback', check_fallback, txt, cfg, kind)
        rep.count()
        rep.nontrivial((txt, kind))
        rep.dist('c11_fallback_kind', kind)
        rep.sample({'fallback_text': txt[:160], 'kind': kind, 'config': cfg}, cap=6)
        items.append(descs.corr_item(txt, cfg=cfg))
    ctx.compare(items)


def replay(payload):
    return None      # no input-specific replay: run_check re-runs the check with the recorded seed and tier
