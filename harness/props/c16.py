"""C16 — parsing time stays bounded on any input of ordinary size."""
import json
import multiprocessing as mp
import re
import signal
import time

import tier1
from common import Rng

RULE = ("pumping families prefix + unit^n + suffix up to 300 characters, units = every atom (one or two representatives per "
        "character class) and a vocabulary of 2-atom words of the patterns, plus structural repetition (k lines each "
        "repeating a Twp/Rge, k sections, k lots); each case timed in an isolated worker with a hard time-out; a case "
        "counts only if it exceeds 2 s and grows super-linearly (t(n) > 3 t(n/2)); non-trivial = every family; distinct by (prefix, unit, suffix)")
TRUSTED = ["C16: wall-clock time is a runtime quantity; the model proves the polynomial/exponential split (Safe patterns), "
           "the search measures seconds"]
ASSUMPTIONS = ["'a couple of seconds' = 2 s on this machine, measured with the 16 cores busy"]

LIMIT = 300
SLOW = 2.0
HARD = 3.0

PREFIXES = ['', 'T154N-R97W Sec 14', 'T154N-R97W Sec 14: Lot 1', 'Sec 1', 'Lot 1', 'T154N-R97W', 'T154N-R97W ',
            'Township 154 North, Range 97 West', 'T154N-R97W Sec 14: NE/4', 'T154N-R97W Sec 14: N½', 'T154N-R97W of the ',
            'T154N-R97W Sec 14: Lots 1', 'Township 154', 'T154N', 'T154N-R97W Sec 14: N']
SUFFIXES = ['', 'NE/4', ' P.M.', ': NE/4', ' 2', 'W', ' Sec 14: NE/4']
WORDS = ['and', ' and ', '&', ' & ', 'thru', ' through ', ' - ', '-', ', ', '. ', '; ', ': ', '/', ' ', '\t', '\n', '\r\n', '  ',
         'Sec ', 'Lot ', 'N/2 ', 'NE/4 ', 'of the ', 'of ', 'T154N-R97W ', '1', '0', '12', 'N', 'o', 'e', 's', 'st', 'th', 'the',
         '½', '¼', 'NE', 'N½', 'NE¼', ' of ', 'One ', ' 1/4', 'Q', 'uarter', 'P', 'M', 'P.', ' M', 'i', 'an', 'al', '.', ',', ';',
         ':', '–', '—', '(', '1)', '[', 'L', 'Lt', 't', 'to', ' to ', 'T', 'R', 'W', 'E', 'S', 'a', 'd', 'h', 'n', 'g', 'r', 'u', 'w', 'p',
         'l', 'c', '_', '|', '~', '§', 'x', '  ,', ' .']

INTERVENER_UNIT = re.compile(r'^(\s|[\/\.,;:&\-–—]|and|thru\.?|th[rough]{3,6}\.?|to)+$', re.I)
NUM_CONTEXT = re.compile(r'(Sec(tion)?s?|§|L(o?t)?s?\.?)\s*\d{1,3}$', re.I)


def known_intervener_family(prefix, unit):
    """known finding C16-intervener-backtracking: interveners pumped right after a section / lot number"""
    return bool(INTERVENER_UNIT.match(unit)) and bool(NUM_CONTEXT.search(prefix))


def known_pm_whitespace_family(prefix, unit):
    """known finding C16-pm-whitespace: a run of white space right after a Twp/Rge (pp_twprge_pm's adjacent \\s* groups)"""
    if not unit or unit.strip() != '':
        return False
    from pytrs.parser.rgxlib import twprge_regex
    p = prefix.rstrip()
    return any(m.end() == len(p) for m in twprge_regex.finditer(p))


def known_aliquot_whitespace_family(prefix, unit):
    """known finding C16-aliquot-whitespace: white space pumped right after an aliquot (aliquot_intervener_remover_regex)"""
    if not unit or unit.strip() != '' or not re.search(r'(½|¼|/4|/2|N2|S2|E2|W2)\s*$', prefix):
        return False
    # runs of blanks / tabs, and runs of line breaks, are collapsed by reduce_whitespace before they reach the aliquot
    # patterns (fast, and they must stay fast); only white space that survives it belongs to the listed finding
    return not (set(unit) <= {' ', '\t'} or set(unit) <= {'\n', '\r'})


def known_family(prefix, unit):
    if known_aliquot_whitespace_family(prefix, unit):
        return 'C16-aliquot-whitespace'
    if known_pm_whitespace_family(prefix, unit):
        return 'C16-pm-whitespace'
    return None


class _TO(Exception):
    pass


def _alarm(*a):
    raise _TO()


def timed_parse(text, hard=HARD, config=None):
    """CPU seconds (not wall clock: other processes sharing the machine must not turn a one-second parse into an alarm) that
    PLSSDesc(text, parse_qq=True) takes (under the given config string), cut off after `hard` CPU seconds"""
    import pytrs
    signal.signal(signal.SIGVTALRM, _alarm)
    signal.setitimer(signal.ITIMER_VIRTUAL, hard)
    t0 = time.process_time()
    try:
        pytrs.PLSSDesc(text, parse_qq=True, config=config)
        return time.process_time() - t0
    except _TO:
        return hard
    except Exception:  # noqa (totality is C03's business)
        return time.process_time() - t0
    finally:
        signal.setitimer(signal.ITIMER_VIRTUAL, 0)


AGED_PROBES = ['T154N-R97W Sec 14: NE/4',
               '\n'.join(f'T15{i}N-R9{i}W Sec {i + 1}: NE/4' for i in range(10)),
               'NE/4 of Sec 14, W/2 of Sec 15, T154N-R97W; Lots 1 - 3 of Sec 1, T155N-R97W']


def aged_process_times(n_before):
    """(text, CPU seconds in this fresh worker, CPU seconds after n_before parses under all kinds of settings); the ageing parses
    are themselves timed and capped: a library that gets slower with every parse must not hang the check — the slow ageing parse
    IS the observation"""
    import pytrs
    fresh = [timed_parse(t, hard=12.0) for t in AGED_PROBES]
    cfgs = ['ocr_scrub', 'segment', 'ocr_scrub,clean_qq,parse_qq', 'sec_within', 'ocr_scrub', None, 'ocr_scrub,segment', 'sec_colon_cautious', 'ocr_scrub,s,e',
            'qq_depth.1,parse_qq']
    texts = ['TI54N-R97W Sec 14: NE/4, Sec 15: W/2', 'Township 154 North, Range 97 West\nSection 1: Lots 1 - 3, S/2N/2', 'T154-R97 Sec 3: NE, N2']
    first_seen = {}
    slowed = []
    for i in range(n_before):
        key = (texts[i % len(texts)], cfgs[i % len(cfgs)])
        t = timed_parse(key[0], hard=6.0, config=key[1])
        first_seen.setdefault(key[0], t)
        if t > SLOW and t > 3 * max(first_seen[key[0]], 0.05):
            slowed.append((key[0], first_seen[key[0]], t, i))
            break
    aged = [timed_parse(t, hard=12.0) for t in AGED_PROBES]
    out = [(t, a, b) for t, a, b in zip(AGED_PROBES, fresh, aged)]
    for text, t0, t1, i in slowed:
        out.append((f'{text}  [as parse number {i + 1} of the process]', t0, t1))
    return out


def build(prefix, unit, suffix, frac=1.0):
    room = LIMIT - len(prefix) - len(suffix)
    n = max(1, int(room // max(1, len(unit)) * frac))
    return prefix + unit * n + suffix


FRACTIONS = [1.0, 0.5, 0.25, 0.125, 0.0625]


def case_times(case):
    """times at decreasing sizes, stopping at the first size that is fast"""
    prefix, unit, suffix = case
    t_full = timed_parse(build(prefix, unit, suffix))
    if SLOW < t_full < HARD:
        t_full = min(t_full, timed_parse(build(prefix, unit, suffix)))      # measured twice: the smaller time counts
    times = [t_full]
    if t_full <= SLOW:
        return (case, times)
    if known_family(prefix, unit):
        return (case, times)            # a listed finding: no need to measure its growth on every run
    for f in FRACTIONS[1:]:
        t = timed_parse(build(prefix, unit, suffix, f))
        times.append(t)
        if t <= SLOW / 3:
            break
    return (case, times)


def superlinear(times):
    """the full size is slow, and somewhere along the halvings the time more than triples when the size doubles
    (measured where it is above the noise; sizes that hit the hard time-out only give a lower bound)"""
    if times[0] <= SLOW:
        return False
    for a, b in zip(times, times[1:]):
        if a >= 0.3 and a > 3 * max(b, 0.01):
            return True
    return times[-1] > SLOW and len(times) == len(FRACTIONS)


def structural(k):
    return [
        ('lines', '\n'.join(f'T154N-R97W Sec {i % 36 + 1}: NE/4' for i in range(k))),
        ('sections', 'T154N-R97W ' + ', '.join(f'Sec {i % 36 + 1}: NE/4' for i in range(k))),
        ('lots', 'T154N-R97W Sec 14: ' + ', '.join(f'Lot {i + 1}' for i in range(k))),
        ('lot_list', 'T154N-R97W Sec 14: Lots ' + ', '.join(str(i + 1) for i in range(k))),
        ('sec_list', 'T154N-R97W Secs ' + ', '.join(str(i % 36 + 1) for i in range(k)) + ': NE/4'),
        ('aliquots', 'T154N-R97W Sec 14: ' + ' '.join('NE/4' for i in range(k))),
        ('twprge_only', ' '.join('T154N-R97W' for i in range(k))),
        # a plain comma-separated list of k sections followed by a Twp/Rge (S_desc_TR), or followed by another Twp/Rge group
        ('sec_list_then_tr', 'Sections ' + ', '.join(str(i % 36 + 1) for i in range(k)) + ' T154N-R97W: NE/4'),
        ('trs_sec_list_then_tr', 'T154N-R97W Sections ' + ', '.join(str(i % 36 + 1) for i in range(k)) + ': NE/4, T155N-R97W Sec 1: NE/4'),
        ('lot_list_then_text', 'T154N-R97W Sec 14: Lots ' + ', '.join(str(i + 1) for i in range(k)) + ' x'),
        ('sec_and_list', 'T154N-R97W Sec ' + ' and '.join(str(i % 36 + 1) for i in range(k)) + ' NE/4'),
        # elided ranges multiply: one tract per section, each with every lot
        ('range_product', f'T154N-R97W Sec 1-{min(999, 42 * k)}: Lots 1-{min(999, 42 * k)}'),
        ('lot_range', f'T154N-R97W Sec 14: Lots 1 - {"9" * max(1, k // 3)}'),
        ('sec_range', f'T154N-R97W Secs 1 - {"9" * max(1, k // 3)}: NE/4'),
    ]


STRUCTURAL_KNOWN = {'range_product': 'C16-range-product'}
STRUCTURAL_CONFIGS = ['ocr_scrub', 'segment', 'clean_qq', 'sec_within', 'sec_colon_cautious', 'ocr_scrub,segment,clean_qq', 's,e']


def units_from_patterns(rng):
    meta = tier1.load_meta()
    import re._parser as sre_parse
    from re._constants import LITERAL, IN, RANGE, CATEGORY
    out = set()

    def walk(items):
        for op, av in items:
            if op == LITERAL:
                out.add(chr(av))
            elif op == IN:
                for it in av:
                    if it[0] == LITERAL:
                        out.add(chr(it[1]))
                    elif it[0] == RANGE:
                        out.add(chr(it[1][0]))
            elif isinstance(av, (tuple, list)):
                for x in av:
                    if isinstance(x, sre_parse.SubPattern):
                        walk(x)
                    elif isinstance(x, (list, tuple)):
                        for y in x:
                            if isinstance(y, sre_parse.SubPattern):
                                walk(y)
    for name in meta:
        try:
            walk(sre_parse.parse(meta[name]['pattern'], meta[name]['flags']))
        except Exception:  # noqa
            pass
    return sorted(out)


def words_from_patterns():
    """maximal runs of two or more literal characters in the regenerated patterns ('thru', 'and', 'of', 'the', …): whatever
    connective a pattern knows — also one added tomorrow — is pumped between list items, with and without a period"""
    meta = tier1.load_meta()
    import re._parser as sre_parse
    from re._constants import LITERAL
    out = set()

    def walk(items):
        run = ''
        for op, av in items:
            if op == LITERAL:
                run += chr(av)
                continue
            if len(run) >= 2:
                out.add(run)
            run = ''
            if isinstance(av, (tuple, list)):
                for x in av:
                    if isinstance(x, sre_parse.SubPattern):
                        walk(x)
                    elif isinstance(x, (list, tuple)):
                        for y in x:
                            if isinstance(y, sre_parse.SubPattern):
                                walk(y)
        if len(run) >= 2:
            out.add(run)
    for name in meta:
        try:
            walk(sre_parse.parse(meta[name]['pattern'], meta[name]['flags']))
        except Exception:  # noqa
            pass
    return sorted(w for w in out if w.strip() and not w.isdigit())


PAIR_TOKENS = ['of', 'NE', 'SW', 'N½', 'NE¼', 'N', ' ', '\n', '\t', ',', '.', ';', ':', '-', '&', 'and', 'thru', 'to', 'the', 't', 'o',
               'f', '1', '2', 'Lot', 'Sec', 'L', 'T', 'R', 'W', 'P', 'M', '(', ')', '/', '4', 'e', 's', 'h', 'i', 'a', 'r']


KNOWN_EXEMPLARS = [('T154N-R97W Sec 14: NE/4', ' \n', 'x'), ('T154N-R97W', ' ', ' P.M.')]


def run(ctx):
    rep = ctx.rep
    rng = Rng(ctx.seed, 16)
    atoms = units_from_patterns(rng)
    units = list(dict.fromkeys(WORDS + atoms + [a + b for a in PAIR_TOKENS for b in PAIR_TOKENS if a != b]))
    cases = []
    known_cases = {}
    for p in PREFIXES:
        for u in units:
            # a suffix that is not white space / punctuation makes failing look-aheads backtrack
            sfx = SUFFIXES + ['x'] if ctx.thorough else ['', 'x'] if len(u) > 1 else [SUFFIXES[0], rng.choice(SUFFIXES[1:] + ['x'])]
            fam = known_family(p, u)
            for s in sfx:
                if fam:
                    known_cases.setdefault(fam, []).append((p, u, s))
                else:
                    cases.append((p, u, s))
    # listed findings: exhibit each by its recorded exemplar and a few random members per run; the whole family is
    # not re-measured every time (each member costs the hard time-out)
    for fam, lst in sorted(known_cases.items()):
        ex = [c for c in KNOWN_EXEMPLARS if known_family(c[0], c[1]) == fam]
        k = len(lst) if ctx.thorough and len(lst) <= 400 else 6
        pick = lst if k >= len(lst) else [lst[rng.below(len(lst))] for _ in range(k)]
        cases.extend(dict.fromkeys(ex + pick))
    # numbered list items with every pair of separator characters (sections and lots), followed by what makes the list
    # pattern fail late: another Twp/Rge, plain text, nothing
    seps = ['-', '.', ',', ' ', '–', ';', '&', ':']
    item_units = []
    for a in seps:
        for b in seps:
            item_units += [f'1{a}{b}2, ', f'3{a}{b}', f', Sec{a}{b}4', f'{a} 5{b}']
    item_units += ['Sec. 1, ', 'Sec 1, ', 'Section 1 ', '1 and 2, ', '1 thru. 2; ', 'Lot 1, ', 'L1,', 'Lot. 1 & ', '1 to 2 ', '§ 1, ']
    # every literal word of the regenerated patterns as a connective / qualifier inside a list of ranges and of singles
    pattern_words = words_from_patterns()
    rep.extra['pattern_words'] = len(pattern_words)
    for w in pattern_words:
        for ww in (w, w + '.'):
            item_units += [f'1-2 {ww}, ', f'3 {ww} 4, ']
    for u in dict.fromkeys(item_units):
        for pfx, sfxs in (('T154N-R97W Sec ', [' T155N-R97W Sec 1: NE/4', ': NE/4', ' x']), ('Sections ', [' T154N-R97W: NE/4', ' x']),
                          ('T154N-R97W Sec 14: Lots ', [' x', ' NE/4'])):
            for sfx in (sfxs if ctx.thorough else sfxs[:2]):
                if not known_family(pfx, u):
                    cases.append((pfx, u, sfx))
    rep.extra['pumping_families'] = len(cases)
    rep.extra['units'] = len(units)
    with mp.Pool(14) as pool:
        results = pool.map(case_times, cases, chunksize=8)
    slow = []
    for case, times in results:
        rep.count()
        rep.nontrivial(case)
        if times[0] <= SLOW:
            continue
        known = known_family(case[0], case[1])
        sl = bool(known) or superlinear(times)
        slow.append({'prefix': case[0], 'unit': case[1], 'suffix': case[2], 'seconds_by_halving': [round(t, 3) for t in times],
                     'superlinear': sl})
        if sl:
            text = build(*case)
            rep.violation('failing-input', {'text': text, 'length': len(text), 'family': list(case),
                                            'seconds_by_halving_the_repetitions': [round(t, 3) for t in times],
                                            'why': 'parsing time exceeds 2 s and grows super-linearly'},
                          tag=known)
    rep.extra['slow_cases'] = slow[:40]
    rep.sample({'prefix': cases[1][0], 'unit': cases[1][1], 'suffix': cases[1][2]}, cap=2)
    # an ordinary description stays fast in a process that has parsed a batch of other descriptions before (all settings in turn)
    with mp.Pool(1) as pool:
        aged = pool.apply(aged_process_times, (60 if not ctx.thorough else 150,))
    for text, t_fresh, t_aged in aged:
        rep.count()
        rep.nontrivial(('aged', text))
        if t_aged > SLOW and t_aged > 3 * max(t_fresh, 0.05):
            rep.violation('failing-input', {'text': text, 'length': len(text), 'seconds_in_a_fresh_process': round(t_fresh, 3),
                                            'seconds_after_a_batch_of_parses': round(t_aged, 3),
                                            'why': 'parsing time of an ordinary description depends on what the process parsed before '
                                                   '(exceeds 2 s after a batch of earlier parses)'})
    rep.extra['aged_process'] = [[t[:60], round(a, 3), round(b, 3)] for t, a, b in aged]
    # structural repetition
    for k in ([6, 12, 24] if not ctx.thorough else [6, 12, 24, 36, 48]):
        for name, text in structural(k):
            if len(text) > LIMIT + 60:
                continue
            t = timed_parse(text, hard=12.0)
            rep.count()
            rep.nontrivial((name, k))
            if t > SLOW:
                t2 = timed_parse(dict(structural(max(2, k // 2)))[name], hard=12.0)
                if t > 3 * max(t2, 1e-3):
                    rep.violation('failing-input', {'text': text[:400], 'length': len(text), 'family': ['structural', name, k], 'seconds': round(t, 2),
                                                    'seconds_at_half_size': round(t2, 2),
                                                    'why': 'structural repetition: time exceeds 2 s and grows super-linearly'},
                                  tag=STRUCTURAL_KNOWN.get(name))
    rep.sample({'structural': 'k lines each repeating a Twp/Rge; k sections; k lots'}, cap=3)
    # the same structural families under every non-default setting that changes what the preprocessor / parser does
    # ("whatever it contains" is not limited to the default configuration)
    for cfg in STRUCTURAL_CONFIGS:
        for k in ([12, 24] if not ctx.thorough else [6, 12, 24, 36]):
            for name, text in structural(k):
                if len(text) > LIMIT + 60 or name in STRUCTURAL_KNOWN:
                    continue
                with mp.Pool(1) as pool1:
                    t = pool1.apply(timed_parse, (text, 12.0, cfg))
                rep.count()
                rep.nontrivial((name, k, cfg))
                if t > SLOW:
                    with mp.Pool(1) as pool1:
                        t2 = pool1.apply(timed_parse, (dict(structural(max(2, k // 2)))[name], 12.0, cfg))
                    if t > 3 * max(t2, 1e-3):
                        rep.violation('failing-input', {'text': text[:400], 'length': len(text), 'config': cfg, 'family': ['structural', name, k],
                                                        'seconds': round(t, 2), 'seconds_at_half_size': round(t2, 2),
                                                        'why': f'structural repetition under config {cfg!r}: time exceeds 2 s and grows super-linearly'})
    # the model's cost analysis is tied to the regenerated patterns by the build; the driver reports which patterns are Safe
    if ctx.driver is not None:
        out = ctx.driver.run(['rx.safe'])
        try:
            rep.extra['safe_patterns'] = json.loads(out[0])
        except Exception:  # noqa
            rep.extra['safe_patterns'] = out[0][:300]


def replay(payload):
    p = payload.get('replay', {})
    if 'text' in p:
        return timed_parse(p['text'], config=p.get('config')) <= SLOW
    return True
