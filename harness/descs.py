"""
Description families shared by the PLSSDesc-level properties (C01, C03, C04, C09, C10, C11, C20)
and the correspondence items for `desc.init`.
"""
import gen
import impl

MC = ('n', 'w')


def structured(r, max_tr=3, max_sg=3, layout=None, colons=True, canonical_tr=False):
    """(text, layout, abstract groups)"""
    g = gen.rand_abs_desc(r, max_tr, max_sg)
    lay = layout or r.choice(gen.LAYOUTS)
    return gen.render_desc(g, lay, r, canonical_tr=canonical_tr, colons=colons), lay, g


PM_WORDS = ['5th P.M.', 'of the 5th P.M.', '6th Principal Meridian', 'P.M.', 'of the Fifth Principal Meridian', 'PM', 'W.M.', '5th p.m.',
            'Principal Meridian']


def meridian_text(r):
    """one or several Twp/Rges (the same one twice, different ones, with and without a direction missing) shortly before a
    principal-meridian designation: the P.M. scrubber rewrites the whole stretch, so a Twp/Rge found before preprocessing may be
    gone afterwards"""
    trs = []
    for _ in range(r.range(1, 3)):
        t, ns, rg, ew = r.choice([154, 7, 1]), r.choice('NS'), r.choice([97, 96, 3]), r.choice('EW')
        trs.append(r.choice(gen.twprge_spellings(t, ns, rg, ew) + [f'T{t}-R{rg}{ew}', f'T{t}{ns}-R{rg}']))
    if r.chance(1, 3):
        trs.append(trs[0])
    body = r.choice([' and ', ', ', ' & ', ' ', '; ']).join(trs)
    return (r.choice(['', 'Lands in ', 'Sec 3: N/2, ']) + body + r.choice([', ', ' ', ' of the ', ', all in ', '\n']) + r.choice(PM_WORDS)
            + r.choice([', Sec 14: NE/4', ' Sec 14: NE/4, Sec 15: W/2', '', ': Section 5', ', NE/4 of Sec 9']))


def malformed(r):
    if r.chance(1, 12):
        return meridian_text(r)
    if r.chance(1, 10):
        # leftovers: a Twp/Rge or a section reference that nothing follows / precedes (unused_twprge / unused_sec flags)
        t, _, _ = structured(r, 2, 2)
        tr = r.choice(gen.twprge_spellings(r.choice([155, 2, 30]), r.choice('NS'), r.choice([96, 4]), r.choice('EW')))
        sec = r.choice(['Sec 5', 'Section 30', 'Secs 1 - 3', '§ 9'])
        sep = r.choice([', ', '\n', '; ', ' '])
        return r.choice([t + sep + tr, tr + sep + t, t + sep + sec, sec + sep + t, t + sep + tr + sep + sec, tr + sep + tr + sep + t])
    k = r.below(8)
    if k == 0:
        return gen.token_soup(r)
    if k == 1:
        return ''
    if k == 2:
        return r.choice([' ', '\n', '\t \n', '.', ',;:', 'T', 'Sec', 'Section', 'T154N', 'R97W', '14', 'NE/4', 'Sec 14',
                         'T154N-R97W', 'Section of land', 'T154N-R97W Section of land', 'Sec 14: NE/4', 'of', ' of', 'all of'])
    t, _, _ = structured(r)
    if k == 3:
        return gen.damage(t, r)
    if k == 4:
        return gen.damage(gen.damage(t, r), r)
    if k == 5:
        i = r.below(len(t) + 1)
        return t[:i]
    if k == 6:
        i = r.below(len(t) + 1)
        return t[:i] + r.choice(gen.ODD if hasattr(gen, 'ODD') else ['ſ', 'İ', '٣', '½', '§', '\x1c', '　']) + t[i:]
    toks = t.split(' ')
    r.shuffle(toks)
    return ' '.join(toks)


def any_text(r):
    if r.chance(1, 2):
        return structured(r)[0]
    return malformed(r)


def valid_config(r):
    return gen.rand_config(r)


def corr_item(text, layout=None, cfg=None, pq=None, src=None, wait=None, kw=None, mc=MC):
    return (impl.line_desc_init(mc, text, layout, cfg, pq, src, wait, kw),
            impl.impl_desc_init(mc, text, layout, cfg, pq, src, wait, kw),
            {'op': 'PLSSDesc', 'text': text, 'layout': layout, 'config': cfg, 'parse_qq': pq, 'kw': kw, 'mc': list(mc)})


def tract_corr_item(text, trs=None, cfg=None, pq=None, kw=None):
    return (impl.line_tract_init(text, trs, cfg, pq, kw), impl.impl_tract_init(text, trs, cfg, pq, kw),
            {'op': 'Tract', 'text': text, 'trs': trs, 'config': cfg, 'parse_qq': pq, 'kw': kw})
