"""
Operation histories (C13, C14, C15): a small op language interpreted on the real library (one fresh interpreter state
per history as far as the library allows: cache cleared, MasterConfig and _USE_CACHE restored) and, line by line, by
the Lean driver's stateful `w.*` ops.
"""
import impl
from common import enc_text, enc_bool, req, render, render_exc

import pytrs
from pytrs import TRS
from pytrs.parser.config.master_config import MasterConfig


def enc_opt_kv(v):
    return impl.enc_kv(v)


def op_line(op):
    k = op[0]
    if k == 'mc':
        return req('w.mc', enc_text(op[1]), enc_text(op[2]))
    if k == 'cache':
        return req('w.cache', op[1])
    if k == 'warm':
        return req('w.warm', enc_text(op[1]))
    if k == 'todict':
        return req('w.todict', enc_text(op[1]))
    if k == 'todict_obj':
        return req('w.todict_obj', enc_text(op[1]))
    if k == 'desc':
        _, i, text, layout, cfg, pq, src, wait = op
        return req('w.desc', str(i), enc_text(text), enc_text(layout), impl.enc_cfg(cfg), impl.enc_kv(pq), enc_text(src), impl.enc_kv(wait))
    if k == 'desc.parse':
        return req('w.desc.parse', str(op[1]), enc_bool(op[2]), impl.enc_kwargs(op[3]) if op[3] else '')
    if k == 'desc.parse_tracts':
        return req('w.desc.parse_tracts', str(op[1]), enc_text(op[2]), impl.enc_kwargs(op[3]) if op[3] else '')
    if k == 'desc.preprocess':
        return req('w.desc.preprocess', str(op[1]), enc_bool(op[2]))
    if k == 'desc.config':
        return req('w.desc.config', str(op[1]), impl.enc_cfg(op[2]))
    if k == 'desc.sort':
        return req('w.desc.sort', str(op[1]), enc_text(op[2]), enc_bool(op[3]))
    if k == 'tract':
        _, i, text, trs, cfg, pq = op
        return req('w.tract', str(i), enc_text(text), enc_text(trs), impl.enc_cfg(cfg), impl.enc_kv(pq))
    if k == 'tract.parse':
        return req('w.tract.parse', str(op[1]), enc_bool(op[2]), impl.enc_kwargs(op[3]) if op[3] else '')
    if k == 'tract.preprocess':
        return req('w.tract.preprocess', str(op[1]), impl.enc_kv(op[2]), enc_bool(op[3]))
    if k == 'tract.config':
        return req('w.tract.config', str(op[1]), impl.enc_cfg(op[2]))
    if k == 'find_twprge':
        return req('w.find_twprge', enc_text(op[1]), enc_text(op[2]), enc_text(op[3]), enc_bool(op[4]), enc_bool(op[5]))
    if k == 'from_twprgesec':
        return req('w.from_twprgesec', impl.enc_arg(op[1]), impl.enc_arg(op[2]), impl.enc_arg(op[3]), enc_text(op[4]), enc_text(op[5]))
    raise ValueError(k)


class PyWorld:
    """the real library, reset to a known process state"""

    def __init__(self):
        self.saved = (MasterConfig.default_ns, MasterConfig.default_ew, TRS._USE_CACHE)
        MasterConfig.default_ns, MasterConfig.default_ew = 'n', 'w'
        TRS._USE_CACHE = True
        TRS._clear_cache()
        self.descs = {}
        self.tracts = {}

    def close(self):
        MasterConfig.default_ns, MasterConfig.default_ew, TRS._USE_CACHE = self.saved
        TRS._clear_cache()

    def do(self, op):
        try:
            return self._do(op)
        except Exception as e:  # noqa
            return render_exc(e)

    def _do(self, op):
        k = op[0]
        if k == 'mc':
            MasterConfig.default_ns, MasterConfig.default_ew = op[1], op[2]
            return 'N'
        if k == 'cache':
            if op[1] == 'clear':
                TRS._clear_cache()
            else:
                TRS._USE_CACHE = op[1] == 'on'
            return 'N'
        if k == 'warm':
            t = TRS(op[1])
            return render({a: getattr(t, a) for a in impl.TRS_KEYS})
        if k == 'todict':
            d = pytrs.trs_to_dict(op[1])
            out = render({a: d[a] for a in impl.TRS_KEYS})
            # the caller scribbles over the returned dict
            for a in list(d):
                d[a] = 'MUTATED'
            d['extra'] = 1
            return out
        if k == 'todict_obj':
            d = pytrs.trs_to_dict(TRS(op[1]))
            out = render({a: d[a] for a in impl.TRS_KEYS})
            for a in list(d):
                d[a] = 'MUTATED'
            return out
        if k == 'from_twprgesec':
            t = TRS.from_twprgesec(op[1], op[2], op[3], default_ns=op[4], default_ew=op[5])
            return render({a: getattr(t, a) for a in impl.TRS_KEYS})
        if k == 'desc':
            _, i, text, layout, cfg, pq, src, wait = op
            d = pytrs.PLSSDesc(text, layout=layout, config=cfg, parse_qq=pq, source=src, wait_to_parse=wait)
            self.descs[i] = d
            return render(impl.desc_snap(d))
        if k == 'desc.parse':
            d = self.descs.get(op[1])
            if d is None:
                return 'N'
            r = d.parse(commit=op[2], **(op[3] or {}))
            return render((impl.desc_snap(d), [impl.tract_snap(t) for t in r]))
        if k == 'desc.parse_tracts':
            d = self.descs.get(op[1])
            if d is None:
                return 'N'
            d.parse_tracts(config=op[2], **(op[3] or {}))
            return render(impl.desc_snap(d))
        if k == 'desc.preprocess':
            d = self.descs.get(op[1])
            if d is None:
                return 'N'
            s = d.preprocess(commit=op[2])
            return render((impl.desc_snap(d), s))
        if k == 'desc.config':
            d = self.descs.get(op[1])
            if d is None:
                return 'N'
            d.config = op[2]
            return render(impl.desc_snap(d))
        if k == 'desc.sort':
            d = self.descs.get(op[1])
            if d is None:
                return 'N'
            d.sort_tracts(op[2], op[3])
            return render(impl.desc_snap(d))
        if k == 'tract':
            _, i, text, trs, cfg, pq = op
            t = pytrs.Tract(text, trs=trs, config=cfg, parse_qq=pq)
            self.tracts[i] = t
            return render(impl.tract_snap(t))
        if k == 'tract.parse':
            t = self.tracts.get(op[1])
            if t is None:
                return 'N'
            r = t.parse(commit=op[2], **(op[3] or {}))
            return render((impl.tract_snap(t), r))
        if k == 'tract.preprocess':
            t = self.tracts.get(op[1])
            if t is None:
                return 'N'
            s = t.preprocess(clean_qq=op[2], commit=op[3])
            return render((impl.tract_snap(t), s))
        if k == 'tract.config':
            t = self.tracts.get(op[1])
            if t is None:
                return 'N'
            t.config = op[2]
            return render(impl.tract_snap(t))
        if k == 'find_twprge':
            return render(pytrs.find_twprge(op[1], op[2], op[3], op[4], op[5]))
        raise ValueError(k)


def run_history(ops):
    """outputs of the real library for one history"""
    w = PyWorld()
    try:
        return [w.do(op) for op in ops]
    finally:
        w.close()


def history_lines(ops):
    return [req('w.reset')] + [op_line(op) for op in ops]


def compare_histories(ctx, histories):
    """histories: list of (ops, python outputs).  Adds disagreements to ctx.corr_bad."""
    from common import run_groups
    for ops, _ in histories:
        ctx.rep.count(len(ops))
    if ctx.driver is None or not histories:
        return
    groups = [history_lines(ops) for ops, _ in histories]
    outs = run_groups(ctx.driver, groups)
    for (ops, py), out in zip(histories, outs):
        model = out[1:]
        for k, (a, b) in enumerate(zip(py, model)):
            if a != b:
                i = next((j for j, (x, y) in enumerate(zip(a, b)) if x != y), min(len(a), len(b)))
                ctx.corr_bad.append({'case': {'history': [list(map(str, o)) for o in ops[:k + 1]], 'step': k},
                                     'implementation': a[max(0, i - 300):i + 300], 'model': b[max(0, i - 300):i + 300]})
                break
