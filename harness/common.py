"""
Shared machinery of the pyTRS verification harness:
  * counter-based PRNG derived from VERIF_SEED
  * the line protocol to the Lean driver and the canonical rendering of Python values
  * build step (regenerate Gen/ from /repo, lake build, axiom audit)
  * the reporting protocol (VIOLATION / KNOWN-FINDING / evidence)
"""
import fcntl
import hashlib
import json
import os
import re
import subprocess
import sys
import time

VERIF = os.path.dirname(os.path.dirname(os.path.abspath(__file__)))
REPO = os.environ.get('PYTRS_REPO', '/repo')
LEAN_DIR = os.path.join(VERIF, 'lean')
DRIVER = os.path.join(LEAN_DIR, '.lake', 'build', 'bin', 'driver')
PY = '/venv/bin/python'
EVIDENCE_DIR = os.path.join(VERIF, 'evidence')
REPLAY_DIR = os.path.join(VERIF, 'replays')
ALLOWED_AXIOMS = {'propext', 'Classical.choice', 'Quot.sound'}

os.environ.setdefault('PYTRS_VERIF', '1')
if REPO not in sys.path:
    sys.path.insert(0, REPO)


class InfraError(Exception):
    """tool-chain trouble: exit 2, never a VIOLATION"""


# ----------------------------------------------------------------------------- PRNG

class Rng:
    """splitmix64 stream; every random choice of a run derives from one seed."""

    def __init__(self, seed, stream=0):
        self.s = (int(seed) * 0x9E3779B97F4A7C15 + stream * 0xBF58476D1CE4E5B9 + 0x1234567) & 0xFFFFFFFFFFFFFFFF

    def next(self):
        self.s = (self.s + 0x9E3779B97F4A7C15) & 0xFFFFFFFFFFFFFFFF
        z = self.s
        z = ((z ^ (z >> 30)) * 0xBF58476D1CE4E5B9) & 0xFFFFFFFFFFFFFFFF
        z = ((z ^ (z >> 27)) * 0x94D049BB133111EB) & 0xFFFFFFFFFFFFFFFF
        return z ^ (z >> 31)

    def below(self, n):
        return self.next() % n if n > 0 else 0

    def range(self, a, b):
        return a + self.below(b - a + 1)

    def choice(self, seq):
        return seq[self.below(len(seq))]

    def chance(self, num, den):
        return self.below(den) < num

    def shuffle(self, lst):
        for i in range(len(lst) - 1, 0, -1):
            j = self.below(i + 1)
            lst[i], lst[j] = lst[j], lst[i]
        return lst

    def fork(self, k):
        return Rng(self.next(), k)


def seed_from_env():
    try:
        return int(os.environ.get('VERIF_SEED', '0'))
    except ValueError:
        return 0


# ----------------------------------------------------------------------------- protocol

def enc_text(s):
    if s is None:
        return '~'
    return '.'.join('%x' % ord(c) for c in s)


def enc_bool(b):
    return '1' if b else '0'


def enc_opt_int(n):
    return '~' if n is None else str(n)


def esc_str(s):
    out = []
    for c in s:
        n = ord(c)
        if 32 <= n < 127 and c not in '"\\':
            out.append(c)
        else:
            out.append('\\u{%x}' % n)
    return ''.join(out)


def render(v):
    """canonical, type-tagged rendering; must agree with PyVal.render in Lean"""
    if v is None:
        return 'N'
    if v is True:
        return 'T'
    if v is False:
        return 'F'
    if isinstance(v, int):
        return 'i%d' % v
    if isinstance(v, str):
        return 's"' + esc_str(v) + '"'
    if isinstance(v, tuple):
        return '(' + ','.join(render(x) for x in v) + ')'
    if isinstance(v, list):
        return '[' + ','.join(render(x) for x in v) + ']'
    if isinstance(v, dict):
        return '{' + ','.join(render(k) + ':' + render(x) for k, x in v.items()) + '}'
    return '<' + type(v).__name__ + '>'


def render_exc(e):
    return '!' + type(e).__name__


class Driver:
    """Batch interface to the compiled Lean driver (one request per line)."""

    def __init__(self):
        if not os.path.exists(DRIVER):
            raise InfraError('driver executable missing: run setup (lake build)')

    def run(self, lines, timeout=3600):
        if not lines:
            return []
        data = ('\n'.join(lines) + '\n').encode('ascii')
        try:
            p = subprocess.run([DRIVER], input=data, capture_output=True, timeout=timeout)
        except subprocess.TimeoutExpired:
            raise InfraError('driver timed out')
        if p.returncode != 0:
            raise InfraError('driver failed: ' + p.stderr.decode('utf-8', 'replace')[:500])
        out = p.stdout.decode('ascii').split('\n')
        if out and out[-1] == '':
            out.pop()
        if len(out) != len(lines):
            raise InfraError(f'driver returned {len(out)} lines for {len(lines)} requests')
        return out

    def run_parallel(self, lines, jobs=None, timeout=5400):
        jobs = jobs or min(16, os.cpu_count() or 4)
        if len(lines) < 400 or jobs <= 1:
            return self.run(lines, timeout)
        from concurrent.futures import ThreadPoolExecutor
        n = len(lines)
        step = (n + jobs - 1) // jobs
        chunks = [lines[i:i + step] for i in range(0, n, step)]
        with ThreadPoolExecutor(max_workers=jobs) as ex:
            res = list(ex.map(lambda c: self.run(c, timeout), chunks))
        out = []
        for r in res:
            out.extend(r)
        return out


def run_groups(driver, groups, jobs=None, timeout=5400):
    """groups: list of lists of request lines that must stay together (stateful histories).  Returns per-group outputs."""
    jobs = jobs or min(16, os.cpu_count() or 4)
    if not groups:
        return []
    buckets = [[] for _ in range(min(jobs, len(groups)))]
    for i, g in enumerate(groups):
        buckets[i % len(buckets)].append(i)
    from concurrent.futures import ThreadPoolExecutor

    def work(idxs):
        lines = []
        for i in idxs:
            lines.extend(groups[i])
        out = driver.run(lines, timeout)
        res = {}
        k = 0
        for i in idxs:
            res[i] = out[k:k + len(groups[i])]
            k += len(groups[i])
        return res
    merged = {}
    with ThreadPoolExecutor(max_workers=len(buckets)) as ex:
        for r in ex.map(work, buckets):
            merged.update(r)
    return [merged[i] for i in range(len(groups))]


def req(op, *fields):
    return '\t'.join([op] + list(fields))


# ----------------------------------------------------------------------------- build

def repo_source_hash():
    h = hashlib.sha256()
    root = os.path.join(REPO, 'pytrs')
    for d, _, files in sorted(os.walk(root)):
        for f in sorted(files):
            if f.endswith('.py'):
                p = os.path.join(d, f)
                h.update(p.encode())
                with open(p, 'rb') as fh:
                    h.update(fh.read())
    with open(os.path.join(VERIF, 'tools', 'translate.py'), 'rb') as fh:
        h.update(fh.read())
    return h.hexdigest()


class BuildResult:
    def __init__(self):
        self.gen_changed = []
        self.gen_ok = True
        self.gen_error = ''
        self.build_ok = True
        self.build_log = ''
        self.failed_modules = []


def regenerate_and_build(targets=('PyTRS', 'driver')):
    """Regenerate Gen/ from /repo and build.  Serialised with a file lock."""
    os.makedirs(os.path.join(LEAN_DIR, '.lake'), exist_ok=True)
    res = BuildResult()
    lock = open(os.path.join(LEAN_DIR, '.lake', 'verif.lock'), 'w')
    fcntl.flock(lock, fcntl.LOCK_EX)
    try:
        stamp = os.path.join(LEAN_DIR, '.lake', 'gen.stamp')
        cur = repo_source_hash()
        old = open(stamp).read().strip() if os.path.exists(stamp) else ''
        if cur != old or not os.path.exists(os.path.join(LEAN_DIR, 'PyTRS', 'Gen', 'Patterns.lean')):
            p = subprocess.run([PY, os.path.join(VERIF, 'tools', 'translate.py')], capture_output=True, text=True,
                               env=dict(os.environ, PYTRS_REPO=REPO))
            if p.returncode != 0:
                res.gen_ok = False
                res.gen_error = (p.stderr or p.stdout)[-2000:]
                return res
            try:
                res.gen_changed = json.loads(p.stdout.strip().split('\n')[-1]).get('changed', [])
            except Exception:
                pass
            with open(stamp, 'w') as f:
                f.write(cur)
        # definitions the translator could not re-derive from the source and carried over from the committed reference
        try:
            fb = json.load(open(os.path.join(LEAN_DIR, 'PyTRS', 'Gen', 'fallback.json')))
            res.gen_fallback, res.gen_notes = fb.get('fallback', []), fb.get('notes', [])
        except Exception:  # noqa
            res.gen_fallback, res.gen_notes = [], []
        # what differs from the committed reference copy of Gen/
        try:
            d = subprocess.run(['git', '-C', VERIF, 'diff', '--stat', '--', 'lean/PyTRS/Gen/Patterns.lean',
                                'lean/PyTRS/Gen/Tables.lean'], capture_output=True, text=True)
            res.gen_diff = d.stdout.strip()
        except Exception:
            res.gen_diff = ''
        p = subprocess.run(['lake', 'build'] + list(targets), cwd=LEAN_DIR, capture_output=True, text=True)
        res.build_log = (p.stdout + p.stderr)[-6000:]
        if p.returncode != 0:
            res.build_ok = False
            res.failed_modules = re.findall(r'^- (\S+)$', p.stdout + p.stderr, re.M)
        return res
    finally:
        fcntl.flock(lock, fcntl.LOCK_UN)
        lock.close()


def fingerprints_changed():
    """names of mirrored python functions whose AST hash differs from the committed reference"""
    cur_p = os.path.join(LEAN_DIR, 'PyTRS', 'Gen', 'fingerprints.json')
    try:
        cur = json.load(open(cur_p))
        ref = subprocess.run(['git', '-C', VERIF, 'show', 'HEAD:lean/PyTRS/Gen/fingerprints.json'],
                             capture_output=True, text=True)
        if ref.returncode != 0:
            return []
        ref = json.loads(ref.stdout)
    except Exception:
        return []
    return sorted(k for k in set(cur) | set(ref) if cur.get(k) != ref.get(k))


FORBIDDEN = re.compile(r'\b(sorry|admit|native_decide|bv_decide|implemented_by|unsafe)\b|^\s*axiom\s|maxHeartbeats\s+0\b', re.M)


def strip_lean_comments(src):
    src = re.sub(r'/-.*?-/', '', src, flags=re.S)
    src = re.sub(r'--.*', '', src)
    return src


def audit_sources():
    """grep the hand-written Lean sources for forbidden constructs (comments ignored)"""
    bad = []
    for d, _, files in os.walk(os.path.join(LEAN_DIR, 'PyTRS')):
        for f in files:
            if f.endswith('.lean'):
                p = os.path.join(d, f)
                src = strip_lean_comments(open(p, encoding='utf-8').read())
                src = re.sub(r'"(\\.|[^"\\])*"', '""', src)
                for m in FORBIDDEN.finditer(src):
                    bad.append((os.path.relpath(p, LEAN_DIR), m.group(0).strip()))
    return bad


def theorem_modules(prop_id):
    """(module, [theorem names]) for every Lean file under Props/ and Lemmas/ that states theorems named `<id>_…`.
    Props/<id>.lean is always included (it must exist)."""
    out = []
    for sub in ('Props', 'Lemmas'):
        d = os.path.join(LEAN_DIR, 'PyTRS', sub)
        if not os.path.isdir(d):
            continue
        for f in sorted(os.listdir(d)):
            if not f.endswith('.lean'):
                continue
            src = strip_lean_comments(open(os.path.join(d, f), encoding='utf-8').read())
            names = re.findall(r'^\s*theorem\s+(?:_root_\.PyTRS\.)?(' + re.escape(prop_id) + r'_[A-Za-z0-9_\.\']*)', src, re.M)
            # names are reported relative to the root namespace PyTRS (files open exactly one namespace at the top)
            ns = re.search(r'^namespace\s+PyTRS(?:\.([A-Za-z0-9_\.]+))?\s*$', src, re.M)
            if ns and ns.group(1):
                names = [ns.group(1) + '.' + n for n in names]
            if names or (sub == 'Props' and f == f'{prop_id}.lean'):
                out.append((f'PyTRS.{sub}.{f[:-5]}', names))
    return out


def theorem_names(prop_id):
    return [n for _, ns in theorem_modules(prop_id) for n in ns]


def audit_axioms(prop_id):
    """Build every module stating `<id>_…` theorems and return {theorem: [axioms]}.
    Returns (ok, info); ok False means a proof obligation no longer checks."""
    mods = theorem_modules(prop_id)
    names = [n for _, ns in mods for n in ns]
    modnames = [m for m, _ in mods]
    if not os.path.exists(os.path.join(LEAN_DIR, 'PyTRS', 'Props', f'{prop_id}.lean')):
        return False, {'log': f'PyTRS/Props/{prop_id}.lean is missing', 'theorems': names}
    p = subprocess.run(['lake', 'build'] + modnames, cwd=LEAN_DIR, capture_output=True, text=True)
    if p.returncode != 0:
        return False, {'log': (p.stdout + p.stderr)[-4000:], 'theorems': names}
    audit = os.path.join(LEAN_DIR, '.lake', f'audit_{prop_id}.lean')
    with open(audit, 'w') as f:
        for m in modnames:
            f.write(f'import {m}\n')
        for n in names:
            f.write(f'#print axioms PyTRS.{n}\n')
    p = subprocess.run(['lake', 'env', 'lean', audit], cwd=LEAN_DIR, capture_output=True, text=True)
    out = p.stdout + p.stderr
    if p.returncode != 0:
        return False, {'log': out[-4000:], 'theorems': names}
    axioms = {}
    for m in re.finditer(r"'PyTRS\.(\S+?)' (depends on axioms: \[([^\]]*)\]|does not depend on any axioms)", out):
        axioms[m.group(1)] = [a.strip() for a in (m.group(3) or '').replace('\n', ' ').split(',') if a.strip()]
    missing = [n for n in names if n not in axioms]
    if missing:
        raise InfraError(f'axiom audit did not report on {missing}: {out[-500:]}')
    for n, ax in axioms.items():
        extra = [a for a in ax if a not in ALLOWED_AXIOMS]
        if extra:
            raise InfraError(f'theorem {n} depends on non-standard axioms {extra}')
    return True, {'axioms': axioms, 'theorems': names, 'modules': modnames}


def leanchecker(prop_id):
    """thorough tier: re-check the compiled theorem modules with the toolchain's independent checker"""
    mods = [m for m, _ in theorem_modules(prop_id)]
    p = subprocess.run(['lake', 'env', 'leanchecker'] + mods, cwd=LEAN_DIR, capture_output=True, text=True)
    return p.returncode == 0, {'modules': mods, 'log': (p.stdout + p.stderr)[-1500:]}


# ----------------------------------------------------------------------------- reporting

def load_known_findings():
    p = os.path.join(VERIF, 'known_findings.json')
    if not os.path.exists(p):
        return {'findings': [], 'fixed': []}
    return json.load(open(p))


MAX_FAILING_INPUTS = 12


class StopCheck(BaseException):
    """raised to end the exploration early: enough failing inputs, or the time limit of the tier was reached"""


class CallTimeout(Exception):
    """one call into the library has been running for longer than the per-call limit (a hang is a failing input)"""


class Watchdog:
    """SIGALRM-driven: ends the exploration at the tier's time limit (StopCheck) and interrupts a single library call that
    runs for more than `call_limit` seconds (CallTimeout, raised inside the call so that the oracle wrapper around it records
    the input).  One library call = the outermost stack frame whose code lives under REPO/pytrs."""

    def __init__(self, total_limit, call_limit, period=3.0):
        self.deadline = time.time() + total_limit
        self.call_limit = call_limit
        self.period = period
        self.cur = None          # (frame object, first seen)
        self.root = os.path.join(REPO, 'pytrs')
        self.fired = []

    def start(self):
        import signal
        signal.signal(signal.SIGALRM, self.tick)
        signal.setitimer(signal.ITIMER_REAL, self.period, self.period)

    def stop(self):
        import signal
        signal.setitimer(signal.ITIMER_REAL, 0)

    def tick(self, _sig, frame):
        now = time.time()
        if now > self.deadline:
            raise StopCheck()
        lib = None
        f = frame
        while f is not None:
            if f.f_code.co_filename.startswith(self.root):
                lib = f
            f = f.f_back
        if lib is None:
            self.cur = None
            return
        if self.cur is not None and self.cur[0] is lib:
            if now - self.cur[1] > self.call_limit:
                self.cur = None
                what = f'{lib.f_code.co_name} ({os.path.relpath(lib.f_code.co_filename, REPO)}:{lib.f_lineno})'
                self.fired.append(what)
                raise CallTimeout(f'library call {what} still running after {self.call_limit} s')
        else:
            self.cur = (lib, now)


class Report:
    """Collects what a check run did and turns it into exit code, VIOLATION lines and evidence."""

    def __init__(self, prop_id, tier, seed):
        self.prop_id = prop_id
        self.tier = tier
        self.seed = seed
        self.t0 = time.time()
        self.violations = []         # dicts with 'replay' payload
        self.known_seen = []
        self.coverage = {'evaluations': 0, 'distinct_nontrivial': 0, 'rule': '', 'samples': []}
        self.assumptions = []
        self.extra = {}
        self._distinct = set()
        self.known = [k for k in load_known_findings().get('findings', []) if k.get('property') == prop_id]

    # -- counting
    def count(self, n=1):
        self.coverage['evaluations'] += n

    def nontrivial(self, key):
        self._distinct.add(key if isinstance(key, (str, int, tuple)) else repr(key))

    def sample(self, s, cap=6):
        if len(self.coverage['samples']) < cap:
            self.coverage['samples'].append(s)

    def dist(self, key, sub):
        d = self.extra.setdefault('input_distribution', {}).setdefault(key, {})
        d[str(sub)] = d.get(str(sub), 0) + 1

    # -- findings
    def match_known(self, tag):
        for k in self.known:
            if k.get('tag') == tag:
                return k
        return None

    def violation(self, kind, payload, tag=None, no_input=False):
        """kind: 'failing-input' | 'broken-theorem' | 'broken-correspondence' | 'lexical-contract'"""
        if tag is not None and not no_input:
            k = self.match_known(tag)
            if k is not None:
                if tag not in [x['tag'] for x in self.known_seen]:
                    self.known_seen.append({'tag': tag, 'what': k.get('what', ''), 'example': payload})
                return False
        self.violations.append({'kind': kind, 'payload': payload, 'no_input': no_input, 'tag': tag})
        if sum(1 for v in self.violations if not v['no_input']) >= MAX_FAILING_INPUTS:
            # the property is refuted many times over: stop exploring (a broken tree can make every further call slow)
            raise StopCheck()
        return True

    def finish(self, level='proof'):
        os.makedirs(EVIDENCE_DIR, exist_ok=True)
        self.coverage['distinct_nontrivial'] = len(self._distinct)
        for k in self.known_seen:
            print(f"KNOWN-FINDING: property={self.prop_id} {k['what']}")
        code = 0
        if self.violations:
            os.makedirs(REPLAY_DIR, exist_ok=True)
            # one replay file, first violation is the headline; failing inputs preferred
            self.violations.sort(key=lambda v: v['no_input'])
            head = self.violations[0]
            path = os.path.join(REPLAY_DIR, f"{self.prop_id}-{self.seed}-{int(self.t0)}.json")
            with open(path, 'w') as f:
                json.dump({'property': self.prop_id, 'seed': self.seed, 'tier': self.tier,
                           'kind': head['kind'], 'replay': head['payload'],
                           'others': [v['payload'] for v in self.violations[1:6]]}, f, indent=1, ensure_ascii=False, default=str)
            rel = os.path.relpath(path, VERIF)
            line = f"VIOLATION property={self.prop_id} replay={rel}"
            if all(v['no_input'] for v in self.violations):
                line += ' no-failing-input-found'
            print(line)
            code = 1
        ev = {
            'property_id': self.prop_id,
            'tier': self.tier,
            'seed': self.seed,
            'level': level,
            'coverage': self.coverage,
            'assumptions': self.assumptions,
            'wall_s': round(time.time() - self.t0, 2),
            'violations': len(self.violations),
        }
        ev['coverage'].update(self.extra)
        ev['coverage']['known_findings_seen'] = [k['tag'] for k in self.known_seen]
        with open(os.path.join(EVIDENCE_DIR, f'{self.prop_id}.json'), 'w') as f:
            json.dump(ev, f, indent=1, ensure_ascii=False, default=str)
        return code


TRUSTED_BASE = [
    "Lean 4.33.0 kernel",
    "axioms: subset of {propext, Classical.choice, Quot.sound} (audited per theorem with #print axioms on every run)",
    "tools/translate.py: CPython sre parse tree -> Rx terms; character classes asked of the running re engine",
    "L0 (PyTRS/Rx.lean) = CPython re on the operator subset: validated by differential testing every run",
    "hand-written glue model tied to /repo by the correspondence harness (sampling)",
]


# ----------------------------------------------------------------------------- implementation line coverage (evidence)

class ImplCoverage:
    """Which lines of /repo/pytrs did this check execute?  (sys.monitoring, Python 3.12: each location reports once.)
    Reported in the evidence as {module: [lines hit, executable lines]}: how much of the implementation the generated
    inputs reached — the correspondence and the oracles can only see what the generators exercise."""
    TOOL = 3

    def __init__(self, root=None):
        self.root = root or os.path.join(REPO, 'pytrs')
        self.hits = set()
        self.on = False

    def start(self):
        mon = getattr(sys, 'monitoring', None)
        if mon is None:
            return
        try:
            mon.use_tool_id(self.TOOL, 'verif-cov')
        except ValueError:
            return
        root = self.root

        def on_line(code, line):
            if code.co_filename.startswith(root):
                self.hits.add((code.co_filename, line))
            return mon.DISABLE
        mon.register_callback(self.TOOL, mon.events.LINE, on_line)
        mon.set_events(self.TOOL, mon.events.LINE)
        self.on = True

    def stop(self):
        if not self.on:
            return {}
        mon = sys.monitoring
        mon.set_events(self.TOOL, 0)
        mon.register_callback(self.TOOL, mon.events.LINE, None)
        mon.free_tool_id(self.TOOL)
        self.on = False
        out = {}
        for dirpath, _dirs, files in os.walk(self.root):
            for fn in files:
                if not fn.endswith('.py'):
                    continue
                path = os.path.join(dirpath, fn)
                try:
                    top = compile(open(path, encoding='utf-8').read(), path, 'exec')
                except Exception:  # noqa
                    continue
                lines = set()
                stack = [top]
                while stack:
                    co = stack.pop()
                    if co is not top:          # function / class bodies only: module-level lines run at import time
                        lines.update(l for _s, _e, l in co.co_lines() if l is not None)
                    stack.extend(c for c in co.co_consts if hasattr(c, 'co_lines'))
                if not lines:
                    continue
                hit = len([1 for (f, l) in self.hits if f == path and l in lines])
                out[os.path.relpath(path, self.root)] = [hit, len(lines)]
        return out
