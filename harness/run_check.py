#!/venv/bin/python
"""
./check <property> --tier quick|thorough [--replay file]

Order of work for property P (DESIGN.md §2.4):
  1. regenerate Gen/ from /repo's working tree, lake build (model + driver)
  2. build Props/P.lean, audit axioms and forbidden constructs            -> proof obligations
  3. tier-1 differential of L0 / str primitives against CPython            -> tie of the regenerated layer
  4. P's correspondence (model driver vs real code) on generated inputs    -> tie of the hand-written layer
  5. P's independent oracle on the real code's outputs                     -> failing-input search
Exit 0 = held; exit 1 + VIOLATION line; exit 2 = tool-chain trouble (never a VIOLATION).
"""
import argparse
import importlib
import json
import os
import signal
import sys
import time
import traceback

sys.path.insert(0, os.path.dirname(os.path.abspath(__file__)))
import common  # noqa: E402
from common import InfraError, Report, Driver, TRUSTED_BASE  # noqa: E402


# quick-tier budget multipliers (measured on the unchanged tree: every quick check stays near one minute)
QUICK_SCALE = {'C01': 1, 'C02': 8, 'C03': 2, 'C04': 4, 'C05': 4, 'C06': 10, 'C07': 10, 'C08': 3, 'C09': 2, 'C10': 2,
               'C11': 2, 'C12': 8, 'C13': 4, 'C14': 3, 'C15': 3, 'C16': 1, 'C17': 8, 'C18': 6, 'C19': 8, 'C20': 1.5}


class Ctx:
    def __init__(self, rep, tier, seed, driver, changed):
        self.rep = rep
        self.tier = tier
        self.seed = seed
        self.driver = driver          # None when the model could not be built
        self.changed = changed        # fingerprints of mirrored python functions that differ from the reference
        self.thorough = tier == 'thorough'
        self.scale = float(os.environ.get('VERIF_QUICK_SCALE', QUICK_SCALE.get(rep.prop_id, 1)))
        self.corr_bad = []            # model/implementation disagreements
        self.replay = None

    def budget(self, quick, thorough):
        if self.thorough:
            return thorough
        # the quick tier is scaled per property so that every quick check explores for roughly a minute
        # (the base figures are the ones the generators were calibrated with; VERIF_QUICK_SCALE overrides)
        n = int(quick * self.scale)
        if self.changed:
            n = n * 3
        return max(1, min(thorough, n))

    def compare(self, items):
        """items: list of (line, impl_rendered, description). Runs the driver; records disagreements."""
        if self.driver is None or not items:
            for _ in items:
                self.rep.count()
            return []
        got = self.driver.run_parallel([it[0] for it in items])
        bad = []
        for (line, exp, desc), g in zip(items, got):
            self.rep.count()
            if exp != g:
                bad.append({'case': desc, 'implementation': exp[:2000], 'model': g[:2000]})
        self.corr_bad.extend(bad)
        return bad


def main():
    ap = argparse.ArgumentParser()
    ap.add_argument('prop')
    ap.add_argument('--tier', default=os.environ.get('VERIF_TIER', 'quick'), choices=['quick', 'thorough'])
    ap.add_argument('--replay', default=None)
    args = ap.parse_args()
    pid = args.prop
    seed = common.seed_from_env()
    rep = Report(pid, args.tier, seed)
    try:
        mod = importlib.import_module(f'props.{pid.lower()}')
    except ImportError as e:
        print(f'no check module for {pid}: {e}', file=sys.stderr)
        return 2

    if args.replay:
        payload = json.load(open(args.replay))
        ok = mod.replay(payload)
        if ok is None:
            # deterministic re-run: every random choice derives from the seed recorded in the replay file
            env = dict(os.environ, VERIF_SEED=str(payload.get('seed', 0)), VERIF_TIER=payload.get('tier', 'quick'))
            import subprocess
            p = subprocess.run([sys.executable, os.path.abspath(__file__), pid, '--tier', payload.get('tier', 'quick')], env=env,
                               capture_output=True, text=True)
            print(p.stdout[-2000:])
            ok = p.returncode == 0
        print('replay:', 'property holds on this input' if ok else 'VIOLATION reproduced')
        return 0 if ok else 1

    broken = []        # names of theorems / ties that no longer check
    driver = None
    try:
        br = common.regenerate_and_build(targets=('driver',))
        rep.extra['gen_changed'] = br.gen_changed
        rep.extra['gen_diff'] = getattr(br, 'gen_diff', '')
        fb = getattr(br, 'gen_fallback', [])
        if fb or getattr(br, 'gen_notes', []):
            # not a violation: these parts of the model are no longer regenerated from the source (the code there changed shape);
            # they keep the committed definition and stay tied to the code by the correspondence alone, with a raised budget
            rep.extra['gen_fallback'] = {'definitions': fb, 'notes': getattr(br, 'gen_notes', [])}
            print(f"NOTE: {len(fb)} generated definition(s) could not be re-derived from the source and keep the committed reference "
                  f"({', '.join(fb[:6])}{' …' if len(fb) > 6 else ''}); tie for them: correspondence only", file=sys.stderr)
        if not br.gen_ok:
            if 'UNSUPPORTED' in br.gen_error:
                broken.append({'tie': 'translator', 'detail': br.gen_error[-600:]})
            else:
                print('translator failed (cannot import /repo?):\n' + br.gen_error, file=sys.stderr)
                return 2
        elif not br.build_ok:
            broken.append({'tie': 'lake build (model over regenerated patterns/tables)', 'modules': br.failed_modules,
                           'detail': br.build_log[-1500:]})
        else:
            driver = Driver()
        bad_src = common.audit_sources()
        if bad_src:
            print('forbidden construct in Lean sources: %r' % bad_src[:5], file=sys.stderr)
            return 2
        thm_info = {'theorems': common.theorem_names(pid), 'axioms': {}}
        if br.gen_ok:
            ok, info = common.audit_axioms(pid)
            if ok:
                thm_info = info
                if args.tier == 'thorough':
                    lc_ok, lc = common.leanchecker(pid)
                    rep.extra['leanchecker'] = {'ok': lc_ok, 'modules': lc['modules']}
                    if not lc_ok:
                        broken.append({'theorem_file': f'PyTRS/Props/{pid}.lean', 'detail': 'leanchecker: ' + lc['log']})
            else:
                broken.append({'theorem_file': f'PyTRS/Props/{pid}.lean', 'detail': info.get('log', '')[-1500:]})
        rep.extra['fingerprints_changed'] = common.fingerprints_changed() + ['gen-fallback:' + n for n in getattr(br, 'gen_fallback', [])]
        ctx = Ctx(rep, args.tier, seed, driver, rep.extra['fingerprints_changed'])

        # tier-1: L0 and str primitives vs CPython
        if driver is not None:
            import tier1
            t1bad = tier1.run(rep, 20000 if ctx.thorough else 2500, seed)
            for b in t1bad[:5]:
                broken.append({'tie': 'L0 regex semantics vs CPython re', 'case': b})

        # exploration, under a time limit: when the tree is broken a library call may take arbitrarily long
        limit = int(os.environ.get('VERIF_TIME_LIMIT', 5400 if ctx.thorough else 600))

        # a single library call that does not return within the per-call limit is interrupted and counted as a failing
        # input (a hang refutes whatever the property says about the call's result); C16 measures time itself
        call_limit = int(os.environ.get('VERIF_CALL_LIMIT', 300 if ctx.thorough else 120))
        dog = None
        if pid != 'C16':
            dog = common.Watchdog(limit, call_limit)
            dog.start()
        else:
            def on_alarm(*_a):
                raise common.StopCheck()
            signal.signal(signal.SIGALRM, on_alarm)
            signal.alarm(limit)
        timed_out = False
        cov = common.ImplCoverage()
        cov.start()
        try:
            try:
                mod.run(ctx)
            except common.CallTimeout as e:
                # the call was not inside an oracle wrapper (e.g. it was made for the correspondence)
                rep.violation('failing-input', {'why': str(e), 'note': 'the input is the one being evaluated when the call was interrupted; '
                                                'replay re-runs the check with the recorded seed'})
                rep.extra['stopped_early'] = 'a library call did not return'
        except common.StopCheck:
            timed_out = not rep.violations
            rep.extra['stopped_early'] = 'time limit' if timed_out else 'enough failing inputs'
        finally:
            if dog is not None:
                dog.stop()
                if dog.fired:
                    rep.extra['calls_interrupted'] = dog.fired[:10]
            else:
                signal.alarm(0)
            c = cov.stop()
            if os.environ.get('VERIF_COV_DUMP'):      # development aid: union of the lines reached by all checks (tools/cov_union.py)
                os.makedirs(os.environ['VERIF_COV_DUMP'], exist_ok=True)
                json.dump(sorted([os.path.relpath(f, cov.root), l] for f, l in cov.hits),
                          open(os.path.join(os.environ['VERIF_COV_DUMP'], f'{pid}.json'), 'w'))
            if c:
                tot = [sum(v[0] for v in c.values()), sum(v[1] for v in c.values())]
                rep.extra['impl_line_coverage'] = {'total': tot, 'by_module': {k: v for k, v in sorted(c.items()) if v[0] > 0}}
        if timed_out:
            print(f'time limit of {limit} s reached with no violation recorded', file=sys.stderr)
            return 2

        for b in ctx.corr_bad[:5]:
            broken.append({'tie': 'correspondence model vs implementation', 'case': b})
        rep.extra['correspondence_disagreements'] = len(ctx.corr_bad)

        # a broken proof / tie with no failing input found by the oracle is still a violation
        if broken and not rep.violations:
            extra = getattr(mod, 'extended_search', None)
            if extra is not None:
                extra(ctx)
        if broken and not any(not v['no_input'] for v in rep.violations):
            rep.violation('broken-proof-or-correspondence', {'no_longer_checks': broken}, no_input=True)
        elif broken:
            rep.extra['also_broken'] = broken[:3]

        n_thm = len(thm_info.get('theorems', []))
        discharged = n_thm if not any('theorem_file' in b for b in broken) else 0
        rep.coverage.update({
            'obligations': n_thm,
            'discharged': discharged,
            'checker_cmd': f'cd lean && lake build PyTRS.Props.{pid} && lake env lean .lake/audit_{pid}.lean  (#print axioms on every theorem)',
            'trusted_base': TRUSTED_BASE + list(getattr(mod, 'TRUSTED', [])),
            'theorems': thm_info.get('theorems', []),
            'axioms': thm_info.get('axioms', {}),
        })
        if getattr(mod, 'RULE', None):
            rep.coverage['rule'] = mod.RULE
        rep.assumptions = list(getattr(mod, 'ASSUMPTIONS', []))
        return rep.finish('proof')
    except InfraError as e:
        print(f'infrastructure error: {e}', file=sys.stderr)
        return 2
    except Exception:
        traceback.print_exc()
        return 2


if __name__ == '__main__':
    sys.exit(main())
