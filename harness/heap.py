"""
Heap-level histories (C15): the same operation sequence is run on the real TRS / Tract objects and on the Lean model
`Model/WorldHeap` (driver ops `h.*`), in which dict OBJECTS have identity.  Compared line by line:
  * the twelve properties read through each object,
  * which objects share one dict object (`is`), the cache keys in insertion order with the objects attached to each,
  * every dict handed to the caller by the public conversion function, named by the order of hand-out,
  * the effect of the caller overwriting such a dict (the model's theorems: C15_caller_writes_harmless,
    C15_heap_reads_are_fresh, C15_cache_modes_agree_heap in Lemmas/Heap.lean).
An independent oracle needs no model: every read must equal trs_to_dict of the string the object was set from, computed in a
cache-less way, and no dict handed out may be (`is`) the dict of an object or of the cache.
"""
import impl
from common import enc_text, enc_bool, req, render, render_exc

import pytrs
from pytrs import TRS
from pytrs.parser.config.master_config import MasterConfig

TRS_STRINGS = ['154n97w14', '154n97w15', '1n1w01', '154n97w14', 'XXXzXXXzXX', '___z___z__', '', None, '154n97wXX', 'garbage',
               '154N97W14', '154n97w__', 'XXXz97w01', '7s3e36', ' 154n97w14']
ARGS = [154, '154', '154n', 7, '7s', None, 'XXXz', 0, '0', 97, '97e', 14, '14', '04', 4]


def op_line(op):
    k = op[0]
    if k == 'mc':
        return req('h.mc', enc_text(op[1]), enc_text(op[2]))
    if k == 'cache':
        return req('h.cache', op[1])
    if k in ('new', 'tset'):                 # a Tract's setter builds a NEW TRS object: the model op is newTRS
        return req('h.new', str(op[1]), enc_text(op[2]))
    if k == 'set':
        return req('h.set', str(op[1]), enc_text(op[2]))
    if k == 'newfrom':
        return req('h.newfrom', str(op[1]), str(op[2]))
    if k in ('from_twprgesec', 'set_twprgesec'):
        _, i, a, b, c, ns, ew, ocr = op
        return req('h.' + k, str(i), impl.enc_arg(a), impl.enc_arg(b), impl.enc_arg(c), enc_text(ns), enc_text(ew), enc_bool(ocr))
    if k == 'todict':
        return req('h.todict', enc_text(op[1]))
    if k == 'todict_obj':
        return req('h.todict_obj', str(op[1]))
    if k == 'read':
        return req('h.read', str(op[1]))
    if k == 'same':
        return req('h.same', str(op[1]), str(op[2]))
    if k == 'cwrite':
        return req('h.cwrite', str(op[1]), enc_text(op[2]), enc_text(op[3]))
    if k == 'cread':
        return req('h.cread', str(op[1]))
    if k == 'shape':
        return req('h.shape')
    raise ValueError(k)


def inner(o):
    """the private dict object behind a TRS or a Tract"""
    if isinstance(o, pytrs.Tract):
        o = o._Tract__trs
    return o._TRS__trs_dict


class PyHeap:
    def __init__(self):
        self.saved = (MasterConfig.default_ns, MasterConfig.default_ew, TRS._USE_CACHE)
        MasterConfig.default_ns, MasterConfig.default_ew = 'n', 'w'
        TRS._USE_CACHE = True
        TRS._clear_cache()
        self.objs = {}
        self.kind = {}
        self.src = {}           # ghost: what the object was last set from (for the oracle)
        self.handed = []
        self.oracle_bad = []

    def close(self):
        MasterConfig.default_ns, MasterConfig.default_ew, TRS._USE_CACHE = self.saved
        TRS._clear_cache()

    def do(self, op):
        try:
            out = self._do(op)
        except Exception as e:  # noqa
            out = render_exc(e)
        self.check_separation(op)
        return out

    def check_separation(self, op):
        cache = list(TRS._TRS__CACHE.values())
        for k, d in enumerate(self.handed):
            if any(d is inner(o) for o in self.objs.values()) or any(d is c for c in cache):
                self.oracle_bad.append(f'after {op!r}: dict #{k} handed to the caller IS the dict of a TRS object / of the cache')
                return

    def hand(self, d):
        self.handed.append(d)
        return f'H{len(self.handed) - 1} ' + render({a: d.get(a) for a in impl.TRS_KEYS})

    def _do(self, op):
        k = op[0]
        if k == 'mc':
            MasterConfig.default_ns, MasterConfig.default_ew = op[1], op[2]
            return 'N'
        if k == 'cache':
            if op[1] == 'clear':
                TRS._clear_cache()
            else:
                TRS._USE_CACHE = op[1] == 'on'
            return 'N'
        if k == 'new':
            _, i, t, kind = op
            self.objs[i] = TRS(t) if kind == 'trs' else pytrs.Tract('NE/4', trs=t)
            self.kind[i] = kind
            self.src[i] = t if t not in ('', None) else '___z___z__'
            return 'N'
        if k == 'tset':
            self.objs[op[1]].trs = op[2]
            self.src[op[1]] = op[2] if op[2] not in ('', None) else '___z___z__'
            return 'N'
        if k == 'set':
            o = self.objs.get(op[1])
            if o is None:
                return 'N'
            o.trs = op[2]
            self.src[op[1]] = op[2]
            return 'N'
        if k == 'newfrom':
            s = self.objs.get(op[2])
            if s is None:
                return 'N'
            src_trs = s if isinstance(s, TRS) else s._Tract__trs
            t = pytrs.Tract('NE/4', trs=src_trs)        # documented: a TRS object may be given where a string is expected
            self.objs[op[1]] = t
            self.kind[op[1]] = 'tract'
            self.src[op[1]] = src_trs.trs
            return 'N'
        if k == 'from_twprgesec':
            _, i, a, b, c, ns, ew, ocr = op
            o = TRS.from_twprgesec(a, b, c, default_ns=ns, default_ew=ew, ocr_scrub=ocr)
            self.objs[i] = o
            self.kind[i] = 'trs'
            self.src[i] = o.trs
            return 'N'
        if k == 'set_twprgesec':
            _, i, a, b, c, ns, ew, ocr = op
            o = self.objs.get(i)
            if o is None:
                return 'N'
            s = o.set_twprgesec(a, b, c, default_ns=ns, default_ew=ew, ocr_scrub=ocr)
            self.src[i] = s
            return render(s)
        if k == 'todict':
            return self.hand(pytrs.trs_to_dict(op[1]))
        if k == 'todict_obj':
            o = self.objs.get(op[1])
            if o is None:
                return 'N'
            return self.hand(pytrs.trs_to_dict(o if isinstance(o, TRS) else o._Tract__trs))
        if k == 'read':
            o = self.objs.get(op[1])
            if o is None:
                return 'N'
            got = {a: getattr(o, a) for a in impl.TRS_KEYS}
            # oracle (no model): what a cache-less computation says about the string the object was set from
            src = self.src[op[1]]
            want = pytrs.trs_to_dict(src)
            if any(got[a] != want[a] for a in impl.TRS_KEYS):
                self.oracle_bad.append(f'object {op[1]} set from {src!r} reads {got} instead of {dict(want)}')
            return render(got)
        if k == 'same':
            a, b = self.objs.get(op[1]), self.objs.get(op[2])
            if a is None or b is None:
                return 'N'
            return '1' if inner(a) is inner(b) else '0'
        if k == 'cwrite':
            if op[1] >= len(self.handed):
                return 'denied'
            new = dict(pytrs.trs_to_dict(op[2]))
            new['trs'] = op[3]
            d = self.handed[op[1]]
            d.clear()
            d.update(new)
            return 'N'
        if k == 'cread':
            if op[1] >= len(self.handed):
                return 'denied'
            d = self.handed[op[1]]
            return render({a: d.get(a) for a in impl.TRS_KEYS})
        if k == 'shape':
            shape = [(key, sorted(i for i, o in self.objs.items() if inner(o) is v)) for key, v in TRS._TRS__CACHE.items()]
            return render((shape, len({id(inner(o)) for o in self.objs.values()})))
        raise ValueError(k)


def rand_history(r, n):
    """library operations on up to five named objects, interleaved with cache control, identity observations and a caller who
    overwrites the dicts he was given"""
    ops = []
    kinds = {}
    handed = 0
    pool = [r.choice(TRS_STRINGS) for _ in range(3)]      # few distinct strings: cache hits and sharing are the point
    for _ in range(n):
        c = r.below(20)
        ids = sorted(kinds)
        if c < 4 or not ids:
            i = r.below(5)
            kind = r.choice(['trs', 'trs', 'tract'])
            kinds[i] = kind
            ops.append(('new', i, r.choice(pool), kind))
        elif c < 6:
            i = r.choice(ids)
            if kinds[i] == 'trs':
                ops.append(('set', i, r.choice(pool + TRS_STRINGS[:3])))
            else:
                ops.append(('tset', i, r.choice(pool)))
        elif c == 6:
            i = r.below(5)
            ops.append(('newfrom', i, r.choice(ids)))
            kinds[i] = 'tract'
        elif c == 7:
            i = r.below(5)
            ops.append(('from_twprgesec', i, r.choice(ARGS), r.choice(ARGS), r.choice(ARGS), r.choice([None, 'n', 's']),
                        r.choice([None, 'e', 'w']), r.chance(1, 4)))
            kinds[i] = 'trs'
        elif c == 8:
            i = r.choice(ids)
            if kinds[i] == 'trs':
                ops.append(('set_twprgesec', i, r.choice(ARGS), r.choice(ARGS), r.choice(ARGS), r.choice([None, 's']),
                            r.choice([None, 'e']), False))
        elif c == 9:
            ops.append(('todict', r.choice(pool)))
            handed += 1
        elif c in (10, 11):
            ops.append(('todict_obj', r.choice(ids)))
            handed += 1
        elif c in (12, 13) and handed:
            ops.append(('cwrite', r.below(handed + 1), r.choice(TRS_STRINGS), r.choice(['hacked', '1n1w01', ''])))
        elif c == 14 and handed:
            ops.append(('cread', r.below(handed + 1)))
        elif c == 15:
            ops.append(('cache', r.choice(['on', 'off', 'clear'])))
        elif c == 16 and len(ids) >= 2:
            a, b = r.choice(ids), r.choice(ids)
            ops.append(('same', a, b))
        elif c == 17:
            ops.append(('mc', r.choice('ns'), r.choice('ew')))
        elif c == 18:
            ops.append(('shape',))
        else:
            ops.append(('read', r.choice(ids)))
    for i in sorted(kinds):
        ops.append(('read', i))
    ops.append(('shape',))
    return ops


def run_history(ops):
    w = PyHeap()
    try:
        return [w.do(op) for op in ops], w.oracle_bad
    finally:
        w.close()


def history_lines(ops):
    return [req('h.reset')] + [op_line(op) for op in ops]
