#!/venv/bin/python
"""tools/cov_union.py <dump dir>  — union of the implementation lines reached by the checks (VERIF_COV_DUMP=<dir> ./check Cnn ...):
lists, per module of /repo/pytrs, the functions no check executes at all and the functions executed only partly.
Development aid (which parts of the code the correspondence / the oracles never see); not a registered check."""
import ast, json, os, sys
root = os.path.join(os.environ.get('PYTRS_REPO', '/repo'), 'pytrs')
hits = {}
for f in os.listdir(sys.argv[1]):
    for mod, line in json.load(open(os.path.join(sys.argv[1], f))):
        hits.setdefault(mod, set()).add(line)
tot_fn = tot_un = 0
for dirpath, _d, files in sorted(os.walk(root)):
    for fn in sorted(files):
        if not fn.endswith('.py') or 'interface_tools' in dirpath:
            continue
        path = os.path.join(dirpath, fn)
        rel = os.path.relpath(path, root)
        tree = ast.parse(open(path, encoding='utf-8').read())
        h = hits.get(rel, set())
        rows = []
        for node in ast.walk(tree):
            if isinstance(node, (ast.FunctionDef, ast.AsyncFunctionDef)):
                body = [n for n in node.body if not (isinstance(n, ast.Expr) and isinstance(getattr(n, 'value', None), ast.Constant))]
                if not body:
                    continue
                lines = set()
                for b in body:
                    for n in ast.walk(b):
                        if isinstance(n, ast.stmt):
                            lines.add(n.lineno)
                got = len(lines & h)
                tot_fn += 1
                if got == 0:
                    tot_un += 1
                    rows.append(f'   NEVER   {node.name} (line {node.lineno}, {len(lines)} statements)')
                elif got < len(lines):
                    rows.append(f'   partly  {node.name} (line {node.lineno}): {got}/{len(lines)}; missing {sorted(lines - h)[:12]}')
        if rows:
            print(rel)
            print('\n'.join(rows))
print(f'{tot_un} of {tot_fn} functions never executed by any check')
