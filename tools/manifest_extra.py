EXTRA = {
 'C01': dict(text=("Theorems: cleanup_desc idempotent; deduce_layout returns one of the five layouts and copy_all exactly when no "
   "section word or no Twp/Rge is found (over the regenerated patterns). The marker walk / finders / preprocessing are modelled "
   "(L0 over regenerated patterns + hand-written glue) and tied by correspondence of the full PLSSDesc snapshot; oracle = expected "
   "tracts of the abstract description, deduced layout, no error flag, pretty_desc re-parse."),
   note="glue-full / lex-hyp planned theorem walk_arranged not yet proved; known finding: multi-line blocks and pretty_desc.",
   technique="Lean 4 theorems + executed L0 + correspondence + abstract-description oracle", ref="§6 C01"),
 'C03': dict(text=("Every model function is a total Lean function (divergence is a distinct outcome). Theorems: bad config type -> "
   "ConfigError only; unknown setting -> ValueError; no IndexError in lot division for any text; copy_all fallback cannot fail. "
   "Correspondence incl. exception class on structured/damaged/token-soup strings x valid configs x entry points; oracle = no exception."),
   note="Full `never raises` for the whole pipeline (for every engine) is not yet one theorem; pieces are.",
   technique="Lean 4 theorems (totality pieces) + correspondence incl. exception classes + no-exception oracle", ref="§6 C03"),
 'C04': dict(text=("Theorems: the marker list is sorted; consecutive inter-marker blocks concatenate to the text between first and "
   "last marker (whole text with TEXT_START/TEXT_END); staging never removes a component. Correspondence of PLSSDesc snapshots; "
   "oracle = inserted foreign word is found in a tract description or an error flag, at every token boundary, in all modes."),
   note="Two known findings (short unused block, P.M. filler).",
   technique="Lean 4 theorems (block partition) + correspondence + marker-word oracle", ref="§6 C04"),
 'C09': dict(text=("Theorems (for every outcome of the engine): the i-th constructed tract records the complete original text, the "
   "source tag, index i, the creation-counter uid and the trs it was given; its attributes are the decomposition of that trs; one "
   "tract per (component, section). Correspondence of all thirteen attributes; regex-free oracle."),
   note="'never the undefined placeholder' rests on the C12 recogniser link (executed) and the correspondence.",
   technique="Lean 4 theorems (provenance by induction over construct_tracts) + correspondence + regex-free oracle", ref="§6 C09"),
 'C10': dict(text=("Flag lists are List PyVal in the model; theorems: SecUnpacker, LotUnpacker and every ChunkParser staging step "
   "(incl. copy_all) keep flags = str, lines = (str,str), paired one-to-one. Correspondence with type-tagged rendering; oracle: "
   "types, hand-down, flawed iff error flag, error TRS -> flag, trigger phrases -> warnings with context."),
   note="Typing invariant for the finder passes and the marker walk is not yet a theorem (correspondence only). Known finding: trigger cut by context window.",
   technique="Lean 4 theorems (typing invariant per append site) + type-tagged correspondence + oracle", ref="§6 C10"),
 'C11': dict(text=("Theorems: _parse_copyall stages exactly one component holding the entire chunk text and cannot fail; forced "
   "copy_all switches segment off. Correspondence over the three channels; oracle: exactly one tract = whole preprocessed text, "
   "fallback error flag, never two whole-text tracts."),
   note="", technique="Lean 4 theorems + correspondence + direct oracle", ref="§6 C11"),
 'C13': dict(text=("Theorems: the config setter sets exactly the listed non-None settings (both creation and assignment use it); "
   "keyword > attribute for every PLSSDesc.parse / Tract.parse setting incl. colon and depth rules; unknown setting -> ValueError; "
   "decompile is order-independent. Correspondence of Config text parsing, of PLSSDesc/Tract across channels and of histories; "
   "oracle: three channels same effect, keyword beats config beats MasterConfig; text round trip on random well-formed configs."),
   note="ofText(toText c) = c is checked on generated configs, not yet a theorem (needs split-on-class lemma over L0).",
   technique="Lean 4 theorems (precedence) + correspondence + channel-equivalence oracle", ref="§6 C13"),
 'C14': dict(text=("Theorems: parse(commit=False) leaves every attribute of Tract and PLSSDesc unchanged; removing the flags of the "
   "previous parse recovers the inherited flags, hence re-parsing a Tract with unchanged settings reproduces exactly the same "
   "object. Stateful correspondence of operation histories; oracle: snapshots before/after, twice = once, fresh object."),
   note="Idempotence theorem assumes no generated flag also occurs among the inherited ones.",
   technique="Lean 4 theorems (history laws) + stateful correspondence + snapshot oracle", ref="§6 C14"),
 'C15': dict(text=("The TRS cache, UID counter and MasterConfig are an explicit World in the model. Theorems: the cache invariant "
   "(every entry = trs_to_dict of its key) holds after every history of operations; under it a cache hit equals a fresh "
   "computation. Stateful correspondence; oracle: probe after a noise history = same probe in a fresh interpreter process."),
   note="The cache is modelled at value level (no heap aliasing); freshness of trs_to_dict's result is checked by the oracle (caller overwrites the returned dict).",
   technique="Lean 4 theorems (cache invariant over histories) + stateful correspondence + fresh-process oracle", ref="§6 C15"),
 'C16': dict(text=("Theorems on the regenerated patterns: exactly seven patterns are not `Safe` (unbounded repeat over a compound body); "
   "trigger/scrubber patterns consume input (scan loops progress); until-stable loops end in a fixed point or report divergence. "
   "Pumping search on the real code (prefix + unit^n + suffix for every atom/word of the patterns, structural repetition) with hard time-outs."),
   note="Partial by nature: seconds are a runtime quantity. Two known findings (intervener backtracking, white space after a Twp/Rge).",
   technique="Lean 4 theorems (structural cost predicates on regenerated patterns) + pumping search with time-outs", ref="§6 C16"),
 'C17': dict(text=("Theorems: each sort pass is a permutation, sorted by its key, and stable (also reversed); custom_sort with any key "
   "string (legal or not) is a permutation; a key naming no variable is rejected. Correspondence of orders incl. partial effect of "
   "illegal keys; independent oracle from the documentation."),
   note="Python's list.sort stability is modelled by Lean's stable mergeSort (assumed external behaviour).",
   technique="Lean 4 theorems (perm/sorted/stable) + correspondence + independent sort oracle", ref="§6 C17"),
 'C18': dict(text=("Theorems: grouping is a partition (unpack is a permutation of the list) and every group holds only elements with "
   "its key, for every key function; unknown duplicate method -> ValueError. Correspondence of filter/filter_errors/"
   "filter_duplicates/group_by incl. drop; oracle: order-preserving partition, duplicate semantics, construction paths raise TypeError."),
   note="filter = order-preserving partition (the reverse-pop index bookkeeping) is checked by correspondence + oracle, not yet a theorem.",
   technique="Lean 4 theorems (group partition) + correspondence + list-comprehension oracle", ref="§6 C18"),
 'C19': dict(text=("Theorems: one record per tract with one value per attribute; cell scrubbing is total and yields a scalar; exactly one "
   "row per tract after one header row unless appending; row width; unknown attribute -> 'n/a'. The csv quoting/reader model is "
   "cross-checked against CPython's csv; oracle re-reads the files of both writers."),
   note="csv round trip on the Lean quoting model is executed against CPython, not yet proved.",
   technique="Lean 4 theorems (row/record laws) + correspondence incl. csv text + file re-read oracle", ref="§6 C19"),
 'C20': dict(text=("Theorems: sec_within acts only with exactly one candidate and then yields exactly one component for the same "
   "Twp/Rge/sections, marked iff changed; colon modes are ignored outside the two section-first layouts. Correspondence under each "
   "mode; metamorphic oracle (mode on vs off) and re-attachment order."),
   note="segment-conservativity is correspondence + oracle (lex-hyp), not yet a theorem.",
   technique="Lean 4 theorems + correspondence + metamorphic oracle", ref="§6 C20"),
}
