#!/usr/bin/env python3
"""tools/mutate_model.py [--n N] [--slots K] [--seed S] [--files Aliquot,TRS,...]

How tightly is the hand-written Lean model tied to the code?  This tool mutates the MODEL (not the library): one small edit
to a definition in lean/PyTRS/Model/*.lean per mutant, in a scratch copy of /verif, then rebuilds the driver and runs the quick
checks of the properties that model file serves against the UNCHANGED /repo.  A model mutant must be rejected either by a proof
obligation (a theorem about the mutated definition no longer checks) or by the correspondence (the mutated model answers
differently from the real code on some generated input).  A mutant that survives both marks a part of the model that
neither a theorem nor the generators constrain — the residual risk of the hand-written half of the tie, measured.

Development aid; not a registered check.  Scratch copies live under /tmp/mm_<slot> and are removed at the end.
"""
import argparse
import json
import os
import random
import re
import shutil
import subprocess
import sys
from concurrent.futures import ThreadPoolExecutor

VERIF = os.path.dirname(os.path.dirname(os.path.abspath(__file__)))
PROPS = {
    'Aliquot': ['C02', 'C06'], 'Unpack': ['C05', 'C08', 'C03'], 'Tract': ['C06', 'C07', 'C03'], 'TRS': ['C12', 'C09', 'C15'],
    'Plss': ['C01', 'C04', 'C10', 'C11', 'C20', 'C08', 'C03'], 'Config': ['C13'], 'Objects': ['C13', 'C14', 'C09', 'C10', 'C11'],
    'Containers': ['C17', 'C18'], 'Export': ['C19'], 'World': ['C15', 'C14'], 'WorldHeap': ['C15'],
}
RULES = [
    (r' == ', ' != '), (r' != ', ' == '), (r' && ', ' || '), (r' \|\| ', ' && '), (r'\btrue\b', 'false'), (r'\bfalse\b', 'true'),
    (r' \+ 1\b', ' + 2'), (r' - 1\b', ' - 2'), (r' < ', ' <= '), (r' <= ', ' < '), (r' > ', ' >= '), (r' >= ', ' > '),
    (r'\.take\b', '.drop'), (r'\.drop\b', '.take'), (r'\.reverse\b', ''), (r'\.isEmpty\b', '.isEmpty.not'),
    (r'\.head\?', '.getLast?'), (r'\.getLast\?', '.head?'), (r' \+\+ ', ' ++ [] ++ '),   # last one: equivalent mutant (control)
    (r'\bsome\b (\w+) =>', r'some \1 => if true then'),                                    # no-op guard (control, rarely parses)
    (r'\.any\b', '.all'), (r'\.all\b', '.any'), (r'\bmin\b', 'max'), (r'\bmax\b', 'min'), (r'\b0\b', '1'), (r'\b2\b', '3'),
]


def strip_comments(src):
    """mask comments and strings so that sites are picked in code only (positions preserved)"""
    out = list(src)
    for m in re.finditer(r'/-.*?-/|--[^\n]*|"(?:\\.|[^"\\])*"', src, re.S):
        for i in range(m.start(), m.end()):
            if out[i] != '\n':
                out[i] = ' '
    return ''.join(out)


def sites(path):
    src = open(path, encoding='utf-8').read()
    code = strip_comments(src)
    res = []
    for k, (pat, rep) in enumerate(RULES):
        for m in re.finditer(pat, code):
            line = src.count('\n', 0, m.start()) + 1
            # skip structure defaults / deriving lines / theorem-free zones are all fine; skip `import`/`namespace`
            res.append((m.start(), m.end(), k, line))
    return src, res


def run_mutant(slot, fname, start, end, k, line):
    base = f'/tmp/mm_{slot}'
    vf = f'{base}/verif'
    os.makedirs(base, exist_ok=True)
    subprocess.run(['rsync', '-a', '--delete', '--exclude', 'evidence', '--exclude', 'replays', '--exclude', 'seeded', VERIF + '/', vf + '/'],
                   check=True)
    os.makedirs(f'{vf}/evidence', exist_ok=True)
    path = f'{vf}/lean/PyTRS/Model/{fname}.lean'
    src = open(path, encoding='utf-8').read()
    pat, rep = RULES[k]
    new = src[:start] + re.sub(pat, rep, src[start:end], count=1) + src[end:]
    if new == src:
        return None
    open(path, 'w', encoding='utf-8').write(new)
    desc = {'file': fname, 'line': line, 'rule': f'{pat} -> {rep}', 'before': src.split('\n')[line - 1].strip()[:160]}
    b = subprocess.run(['lake', 'build', 'driver'], cwd=f'{vf}/lean', capture_output=True, text=True)
    if b.returncode != 0:
        desc['outcome'] = 'does not compile'
        return desc
    env = dict(os.environ, PYTRS_VERIF='1', VERIF_SEED='0')
    for p in PROPS[fname]:
        r = subprocess.run(['./check', p, '--tier', 'quick'], cwd=vf, capture_output=True, text=True, env=env)
        if r.returncode == 1:
            v = [l for l in r.stdout.split('\n') if l.startswith('VIOLATION')]
            how = 'rejected'
            try:
                rp = json.load(open(os.path.join(vf, v[0].split('replay=')[1].split()[0])))
                brk = rp.get('replay', {}).get('no_longer_checks', [])
                if brk and ('theorem_file' in brk[0]):
                    how = 'rejected by a proof obligation'
                elif brk:
                    how = 'rejected by the correspondence'
                else:
                    how = 'rejected (oracle/correspondence)'
            except Exception:  # noqa
                pass
            desc['outcome'] = f'{how} [{p}]'
            return desc
        if r.returncode not in (0, 1):
            desc['outcome'] = f'check {p} exit {r.returncode}: {r.stderr[-200:]}'
            return desc
    desc['outcome'] = 'SURVIVED ' + ','.join(PROPS[fname])
    return desc


def main():
    ap = argparse.ArgumentParser()
    ap.add_argument('--n', type=int, default=30)
    ap.add_argument('--slots', type=int, default=3)
    ap.add_argument('--seed', type=int, default=0)
    ap.add_argument('--files', default=','.join(PROPS))
    ap.add_argument('--out', default='/tmp/model_mutants.json')
    ap.add_argument('--no-controls', action='store_true', help='leave out the two rules that produce equivalent mutants (controls)')
    a = ap.parse_args()
    rnd = random.Random(a.seed)
    allsites = []
    for f in a.files.split(','):
        _src, ss = sites(f'{VERIF}/lean/PyTRS/Model/{f}.lean')
        allsites += [(f,) + s for s in ss]
    if a.no_controls:
        allsites = [x for x in allsites if '++ [] ++' not in RULES[x[3]][1] and 'if true then' not in RULES[x[3]][1]]
    rnd.shuffle(allsites)
    chosen = allsites[:a.n]
    results = []

    def work(item):
        idx, (f, s, e, k, line) = item
        try:
            return run_mutant(idx % a.slots if False else item[0] % a.slots, f, s, e, k, line)
        except Exception as ex:  # noqa
            return {'file': f, 'line': line, 'outcome': f'tool error {ex}'}
    # one worker per slot, each slot processes its share sequentially (a slot's scratch copy is not shared)
    shares = [[(i, c) for i, c in enumerate(chosen) if i % a.slots == s] for s in range(a.slots)]

    def run_share(share):
        out = []
        for item in share:
            r = work(item)
            if r:
                out.append(r)
                print(json.dumps(r, ensure_ascii=False), flush=True)
        return out
    with ThreadPoolExecutor(max_workers=a.slots) as ex:
        for part in ex.map(run_share, shares):
            results += part
    for s in range(a.slots):
        shutil.rmtree(f'/tmp/mm_{s}', ignore_errors=True)
    json.dump(results, open(a.out, 'w'), indent=1, ensure_ascii=False)
    tally = {}
    for r in results:
        key = r['outcome'].split(' [')[0].split(' C')[0]
        tally[key] = tally.get(key, 0) + 1
    print(json.dumps(tally, indent=1))


if __name__ == '__main__':
    sys.exit(main())
