#!/bin/bash
# tools/try_patch.sh <patch.diff> <property-id>...   apply a patch to /repo, run the quick checks, undo the patch.
set -u
patch="$(realpath "$1")"; shift
cd /repo || exit 2
if ! git diff --quiet; then echo "/repo has uncommitted changes; refusing"; exit 2; fi
git apply "$patch" || { echo "patch does not apply"; exit 2; }
trap 'git -C /repo checkout -- . ; git -C /repo clean -fdq pytrs 2>/dev/null' EXIT
# the existing suite must still pass with the patch (otherwise it is not a valid seeded change)
if [ "${SKIP_SUITE:-0}" != "1" ]; then
  /venv/bin/python -m pytest -q -p no:cacheprovider -x 2>&1 | tail -1
fi
cd /verif
for p in "$@"; do
  out=$(VERIF_SEED=${VERIF_SEED:-0} ./check "$p" --tier quick 2>&1); rc=$?
  echo "[$p] exit=$rc $(echo "$out" | grep -m1 VIOLATION)"
done
