#!/bin/bash
# tools/eval_harmless.sh <patch.diff> <slot> [property-id...]
# Applies a BEHAVIOUR-PRESERVING change in a scratch worktree of /repo and runs the quick checks against it (PYTRS_REPO), using a scratch
# copy of /verif: every VIOLATION reported here is a false alarm of the machinery (or the change was not behaviour-preserving after all).
# Nothing is applied to /repo itself.  Development aid; not a registered check.
set -u
patch="$(realpath "$1")"; slot="$2"; shift 2
props="${*:-C01 C02 C03 C04 C05 C06 C07 C08 C09 C10 C11 C12 C13 C14 C15 C16 C17 C18 C19 C20}"
base=/tmp/harmless_eval_$slot
wt=$base/repo; vf=$base/verif
mkdir -p $base
if [ ! -d "$wt" ]; then git -C /repo worktree add --detach --force "$wt" HEAD >/dev/null 2>&1 || { echo "cannot create worktree"; exit 2; }; fi
git -C "$wt" checkout -q --detach "$(git -C /repo rev-parse HEAD)" 2>/dev/null
git -C "$wt" checkout -- . ; git -C "$wt" clean -fdq
rsync -a --delete --exclude evidence --exclude replays --exclude seeded /verif/ "$vf"/
mkdir -p "$vf/evidence"
export PYTHONPATH="$wt" PYTRS_REPO="$wt" PYTRS_VERIF=1
cd "$wt"
git apply "$patch" || { echo "patch does not apply"; exit 2; }
echo "suite: $(/venv/bin/python -m pytest -q -p no:cacheprovider -x 2>&1 | tail -1)"
for p in $props; do
  out=$(cd "$vf" && VERIF_SEED=${VERIF_SEED:-0} timeout 1800 ./check "$p" --tier quick 2>&1); rc=$?
  echo "[$p] exit=$rc $(echo "$out" | grep -m1 VIOLATION)"
  if [ $rc -ne 0 ]; then f=$(echo "$out" | grep -m1 VIOLATION | sed 's/.*replay=\([^ ]*\).*/\1/'); [ -f "$vf/$f" ] && head -c 1500 "$vf/$f" | tr '\n' ' '; echo; echo "$out" | tail -5; fi
done
git -C "$wt" checkout -- . ; git -C "$wt" clean -fdq
