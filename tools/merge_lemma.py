#!/usr/bin/env python3
"""tools/merge_lemma.py <scratch lean dir> <relative file>...  — copy proof files written in a scratch copy into /verif/lean, renaming
generated character sets from the old numbered names (Gen.cs19) to the content-addressed ones (tools/charset_rename_map.json)."""
import json, os, re, sys
root = os.path.dirname(os.path.dirname(os.path.abspath(__file__)))
mp = json.load(open(os.path.join(root, 'tools', 'charset_rename_map.json')))
src_dir = sys.argv[1]
for rel in sys.argv[2:]:
    s = open(os.path.join(src_dir, rel), encoding='utf-8').read()
    n = [0]
    def rep(m):
        k = m.group(1)
        if k in mp:
            n[0] += 1
            return mp[k]
        return k
    s = re.sub(r'\b(cs\d+(?:_c\d+)?)\b', rep, s)
    open(os.path.join(root, 'lean', rel), 'w', encoding='utf-8').write(s)
    print(rel, 'renamed', n[0], 'charset references')
