#!/usr/bin/env python3
"""Regenerate MANIFEST.json from the per-property table below (keeps the file valid and consistent)."""
import json
import os

ROOT = os.path.dirname(os.path.dirname(os.path.abspath(__file__)))

COMMON_NOTE = ("Trusted: Lean 4.33.0 kernel; axioms at most propext/Classical.choice/Quot.sound (audited by #print axioms on "
               "every run; no sorry/admit/axiom/native_decide/bv_decide, grep'ed every run); tools/translate.py (CPython sre "
               "parse tree -> Rx term, character classes asked of the running re engine, tables by import/ast) whose output "
               "is re-validated every run by the tier-1 differential of L0 against CPython; the correspondence harness "
               "(same inputs to the compiled Lean driver and to the real code in-process, canonical type-tagged rendering) "
               "which samples. ")

P = {
    'C01': None, 'C03': None, 'C04': None, 'C09': None, 'C10': None, 'C11': None, 'C13': None, 'C14': None,
    'C15': None, 'C16': None, 'C17': None, 'C18': None, 'C19': None, 'C20': None,
    'C02': dict(
        text=("Theorems about the Lean model of aliquot_parse.py (tables regenerated from the source and pinned by decide); "
              "model tied to the code by correspondence on exhaustive chains (length<=3 quick, <=5 thorough) x depth settings "
              "and random longer chains; independent dyadic-box tiling oracle on the implementation's output as failing-input "
              "search."),
        note="Modelled by hand: parse_aliquot, pass_back_halves, combine_consecutive_halves, standardize, subdivide, rebuild.",
        technique="Lean 4 theorems on a hand-written model + correspondence + geometric oracle", ref="§6 C02"),
    'C05': dict(
        text=("Theorems on the range-expansion arithmetic of both unpackers (exact membership, length, direction flag) for all "
              "integers; the right-to-left unpacker loops are modelled over the regenerated multisec/multilot patterns (L0) and "
              "tied by correspondence; oracle = left-to-right expansion of the abstract item list on find_sec / PLSSDesc / Tract."),
        note="Lexical hypothesis (what the patterns return at each endpos) is executed on every generated list, not proved for all strings.",
        technique="Lean 4 theorems (range expansion) + executed L0 over regenerated patterns + correspondence + expansion oracle", ref="§6 C05"),
    'C06': dict(
        text=("Theorems: duplicate detection (gen_flags) stages a warning iff the list has a duplicate, and only members; "
              "extraction loops modelled over regenerated patterns, tied by correspondence; metamorphic oracle (whole = "
              "concatenation of single-element parses) on the implementation."),
        note="Two known findings (ALL not last; bare line break joins aliquots) are outside the proved domain and listed in known_findings.json.",
        technique="Lean 4 theorems (dup flags) + correspondence + metamorphic oracle", ref="§6 C06"),
    'C07': dict(
        text=("Theorems: every substitute-until-stable scrubber returns a fixed point of its step and is idempotent; the "
              "documented spelling table (x contexts) is executed exhaustively on the regenerated patterns; chains with "
              "independent spellings compared with the canonical spelling on the implementation; correspondence of "
              "scrub_aliquots."),
        note="Partial: the unbounded 'all mixed spellings of all chains collapse' statement is not a theorem (needs the locality lemma of §6 C07.3).",
        technique="Lean 4 theorems (fixed point of scrubbers) + executed lexical table + correspondence + canonical-spelling oracle", ref="§6 C07"),
    'C08': dict(
        text=("Theorems for every match object: explicit N/S/E/W is never overridden by defaults, a missing direction comes "
              "from the default only, illegal defaults raise the documented exceptions, result shape; preprocessing modelled "
              "over regenerated patterns with correspondence; oracle: canonical Twp/Rge in pp_desc/tracts/find_twprge across "
              "the three default channels."),
        note="Known finding: ocr_scrub with single-digit range 2.",
        technique="Lean 4 theorems (unpack_twprge algebra) + executed L0 + correspondence + spelling oracle", ref="§6 C08"),
    'C12': dict(
        text=("Theorems: empty input is undefined; reported trs is the concatenation of reported components; an input the "
              "(regenerated) unpacker pattern does not fully match yields exactly the error dict; section never None. "
              "Correspondence of trs_to_dict / construct_trs; regex-free recogniser as strictness oracle on single/double edits."),
        note="The recogniser <-> regenerated pattern link is by executed differential (edits), not yet a Lean lemma.",
        technique="Lean 4 theorems + correspondence + regex-free recogniser oracle", ref="§6 C12"),
}

# filled in as the checks are built
try:
    from manifest_extra import EXTRA  # type: ignore
    P.update(EXTRA)
except Exception:
    pass


def main():
    import sys
    sys.path.insert(0, os.path.dirname(os.path.abspath(__file__)))
    try:
        import manifest_extra
        P.update(manifest_extra.EXTRA)
    except ImportError:
        pass
    try:
        import manifest_texts
        P.update(manifest_texts.TEXTS)
    except ImportError:
        pass
    checks = []
    na = []
    for pid in sorted(P):
        m = P[pid]
        if m is None:
            na.append({'property_id': pid, 'reason': 'check not built yet (work in progress; will be claimed)'})
            continue
        checks.append({
            'property_id': pid,
            'quick_cmd': f'./check {pid} --tier quick',
            'thorough_cmd': f'./check {pid} --tier thorough',
            'evidence_file': f'evidence/{pid}.json',
            'replay_cmd_template': f'./check {pid} --replay {{path}}',
            'engine': 'lean4-model+correspondence',
            'level_claimed': {'category': 'proof', 'text': m['text'], 'design_ref': m.get('ref', '')},
            'level_note': COMMON_NOTE + m['note'],
            'technique': m['technique'],
        })
    man = {
        'version': 1,
        'setup_cmd': './setup.sh',
        'hooks': {'guard': 'PYTRS_VERIF',
                  'enable': 'no source hooks are needed (observation points are public API / importable internals); checks export PYTRS_VERIF=1',
                  'baseline_off_cmd': 'cd /repo && /venv/bin/python -m pytest -ra -q -p no:cacheprovider --timeout=900 --continue-on-collection-errors',
                  'source_commits': [], 'add_only': True},
        'engines': [{'name': 'lean4-model+correspondence', 'path': 'lean/', 'serves_properties': [c['property_id'] for c in checks],
                     'kind_free_text': 'Lean 4 model (L0 regex semantics regenerated from source + hand-written glue) with theorems; Python correspondence harness and per-property oracles'}],
        'checks': checks,
        'not_applicable': na,
        'notes': 'See DESIGN.md. Known findings: known_findings.json. Seeded breaking changes: seeded/.',
    }
    with open(os.path.join(ROOT, 'MANIFEST.json'), 'w') as f:
        json.dump(man, f, indent=1)
    print(len(checks), 'checks;', len(na), 'not applicable')


if __name__ == '__main__':
    main()
