#!/venv/bin/python
"""
tools/mutate.py -- a mutation campaign against the checks (development aid, not a registered check).

  mutate.py list  [--files f1,f2] > mutants.jsonl       enumerate small source mutants of /repo/pytrs
  mutate.py run   mutants.jsonl --out results.jsonl --workers 4 [--sample N --seed S]
        per worker: a scratch git worktree of /repo and a scratch copy of /verif (both under /tmp, removed at the end);
        for every mutant: apply it, run the pinned suite (a mutant the suite kills is dropped), then run the quick checks of
        the properties that the mutated file can influence, with PYTRS_REPO pointing at the worktree.

Nothing here decides a property; survivors are triaged by hand (an undetected mutant is either equivalent, outside the twenty
properties, or a gap in a generator / oracle that is then closed).
"""
import argparse
import ast
import hashlib
import json
import os
import random
import re
import shutil
import subprocess
import sys
import time

REPO = '/repo'
VERIF = os.path.dirname(os.path.dirname(os.path.abspath(__file__)))

# which properties a file can influence (checks run for a surviving mutant of that file)
FILE_PROPS = {
    'pytrs/parser/tract/aliquot_parse.py': ['C02', 'C06', 'C07'],
    'pytrs/parser/tract/tract_parse.py': ['C06', 'C10', 'C03', 'C05', 'C14'],
    'pytrs/parser/tract/tract_preprocess.py': ['C07', 'C06', 'C16'],
    'pytrs/parser/tract/tract.py': ['C06', 'C09', 'C13', 'C14', 'C19', 'C03', 'C10', 'C12', 'C15'],
    'pytrs/parser/trs/trs.py': ['C12', 'C09', 'C15', 'C17', 'C08'],
    'pytrs/parser/config/config.py': ['C13', 'C03', 'C14'],
    'pytrs/parser/config/master_config.py': ['C08', 'C13', 'C15'],
    'pytrs/parser/config/layouts.py': ['C01', 'C11', 'C13'],
    'pytrs/parser/containers/containers.py': ['C17', 'C18', 'C19', 'C14', 'C01'],
    'pytrs/parser/plssdesc/plss_parse.py': ['C01', 'C03', 'C04', 'C05', 'C09', 'C10', 'C11', 'C20'],
    'pytrs/parser/plssdesc/plss_preprocess.py': ['C08', 'C04', 'C16', 'C01', 'C03'],
    'pytrs/parser/plssdesc/plssdesc.py': ['C01', 'C11', 'C13', 'C14', 'C20', 'C10', 'C09', 'C03'],
    'pytrs/parser/unpack/unpackers.py': ['C05', 'C08', 'C06', 'C03', 'C09'],
    'pytrs/parser/rgxlib/aliquots.py': ['C07', 'C06', 'C02', 'C16'],
    'pytrs/parser/rgxlib/lots.py': ['C05', 'C06', 'C16'],
    'pytrs/parser/rgxlib/misc.py': ['C05', 'C06', 'C16', 'C01'],
    'pytrs/parser/rgxlib/sec.py': ['C05', 'C01', 'C20', 'C04', 'C16'],
    'pytrs/parser/rgxlib/twprge.py': ['C08', 'C01', 'C04', 'C16'],
    'pytrs/parser/rgxlib/warnings.py': ['C10', 'C16'],
    'pytrs/parser/rgxlib/context_checkers.py': ['C01', 'C05', 'C20'],
    'pytrs/tractwriter/tractwriter.py': ['C19'],
    'pytrs/utils/__init__.py': ['C19', 'C18', 'C10'],
    'pytrs/_constants.py': ['C09', 'C11', 'C12'],
}

CMP = {ast.Lt: '<=', ast.LtE: '<', ast.Gt: '>=', ast.GtE: '>', ast.Eq: '!=', ast.NotEq: '==',
       ast.Is: 'is not', ast.IsNot: 'is', ast.In: 'not in', ast.NotIn: 'in'}
CMP_SRC = {ast.Lt: '<', ast.LtE: '<=', ast.Gt: '>', ast.GtE: '>=', ast.Eq: '==', ast.NotEq: '!=',
           ast.Is: 'is', ast.IsNot: 'is not', ast.In: 'in', ast.NotIn: 'not in'}


def seg(src_lines, node):
    return ast.get_source_segment('\n'.join(src_lines), node)


class Mutator(ast.NodeVisitor):
    def __init__(self, path, src):
        self.path = path
        self.src = src
        self.lines = src.split('\n')
        self.offs = [0]
        for ln in self.lines:
            self.offs.append(self.offs[-1] + len(ln.encode()) + 1)
        self.bsrc = src.encode()
        self.out = []
        self.func = []
        self.in_doc = set()

    def pos(self, line, col):
        return self.offs[line - 1] + col

    def span(self, node):
        return self.pos(node.lineno, node.col_offset), self.pos(node.end_lineno, node.end_col_offset)

    def emit(self, a, b, new, kind, node):
        old = self.bsrc[a:b].decode()
        if old == new:
            return
        self.out.append({'file': self.path, 'line': node.lineno, 'func': '.'.join(self.func), 'kind': kind,
                         'a': a, 'b': b, 'old': old, 'new': new})

    def visit_FunctionDef(self, node):
        self.func.append(node.name)
        self.generic_visit(node)
        self.func.pop()

    visit_AsyncFunctionDef = visit_FunctionDef

    def visit_ClassDef(self, node):
        self.func.append(node.name)
        self.generic_visit(node)
        self.func.pop()

    def visit_Compare(self, node):
        if len(node.ops) == 1:
            op = node.ops[0]
            if type(op) in CMP:
                a = self.pos(node.left.end_lineno, node.left.end_col_offset)
                b = self.pos(node.comparators[0].lineno, node.comparators[0].col_offset)
                mid = self.bsrc[a:b].decode()
                srcop = CMP_SRC[type(op)]
                if re.fullmatch(r'\s*' + re.escape(srcop).replace(r'\ ', r'\s+') + r'\s*', mid):
                    self.emit(a, b, ' ' + CMP[type(op)] + ' ', 'cmp', node)
        self.generic_visit(node)

    def visit_BoolOp(self, node):
        # swap the first operator occurrence between value[0] and value[1]
        a = self.pos(node.values[0].end_lineno, node.values[0].end_col_offset)
        b = self.pos(node.values[1].lineno, node.values[1].col_offset)
        mid = self.bsrc[a:b].decode()
        cur = 'and' if isinstance(node.op, ast.And) else 'or'
        new = 'or' if cur == 'and' else 'and'
        if re.fullmatch(r'[\s\\)]*' + cur + r'[\s\\(]*', mid):
            self.emit(a, b, mid.replace(cur, new, 1), 'boolop', node)
        self.generic_visit(node)

    def visit_UnaryOp(self, node):
        if isinstance(node.op, ast.Not):
            a, b = self.span(node)
            oa, ob = self.span(node.operand)
            self.emit(a, b, '(' + self.bsrc[oa:ob].decode() + ')', 'not-removed', node)
        self.generic_visit(node)

    def visit_If(self, node):
        a, b = self.span(node.test)
        if not isinstance(node.test, ast.UnaryOp):
            self.emit(a, b, 'not (' + self.bsrc[a:b].decode() + ')', 'if-negated', node)
        self.generic_visit(node)

    def visit_While(self, node):
        self.generic_visit(node)

    def visit_Constant(self, node):
        if id(node) in self.in_doc:
            return
        v = node.value
        a, b = self.span(node)
        if isinstance(v, bool):
            self.emit(a, b, 'False' if v else 'True', 'bool', node)
        elif isinstance(v, int) and abs(v) <= 100:
            self.emit(a, b, str(v + 1), 'int+1', node)
            if v != 0:
                self.emit(a, b, str(v - 1), 'int-1', node)
        elif v is None:
            pass

    def visit_BinOp(self, node):
        a = self.pos(node.left.end_lineno, node.left.end_col_offset)
        b = self.pos(node.right.lineno, node.right.col_offset)
        mid = self.bsrc[a:b].decode()
        if isinstance(node.op, ast.Add) and re.fullmatch(r'\s*\+\s*', mid):
            # string concatenations are rarely meaningful under '-': only numeric-looking
            if isinstance(node.right, ast.Constant) and isinstance(node.right.value, int):
                self.emit(a, b, ' - ', 'binop', node)
        elif isinstance(node.op, ast.Sub) and re.fullmatch(r'\s*-\s*', mid):
            self.emit(a, b, ' + ', 'binop', node)
        self.generic_visit(node)

    def visit_Expr(self, node):
        if isinstance(node.value, ast.Constant) and isinstance(node.value.value, str):
            self.in_doc.add(id(node.value))
            return
        if isinstance(node.value, ast.Call):
            a, b = self.span(node)
            self.emit(a, b, 'pass', 'stmt-deleted', node)
        self.generic_visit(node)

    def visit_Assign(self, node):
        # x = expr  ->  drop "augmenting" statements such as self.x = y only when simple attribute store of a name/constant
        self.generic_visit(node)

    def visit_AugAssign(self, node):
        a, b = self.span(node)
        self.emit(a, b, 'pass', 'stmt-deleted', node)
        self.generic_visit(node)

    def visit_Continue(self, node):
        a, b = self.span(node)
        self.emit(a, b, 'pass', 'continue-removed', node)

    def visit_Break(self, node):
        a, b = self.span(node)
        self.emit(a, b, 'pass', 'break-removed', node)

    def visit_Subscript(self, node):
        self.generic_visit(node)

    def visit_IfExp(self, node):
        a, b = self.span(node.test)
        self.emit(a, b, 'not (' + self.bsrc[a:b].decode() + ')', 'ifexp-negated', node)
        self.generic_visit(node)


RX_EDITS = [
    (re.compile(r'\{(\d+),(\d+)\}'), lambda m: ['{%s,%d}' % (m.group(1), int(m.group(2)) - 1)] if int(m.group(2)) - 1 >= int(m.group(1)) else []),
    (re.compile(r'\{(\d+),(\d+)\}'), lambda m: ['{%d,%s}' % (int(m.group(1)) + 1, m.group(2))] if int(m.group(1)) + 1 <= int(m.group(2)) else []),
    (re.compile(r'(?<![\\(])\*(?!\?)'), lambda m: ['+']),
    (re.compile(r'(?<![\\(?*+])\+(?!\?)'), lambda m: ['*']),
    (re.compile(r'(?<![\\(*+{])\?(?![:=!<P])'), lambda m: ['']),
    (re.compile(r'\\b'), lambda m: ['']),
    (re.compile(r'\\s'), lambda m: [' ']),
    (re.compile(r'\|[A-Za-z0-9&.]+(?=[|)])'), lambda m: ['']),   # drop one alternative
]


def regex_mutants(path, src):
    """edits inside string literals of the regex library files"""
    out = []
    bsrc = src.encode()
    tree = ast.parse(src)
    offs = [0]
    for ln in src.split('\n'):
        offs.append(offs[-1] + len(ln.encode()) + 1)
    doc = set()
    for n in ast.walk(tree):
        if isinstance(n, ast.Expr) and isinstance(n.value, ast.Constant) and isinstance(n.value.value, str):
            doc.add(id(n.value))
    for n in ast.walk(tree):
        if isinstance(n, ast.Constant) and isinstance(n.value, str) and id(n) not in doc:
            a = offs[n.lineno - 1] + n.col_offset
            b = offs[n.end_lineno - 1] + n.end_col_offset
            lit = bsrc[a:b].decode()
            # do not touch comment parts of verbose patterns
            for rx, f in RX_EDITS:
                for m in rx.finditer(lit):
                    # skip matches after a '#' on the same line (verbose-mode comment)
                    ls = lit.rfind('\n', 0, m.start()) + 1
                    if '#' in lit[ls:m.start()]:
                        continue
                    for new in f(m):
                        s = len(lit[:m.start()].encode())
                        e = len(lit[:m.end()].encode())
                        line = n.lineno + lit[:m.start()].count('\n')
                        out.append({'file': path, 'line': line, 'func': '', 'kind': 'regex',
                                    'a': a + s, 'b': a + e, 'old': m.group(0), 'new': new})
    return out


def enumerate_mutants(files=None):
    res = []
    for rel in sorted(FILE_PROPS):
        if files and rel not in files:
            continue
        p = os.path.join(REPO, rel)
        if not os.path.exists(p):
            continue
        src = open(p, encoding='utf-8').read()
        m = Mutator(rel, src)
        m.visit(ast.parse(src))
        muts = m.out
        if '/rgxlib/' in rel:
            muts = muts + regex_mutants(rel, src)
        for x in muts:
            x['id'] = hashlib.sha1(('%s:%d:%d:%s' % (x['file'], x['a'], x['b'], x['new'])).encode()).hexdigest()[:10]
            res.append(x)
    return res


def apply_mutant(root, mu):
    p = os.path.join(root, mu['file'])
    b = open(p, 'rb').read()
    assert b[mu['a']:mu['b']].decode() == mu['old'], (mu, b[mu['a']:mu['b']])
    nb = b[:mu['a']] + mu['new'].encode() + b[mu['b']:]
    try:
        ast.parse(nb.decode())
    except SyntaxError:
        return False
    open(p, 'wb').write(nb)
    return True


def sh(cmd, **kw):
    return subprocess.run(cmd, shell=isinstance(cmd, str), capture_output=True, text=True, **kw)


def worker(idx, mutants, out_path, props_override):
    base = f'/tmp/' + os.environ.get('MUT_PREFIX', 'mut_w') + str(idx)
    shutil.rmtree(base, ignore_errors=True)
    os.makedirs(base)
    wt = os.path.join(base, 'repo')
    sh(['git', '-C', REPO, 'worktree', 'prune'])
    r = sh(['git', '-C', REPO, 'worktree', 'add', '--detach', '--force', wt, 'HEAD'])
    if r.returncode != 0:
        print(r.stderr, file=sys.stderr)
        return
    vf = os.path.join(base, 'verif')
    sh(['rsync', '-a', '--exclude', 'evidence', '--exclude', 'replays', '--exclude', 'seeded', VERIF + '/', vf + '/'])
    os.makedirs(os.path.join(vf, 'evidence'), exist_ok=True)
    env = dict(os.environ, PYTRS_REPO=wt, PYTHONPATH=wt, VERIF_TIME_LIMIT='420', PYTRS_VERIF='1')
    try:
        with open(out_path, 'a') as out:
            for mu in mutants:
                sh(['git', '-C', wt, 'checkout', '--', '.'])
                t0 = time.time()
                rec = {'id': mu['id'], 'file': mu['file'], 'line': mu['line'], 'func': mu['func'], 'kind': mu['kind'],
                       'old': mu['old'][:80], 'new': mu['new'][:80]}
                if not apply_mutant(wt, mu):
                    rec['status'] = 'syntax'
                    out.write(json.dumps(rec) + '\n'); out.flush()
                    continue
                # import sanity + pinned suite
                try:
                    p = sh(['/venv/bin/python', '-m', 'pytest', '-x', '-q', '-p', 'no:cacheprovider', '--timeout=120'], cwd=wt, env=env,
                           timeout=400)
                    suite_ok = p.returncode == 0
                except subprocess.TimeoutExpired:
                    suite_ok = False
                if not suite_ok:
                    rec['status'] = 'killed-by-suite'
                    out.write(json.dumps(rec) + '\n'); out.flush()
                    continue
                props = props_override or FILE_PROPS[mu['file']]
                res = {}
                caught = False
                for pid in props:
                    try:
                        p = sh([os.path.join(vf, 'check'), pid, '--tier', 'quick'], env=env, timeout=900)
                        rc = p.returncode
                        line = ''
                        for ln in p.stdout.splitlines():
                            if ln.startswith('VIOLATION'):
                                line = ln
                                break
                        res[pid] = {'rc': rc, 'line': line, 'err': p.stderr[-300:] if rc == 2 else ''}
                    except subprocess.TimeoutExpired:
                        res[pid] = {'rc': 'timeout'}
                        rc = 'timeout'
                    if rc == 1:
                        caught = True
                        break
                rec['status'] = 'caught' if caught else 'survived'
                rec['checks'] = res
                rec['wall'] = round(time.time() - t0)
                out.write(json.dumps(rec) + '\n'); out.flush()
    finally:
        sh(['git', '-C', REPO, 'worktree', 'remove', '--force', wt])
        shutil.rmtree(base, ignore_errors=True)


def main():
    ap = argparse.ArgumentParser()
    ap.add_argument('cmd', choices=['list', 'run', 'show'])
    ap.add_argument('mutants', nargs='?')
    ap.add_argument('--files', default='')
    ap.add_argument('--out', default='/tmp/mut_results.jsonl')
    ap.add_argument('--workers', type=int, default=4)
    ap.add_argument('--sample', type=int, default=0)
    ap.add_argument('--seed', type=int, default=0)
    ap.add_argument('--props', default='')
    ap.add_argument('--id', default='')
    a = ap.parse_args()
    files = [f for f in a.files.split(',') if f]
    if a.cmd == 'list':
        for m in enumerate_mutants(files):
            print(json.dumps(m))
        return
    muts = [json.loads(l) for l in open(a.mutants)]
    if a.cmd == 'show':
        for m in muts:
            if m['id'] == a.id:
                print(json.dumps(m, indent=1))
        return
    if a.id:
        # re-run selected mutants (after strengthening a check)
        want = set(a.id.split(','))
        muts = [m for m in muts if m['id'] in want]
        a.workers = min(a.workers, max(1, len(muts)))
    done = set()
    if os.path.exists(a.out) and not a.id:
        done = {json.loads(l)['id'] for l in open(a.out)}
    muts = [m for m in muts if m['id'] not in done]
    if files:
        muts = [m for m in muts if m['file'] in files]
    rnd = random.Random(a.seed)
    rnd.shuffle(muts)
    if a.sample:
        muts = muts[:a.sample]
    import multiprocessing as mp
    chunks = [muts[i::a.workers] for i in range(a.workers)]
    ps = [mp.Process(target=worker, args=(i, chunks[i], a.out, [p for p in a.props.split(',') if p])) for i in range(a.workers)]
    for p in ps:
        p.start()
    for p in ps:
        p.join()


if __name__ == '__main__':
    main()
