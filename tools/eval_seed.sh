#!/bin/bash
# tools/eval_seed.sh <dir with patch.diff + demo.py> <slot> <property-id>...
# Confirms a seeded change in a scratch worktree of /repo (suite passes with it, demo fails with it and passes without it)
# and runs the quick checks of the given properties against that worktree (PYTRS_REPO), using a scratch copy of /verif.
# Nothing is applied to /repo itself.  Development aid; not a registered check.
set -u
src="$(realpath "$1")"; slot="$2"; shift 2
base=/tmp/seed_eval_$slot
wt=$base/repo; vf=$base/verif
mkdir -p $base
if [ ! -d "$wt" ]; then git -C /repo worktree add --detach --force "$wt" HEAD >/dev/null 2>&1 || { echo "cannot create worktree"; exit 2; }; fi
git -C "$wt" checkout -q --detach "$(git -C /repo rev-parse HEAD)" 2>/dev/null
git -C "$wt" checkout -- . ; git -C "$wt" clean -fdq
rsync -a --delete --exclude evidence --exclude replays --exclude seeded /verif/ "$vf"/
mkdir -p "$vf/evidence"
export PYTHONPATH="$wt" PYTRS_REPO="$wt" PYTRS_VERIF=1
cd "$wt"
/venv/bin/python "$src/demo.py" >/dev/null 2>&1; d0=$?
git apply "$src/patch.diff" || { echo "patch does not apply"; exit 2; }
/venv/bin/python "$src/demo.py" >/dev/null 2>&1; d1=$?
suite=$(/venv/bin/python -m pytest -q -p no:cacheprovider -x 2>&1 | tail -1)
echo "demo without=$d0 with=$d1 ; suite: $suite"
for p in "$@"; do
  out=$(cd "$vf" && VERIF_SEED=${VERIF_SEED:-0} timeout 1500 ./check "$p" --tier quick 2>&1); rc=$?
  echo "[$p] exit=$rc $(echo "$out" | grep -m1 VIOLATION)"
  if [ $rc -eq 1 ]; then f=$(echo "$out" | grep -m1 VIOLATION | sed 's/.*replay=\([^ ]*\).*/\1/'); [ -f "$vf/$f" ] && head -c 700 "$vf/$f" | tr '\n' ' '; echo; fi
done
git -C "$wt" checkout -- . ; git -C "$wt" clean -fdq
