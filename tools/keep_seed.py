#!/usr/bin/env python3
"""tools/keep_seed.py <Cnn-x> <what> <detection>  — file a confirmed seeded change from /tmp/seed_out/<id> under seeded/<id>/"""
import json, os, shutil, sys
sid, what, detection = sys.argv[1], sys.argv[2], sys.argv[3]
src = f'/tmp/seed_out/{sid}'
dst = f'/verif/seeded/{sid}'
os.makedirs(dst, exist_ok=True)
shutil.copy(f'{src}/patch.diff', f'{dst}/patch.diff')
shutil.copy(f'{src}/demo.py', f'{dst}/demo.py')
notes = open(f'{src}/NOTES.md').read() if os.path.exists(f'{src}/NOTES.md') else ''
json.dump({'breaks_property': sid[:3],
           'source': 'independent sub-agent (fourth or fifth wave) given only the property text, a scratch worktree and one-line descriptions of the earlier seeded changes to avoid',
           'what': what, 'needs_to_manifest': notes[:3000],
           'confirmed': 'tools/eval_seed.sh: patch applied in a scratch worktree of /repo; pinned suite: 244 passed with the change; demo.py exits 1 with the change and 0 without; ./check <id> --tier quick run against the worktree (PYTRS_REPO)',
           'detection': detection}, open(f'{dst}/meta.json', 'w'), indent=1, ensure_ascii=False)
print('kept', dst)
