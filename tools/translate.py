#!/venv/bin/python
"""
translate.py -- regenerate the Lean description of what /repo's source says *now*.

Emits (into lean/PyTRS/Gen/):
  Patterns.lean  every compiled regex of pytrs.parser.rgxlib, TRS._TRS_UNPACKER_REGEX and
                 every inline `re.*` pattern used at a call site of the anchored modules, as
                 `Rx` terms built from CPython's own sre parse tree; character classes are
                 computed by asking the running `re` engine about every code point.
  Tables.lean    constants the glue consults + Python str tables (lower/upper/isspace/digits).
  fingerprints.json  hashes of the Python functions mirrored by hand in Model/.

Refuses (exit 3) any regex construct outside the modelled operator subset.
"""
import ast
import hashlib
import importlib
import inspect
import json
import os
import re
import sys

REPO = os.environ.get('PYTRS_REPO', '/repo')
sys.path.insert(0, REPO)
import pytrs  # noqa: E402

if not os.path.realpath(pytrs.__file__).startswith(os.path.realpath(REPO) + os.sep):
    print(f"translate: pytrs imported from {pytrs.__file__}, expected under {REPO}", file=sys.stderr)
    sys.exit(2)

import re._parser as sre_parse  # noqa: E402
import re._compiler as sre_compile  # noqa: E402
from re._constants import (  # noqa: E402
    LITERAL, NOT_LITERAL, IN, ANY, BRANCH, SUBPATTERN, MAX_REPEAT, MIN_REPEAT, ASSERT,
    ASSERT_NOT, AT, AT_BEGINNING, AT_END, AT_BOUNDARY, MAXREPEAT, CATEGORY, RANGE, NEGATE,
)

OUT = os.path.join(os.path.dirname(os.path.abspath(__file__)), '..', 'lean', 'PyTRS', 'Gen')
OUT = os.path.normpath(os.environ.get('PYTRS_GEN_OUT', OUT))

MAXCP = 0x110000
ALLCHARS = ''.join(chr(i) for i in range(MAXCP))


class Unsupported(Exception):
    pass


# ---------------------------------------------------------------- character sets

_cs_cache = {}      # key -> name
_cs_defs = []       # (name, ranges)
_cs_by_ranges = {}


def ranges_of(positions):
    out = []
    start = prev = None
    for p in positions:
        if start is None:
            start = prev = p
        elif p == prev + 1:
            prev = p
        else:
            out.append((start, prev))
            start = prev = p
    if start is not None:
        out.append((start, prev))
    return out


def charset_for_nodes(nodes, flags, key):
    """nodes: a list of single-width sre nodes forming ONE atom (len 1)."""
    k = (key, flags)
    if k in _cs_cache:
        return _cs_cache[k]
    state = sre_parse.State()
    state.flags = flags
    state.str = ''
    sp = sre_parse.SubPattern(state, nodes)
    pat = sre_compile.compile(sp, flags)
    pos = [m.start() for m in pat.finditer(ALLCHARS)]
    rg = tuple(ranges_of(pos))
    if rg in _cs_by_ranges:
        name = _cs_by_ranges[rg]
    else:
        # content-addressed name: an edit to one pattern must not rename the character sets of the others
        # (proof scripts mention some sets by name)
        name = "cs_" + hashlib.sha1(repr(rg).encode()).hexdigest()[:8]
        assert name not in {n for n, _ in _cs_defs}, 'charset name collision'
        _cs_defs.append((name, rg))
        _cs_by_ranges[rg] = name
    _cs_cache[k] = name
    return name


def word_set(flags):
    # \w as the engine sees it under these flags (str patterns: Unicode unless re.ASCII)
    state = sre_parse.State()
    state.flags = flags
    p = sre_parse.parse(r'\w', flags & ~re.VERBOSE)
    return charset_for_nodes(list(p), flags & ~re.VERBOSE, 'WORD')


# ---------------------------------------------------------------- Rx terms

def node_key(node):
    return repr(node)


def tr_seq(items, flags):
    parts = [tr_node(n, flags) for n in items]
    parts = [p for p in parts if p != '.eps']
    if not parts:
        return '.eps'
    if len(parts) == 1:
        return parts[0]
    return 'Rx.seqs [' + ', '.join(parts) + ']'


def single_atoms(items):
    """If `items` is a sequence consisting of exactly one single-width atom, return it."""
    items = list(items)
    if len(items) == 1 and items[0][0] in (LITERAL, NOT_LITERAL, IN, ANY):
        return [items[0]]
    return None


def behind_sets(p, flags):
    """A look-behind body -> list of charset names (union) or the token 'WORDB'."""
    items = list(p)
    if len(items) != 1:
        raise Unsupported(f"look-behind body of width != 1: {items!r}")
    op, av = items[0]
    if op == AT and av == AT_BOUNDARY:
        return 'WORDB'
    if op in (LITERAL, NOT_LITERAL, IN, ANY):
        return [charset_for_nodes([items[0]], flags, node_key(items[0]))]
    if op == BRANCH:
        out = []
        for alt in av[1]:
            r = behind_sets(alt, flags)
            if r == 'WORDB':
                raise Unsupported("\\b inside a look-behind alternation")
            out.extend(r)
        return out
    if op == SUBPATTERN and av[0] is None:
        return behind_sets(av[3], flags)
    raise Unsupported(f"look-behind body {items!r}")


def tr_node(node, flags):
    op, av = node
    if op in (LITERAL, NOT_LITERAL, IN, ANY):
        return f"(.chr {charset_for_nodes([node], flags, node_key(node))})"
    if op == BRANCH:
        alts = [tr_seq(a, flags) for a in av[1]]
        return 'Rx.alts [' + ', '.join(alts) + ']'
    if op == SUBPATTERN:
        group, add_flags, del_flags, p = av
        if add_flags or del_flags:
            raise Unsupported("inline flag group")
        body = tr_seq(p, flags)
        if group is None:
            return body
        return f"(.grp {group} {paren(body)})"
    if op == MAX_REPEAT:
        lo, hi, p = av
        body = tr_seq(p, flags)
        his = 'none' if hi == MAXREPEAT else f"(some {hi})"
        return f"(.rep {paren(body)} {lo} {his})"
    if op == MIN_REPEAT:
        raise Unsupported("lazy quantifier")
    if op == ASSERT:
        direction, p = av
        if direction == 1:
            return f"(.ahead {paren(tr_seq(p, flags))})"
        sets = behind_sets(p, flags)
        if sets == 'WORDB':
            return f"(.wordb {word_set(flags)})"
        if len(sets) == 1:
            return f"(.behind {sets[0]})"
        return f"(.behind ({' ++ '.join(sets)}))"
    if op == ASSERT_NOT:
        direction, p = av
        if direction == 1:
            return f"(.nahead {paren(tr_seq(p, flags))})"
        raise Unsupported("negative look-behind")
    if op == AT:
        if av == AT_BEGINNING:
            if flags & re.MULTILINE:
                raise Unsupported("^ with MULTILINE")
            return '.bos'
        if av == AT_END:
            if flags & re.MULTILINE:
                raise Unsupported("$ with MULTILINE")
            return '.eos'
        if av == AT_BOUNDARY:
            return f"(.wordb {word_set(flags)})"
        raise Unsupported(f"anchor {av}")
    raise Unsupported(f"operator {op}")


def paren(s):
    if s.startswith('(') or s.startswith('.') and ' ' not in s:
        return s
    return '(' + s + ')'


def translate_pattern(pattern, flags):
    flags = flags | re.UNICODE if isinstance(pattern, str) else flags
    p = sre_parse.parse(pattern, flags)
    eff = p.state.flags
    term = tr_seq(p, eff & ~re.VERBOSE)
    groups = dict(p.state.groupdict)
    ngroups = p.state.groups - 1
    lo, hi = p.getwidth()
    return term, groups, ngroups, lo, eff


# ---------------------------------------------------------------- pattern collection

ANCHORED_MODULES = [
    'pytrs.parser.plssdesc.plss_preprocess',
    'pytrs.parser.plssdesc.plss_parse',
    'pytrs.parser.plssdesc.plssdesc',
    'pytrs.parser.unpack.unpackers',
    'pytrs.parser.tract.tract_parse',
    'pytrs.parser.tract.tract_preprocess',
    'pytrs.parser.tract.aliquot_parse',
    'pytrs.parser.tract.tract',
    'pytrs.parser.trs.trs',
    'pytrs.parser.config.config',
    'pytrs.parser.containers.containers',
    'pytrs.tractwriter.tractwriter',
    'pytrs.utils',
]

RE_FUNCS = {'sub', 'subn', 'search', 'match', 'fullmatch', 'split', 'finditer', 'findall', 'compile'}


def collect_named():
    import pytrs.parser.rgxlib as rgxlib
    out = {}
    for name in sorted(vars(rgxlib)):
        v = getattr(rgxlib, name)
        if isinstance(v, re.Pattern):
            out[name] = (v.pattern, v.flags)
    from pytrs.parser.trs.trs import TRS
    out['trs_unpacker_regex'] = (TRS._TRS_UNPACKER_REGEX.pattern, TRS._TRS_UNPACKER_REGEX.flags)
    return out


def reference_text(fname):
    """The committed copy of a generated file (git HEAD of the directory this tool lives in); falls back to the file on disk."""
    root = os.path.normpath(os.path.join(os.path.dirname(os.path.abspath(__file__)), '..'))
    try:
        import subprocess
        p = subprocess.run(['git', '-C', root, 'show', f'HEAD:lean/PyTRS/Gen/{fname}'], capture_output=True, text=True)
        if p.returncode == 0 and p.stdout:
            return p.stdout
    except Exception:  # noqa
        pass
    try:
        with open(os.path.join(OUT, fname), encoding='utf-8') as f:
            return f.read()
    except Exception:  # noqa
        return ''


NOTES = []          # what could not be re-derived from the source (reported; the committed reference definition is kept)


def collect_inline():
    """Every `re.<func>(<pattern>, ...)` whose pattern resolves to a str, keyed by a stable name.

    Names are `inl_<module>_<function>_<k>`.  They are reconciled with the committed reference (patterns_meta.json) so that a
    refactoring which adds, removes or moves ONE inline pattern of a function does not silently re-bind the others: a pattern with
    unchanged text keeps its name wherever it now stands; if as many patterns are new as names are unaccounted for, the names go to
    them in order (an EDITED pattern is thereby re-checked by every theorem that mentions it); names that can no longer be
    derived from the source keep the committed definition and are reported (`fallback`)."""
    found = {}      # (short, qual) -> [(pat, flags) | None]
    for modname in ANCHORED_MODULES:
        mod = importlib.import_module(modname)
        src = inspect.getsource(mod)
        tree = ast.parse(src)
        short = modname.split('.')[-1]

        def visit(fn_node, qual):
            local_consts = {}
            for n in ast.walk(fn_node):
                if isinstance(n, ast.Assign) and len(n.targets) == 1 and isinstance(n.targets[0], ast.Name):
                    if isinstance(n.value, ast.Constant) and isinstance(n.value.value, str):
                        local_consts[n.targets[0].id] = n.value.value
            calls = [n for n in ast.walk(fn_node) if isinstance(n, ast.Call)]
            calls.sort(key=lambda n: (n.lineno, n.col_offset))
            for n in calls:
                f = n.func
                if not (isinstance(f, ast.Attribute) and isinstance(f.value, ast.Name)
                        and f.value.id == 're' and f.attr in RE_FUNCS and n.args):
                    continue
                a = n.args[0]
                pat = None
                if isinstance(a, ast.Constant) and isinstance(a.value, str):
                    pat = a.value
                elif isinstance(a, ast.JoinedStr):
                    try:
                        pat = eval(compile(ast.Expression(a), '<fstr>', 'eval'), dict(vars(mod)))
                    except Exception as e:  # noqa
                        NOTES.append(f"cannot resolve f-string pattern in {modname}:{n.lineno}: {e}")
                        found.setdefault((short, qual), []).append(None)
                        continue
                elif isinstance(a, ast.Name) and a.id in local_consts:
                    pat = local_consts[a.id]
                elif isinstance(a, ast.Name):
                    continue     # a compiled pattern object passed by name
                else:
                    NOTES.append(f"cannot resolve pattern at {modname}:{n.lineno}")
                    found.setdefault((short, qual), []).append(None)
                    continue
                flags = 0
                for kw in n.keywords:
                    if kw.arg == 'flags':
                        flags = eval(compile(ast.Expression(kw.value), '<flags>', 'eval'), {'re': re})
                found.setdefault((short, qual), []).append((pat, flags))

        seen_funcs = set()
        for node in ast.walk(tree):
            if isinstance(node, ast.ClassDef):
                for sub in node.body:
                    if isinstance(sub, (ast.FunctionDef,)):
                        visit(sub, f"{node.name}_{sub.name}")
                        seen_funcs.add(id(sub))
        for node in tree.body:
            if isinstance(node, ast.FunctionDef) and id(node) not in seen_funcs:
                visit(node, node.name)
    # reconcile with the committed reference
    try:
        ref_meta = json.loads(reference_text('patterns_meta.json') or '{}')
    except Exception:  # noqa
        ref_meta = {}
    ref_by_fn = {}
    for name, m in ref_meta.items():
        mm = re.fullmatch(r'(inl_.+)_(\d+)', name)
        if mm:
            ref_by_fn.setdefault(mm.group(1), []).append((int(mm.group(2)), name, (m['pattern'], m['flags'])))
    out = {}
    for (short, qual), items in found.items():
        prefix = f"inl_{short}_{qual}"
        refs = sorted(ref_by_fn.get(prefix, []))
        if len(refs) == len(items) or not refs:
            for idx, it in enumerate(items):
                if it is not None:
                    out[f"{prefix}_{idx}"] = it
            continue
        NOTES.append(f"{prefix}: {len(items)} inline patterns in the source, {len(refs)} in the committed reference: matched by text")
        free = [it for it in items if it is not None]
        unmatched = []
        for _i, name, content in refs:
            if content in free:
                free.remove(content)
                out[name] = content
            else:
                unmatched.append(name)
        if len(unmatched) == len(free):
            for name, it in zip(unmatched, free):
                out[name] = it
        else:
            for k, it in enumerate(free):
                out[f"{prefix}_new{k}"] = it
    return out


# ---------------------------------------------------------------- emit

def lean_str(s):
    out = ['"']
    for ch in s:
        o = ord(ch)
        if ch == '"':
            out.append('\\"')
        elif ch == '\\':
            out.append('\\\\')
        elif ch == '\n':
            out.append('\\n')
        elif ch == '\t':
            out.append('\\t')
        elif ch == '\r':
            out.append('\\r')
        elif o < 32 or o == 127 or 0xD800 <= o <= 0xDFFF:
            out.append('\\u{%x}' % o) if not (0xD800 <= o <= 0xDFFF) else out.append('?')
        else:
            out.append(ch)
    out.append('"')
    return ''.join(out)


def chunked_list(name, typ, elems, per=60):
    """Emit a long list literal in chunks to stay clear of maxRecDepth."""
    lines = []
    chunks = [elems[i:i + per] for i in range(0, len(elems), per)] or [[]]
    names = []
    for i, ch in enumerate(chunks):
        n = f"{name}_c{i}"
        names.append(n)
        lines.append(f"def {n} : {typ} := [" + ', '.join(ch) + "]")
    lines.append(f"def {name} : {typ} := " + ' ++ '.join(names))
    return '\n'.join(lines)


def emit_patterns(named, inline):
    all_pats = {}
    all_pats.update(named)
    all_pats.update(inline)
    body = []
    registry = []
    meta = {}
    for name, (pat, flags) in all_pats.items():
        term, groups, ngroups, lo, eff = translate_pattern(pat, flags)
        body.append(f"def {name} : Rx := {term}")
        g = ', '.join(f"({lean_str(k)}, {v})" for k, v in sorted(groups.items(), key=lambda kv: kv[1]))
        body.append(f"def {name}_groups : List (String × Nat) := [{g}]")
        body.append(f"def {name}_ngroups : Nat := {ngroups}")
        registry.append(f"({lean_str(name)}, {name}, {name}_groups, {name}_ngroups)")
        meta[name] = {'pattern': pat, 'flags': int(flags), 'groups': groups, 'ngroups': ngroups, 'min_width': int(lo)}
    head = [
        "-- GENERATED by tools/translate.py from /repo's working tree. Do not edit.",
        "import PyTRS.Rx",
        "set_option maxRecDepth 100000",
        "namespace PyTRS.Gen",
        "open PyTRS",
    ]
    cs = []
    for name, rg in _cs_defs:
        elems = [f"({a},{b})" for a, b in rg]
        if len(elems) > 60:
            cs.append(chunked_list(name, 'CharSet', elems))
        else:
            cs.append(f"def {name} : CharSet := [" + ', '.join(elems) + "]")
    tail = [
        chunked_list('patterns', 'List (String × Rx × List (String × Nat) × Nat)', registry, per=20),
        "end PyTRS.Gen",
    ]
    return '\n'.join(head + cs + body + tail) + '\n', meta


def py_tables():
    lower = []
    upper = []
    space = []
    digit_starts = []
    for cp in range(MAXCP):
        if 0xD800 <= cp <= 0xDFFF:
            continue
        ch = chr(cp)
        lo = ch.lower()
        if lo != ch:
            lower.append((cp, [ord(x) for x in lo]))
        up = ch.upper()
        if up != ch:
            upper.append((cp, [ord(x) for x in up]))
        if ch.isspace():
            space.append(cp)
    import unicodedata
    cp = 0
    while cp < MAXCP:
        if unicodedata.category(chr(cp)) == 'Nd' and unicodedata.decimal(chr(cp), None) == 0:
            digit_starts.append(cp)
            cp += 10
        else:
            cp += 1
    return lower, upper, ranges_of(space), digit_starts


def emit_tables():
    from pytrs.parser.config.master_config import MasterConfig as MC
    from pytrs.parser.config.config import Config
    from pytrs.parser.config.layouts import _IMPLEMENTED_LAYOUTS
    from pytrs.parser.tract import aliquot_parse as ap
    from pytrs.parser.tract.tract import Tract
    from pytrs.parser.tract.tract_parse import TractParser
    from pytrs.parser.tract import tract_preprocess as tpp
    from pytrs.parser.plssdesc import plss_preprocess as ppp
    from pytrs.parser.plssdesc import plss_parse as pp
    import pytrs.parser.rgxlib as rgxlib

    name_of = {id(v): k for k, v in vars(rgxlib).items() if isinstance(v, re.Pattern)}
    L = []
    L.append("-- GENERATED by tools/translate.py from /repo's working tree. Do not edit.")
    L.append("set_option maxRecDepth 100000")
    L.append("namespace PyTRS.Gen")

    def S(name, val):
        L.append(f"def {name} : String := {lean_str(val)}")

    def SL(name, vals):
        L.append(f"def {name} : List String := [" + ', '.join(lean_str(v) for v in vals) + "]")

    S('ERR_SEC', MC._ERR_SEC); S('ERR_TWP', MC._ERR_TWP); S('ERR_RGE', MC._ERR_RGE)
    S('ERR_TWPRGE', MC._ERR_TWPRGE); S('ERR_TRS', MC._ERR_TRS)
    S('UNDEF_SEC', MC._UNDEF_SEC); S('UNDEF_TWP', MC._UNDEF_TWP); S('UNDEF_RGE', MC._UNDEF_RGE)
    S('UNDEF_TWPRGE', MC._UNDEF_TWPRGE); S('UNDEF_TRS', MC._UNDEF_TRS)
    SL('LEGAL_NS', MC._LEGAL_NS); SL('LEGAL_EW', MC._LEGAL_EW)
    S('MC_DEFAULT_NS_AT_IMPORT', MC.default_ns); S('MC_DEFAULT_EW_AT_IMPORT', MC.default_ew)
    SL('IMPLEMENTED_LAYOUTS', _IMPLEMENTED_LAYOUTS)
    SL('CONFIG_ATTRIBUTES', Config._CONFIG_ATTRIBUTES)
    SL('BOOL_TYPE_ATTRIBUTES', Config._BOOL_TYPE_ATTRIBUTES)
    SL('INT_TYPE_ATTRIBUTES', Config._INT_TYPE_ATTRIBUTES)
    SL('PLSSDESC_ATTRIBUTES', Config._PLSSDESC_ATTRIBUTES)
    SL('TRACT_ATTRIBUTES', Config._TRACT_ATTRIBUTES)
    SL('QQ_HALVES', ap.QQ_HALVES); SL('QQ_QUARTERS', ap.QQ_QUARTERS)
    SL('QQ_NS', ap.QQ_NS); SL('QQ_EW', ap.QQ_EW)
    L.append("def QQ_SUBDIVIDE_DEFINITIONS : List (String × List String) := ["
             + ', '.join(f"({lean_str(k)}, [" + ', '.join(lean_str(x) for x in v) + "])"
                         for k, v in ap.QQ_SUBDIVIDE_DEFINITIONS.items()) + "]")
    L.append("def QQ_SAME_AXIS : List (String × List String) := ["
             + ', '.join(f"({lean_str(k)}, [" + ', '.join(lean_str(x) for x in v) + "])"
                         for k, v in ap.QQ_SAME_AXIS.items()) + "]")
    SL('TRACT_ATTRIBUTE_NAMES', list(Tract.ATTRIBUTES.keys()))
    L.append("def TRACT_ATTRIBUTE_HEADERS : List (String × String) := ["
             + ', '.join(f"({lean_str(k)}, {lean_str(v)})" for k, v in Tract.ATTRIBUTES.items()) + "]")
    SL('TRACTPARSER_UNPACKABLES', TractParser.UNPACKABLES)
    SL('PLSSPARSER_UNPACKABLES', pp.PLSSParser.UNPACKABLES)
    L.append(f"def MIN_REPORTABLE_UNUSED_LEN : Nat := {pp.PLSSParser.MIN_REPORTABLE_UNUSED_LEN}")
    SL('PLSS_SCRUBBER_REGEXES', [name_of[id(r)] for r in ppp.SCRUBBER_REGEXES])
    S('PLSS_OCR_SCRUBBER', name_of[id(ppp.OCR_SCRUBBER)])
    SL('QQ_SCRUBBER_REGEXES', [name_of[id(r)] for r in tpp.SCRUBBER_REGEXES])
    SL('QQ_CLEAN_REGEXES', [name_of[id(r)] for r in tpp.CLEAN_QQ_REGEXES])
    L.append("def QQ_SCRUBBER_DEFINITIONS : List (String × String) := ["
             + ', '.join(f"({lean_str(name_of[id(k)])}, {lean_str(v)})" for k, v in tpp.QQ_SCRUBBER_DEFINITIONS.items()) + "]")

    # literals that live inside function bodies: pulled out with ast so that an edit is seen
    def fn_consts(mod, qual):
        src = inspect.getsource(mod)
        tree = ast.parse(src)
        target = None
        parts = qual.split('.')
        scope = tree.body
        for p in parts:
            for n in scope:
                if isinstance(n, (ast.FunctionDef, ast.ClassDef)) and n.name == p:
                    target = n
                    scope = n.body
                    break
            else:
                raise Unsupported(f"{qual} not found")
        return target

    def assigned_literal(fn, var):
        for n in ast.walk(fn):
            if isinstance(n, ast.Assign) and len(n.targets) == 1 and isinstance(n.targets[0], ast.Name) \
                    and n.targets[0].id == var:
                try:
                    return ast.literal_eval(n.value)
                except Exception:
                    continue
        raise Unsupported(f"literal {var} not found")

    # Each of these literals lives inside a function body; a refactoring may move or reshape it.  When it can no longer be
    # found the committed reference definition is kept (see with_fallback) and the fact is reported.
    def optional(what, f):
        try:
            f()
        except Exception as e:  # noqa
            NOTES.append(f"{what}: {e}")

    def t_cleanup():
        cd = fn_consts(pp, 'cleanup_desc')
        SL('CLEANUP_CULL_LIST', list(assigned_literal(cd, 'cull_list')))
        strip_calls = []
        for n in ast.walk(cd):
            if isinstance(n, ast.Call) and isinstance(n.func, ast.Attribute) and n.func.attr in ('lstrip', 'strip', 'rstrip'):
                if n.args and isinstance(n.args[0], ast.Constant):
                    # EVALUATION order, not walk order: in `t.lstrip('.').strip(',; ')` the inner call ends first
                    strip_calls.append(((n.end_lineno, n.end_col_offset), n.func.attr, n.args[0].value))
        strip_args = [(a, b) for _pos, a, b in sorted(strip_calls)]
        L.append("def CLEANUP_STRIPS : List (String × String) := ["
                 + ', '.join(f"({lean_str(a)}, {lean_str(b)})" for a, b in strip_args) + "]")
    optional('cleanup_desc literals', t_cleanup)

    def t_illegal():
        sf = fn_consts(pp, 'SecFinder.findall_matching_sec')
        SL('SECFINDER_ILLEGAL', list(assigned_literal(sf, 'illegal')))
    optional('SecFinder illegal words', t_illegal)

    def t_genflags():
        # gen_flags_chunk table: a dict literal Name -> (flag, (l, r)), or a tuple/list of rows (Name, flag, l, r) / (Name, flag, (l, r))
        gf = fn_consts(pp, 'ChunkParser.gen_flags_chunk')
        rows = []
        for n in ast.walk(gf):
            if isinstance(n, ast.Dict) and n.keys and all(isinstance(k, ast.Name) for k in n.keys):
                for k, v in zip(n.keys, n.values):
                    flag, (lc, rc) = ast.literal_eval(v)
                    rows.append((k.id, flag, lc, rc))
                break
        if not rows:
            for n in ast.walk(gf):
                if isinstance(n, (ast.Tuple, ast.List)) and n.elts and all(
                        isinstance(e, (ast.Tuple, ast.List)) and e.elts and isinstance(e.elts[0], ast.Name) for e in n.elts):
                    for e in n.elts:
                        rest = [ast.literal_eval(x) for x in e.elts[1:]]
                        if len(rest) == 3:
                            flag, lc, rc = rest
                        else:
                            flag, (lc, rc) = rest
                        rows.append((e.elts[0].id, flag, lc, rc))
                    break
        if not rows:
            raise Unsupported("gen_flags_chunk table not found")
        L.append("def GEN_FLAGS_TABLE : List (String × String × Nat × Nat) := ["
                 + ', '.join(f"({lean_str(a)}, {lean_str(b)}, {c}, {d})" for a, b, c, d in rows) + "]")
    optional('gen_flags_chunk table', t_genflags)

    def t_ocr():
        from pytrs.parser.unpack import unpackers as up
        ocr = fn_consts(up, 'ocr_scrub_alpha_to_num')
        reps = []
        for n in ast.walk(ocr):
            if isinstance(n, ast.Call) and isinstance(n.func, ast.Attribute) and n.func.attr == 'replace':
                reps.append((n.args[0].value, n.args[1].value))
        if not reps:
            raise Unsupported("ocr replacement list not found")
        L.append("def OCR_REPLACEMENTS : List (String × String) := ["
                 + ', '.join(f"({lean_str(a)}, {lean_str(b)})" for a, b in reps) + "]")
    optional('ocr_scrub_alpha_to_num replacements', t_ocr)

    lower, upper, space, digit_starts = py_tables()
    L.append(chunked_list('PY_LOWER', 'List (Nat × List Nat)',
                          [f"({c}, [{', '.join(map(str, v))}])" for c, v in lower], per=100))
    L.append(chunked_list('PY_UPPER', 'List (Nat × List Nat)',
                          [f"({c}, [{', '.join(map(str, v))}])" for c, v in upper], per=100))
    L.append("def PY_SPACE : List (Nat × Nat) := [" + ', '.join(f"({a},{b})" for a, b in space) + "]")
    L.append(chunked_list('PY_DIGIT_ZEROS', 'List Nat', [str(x) for x in digit_starts], per=100))
    L.append("end PyTRS.Gen")
    return '\n'.join(L) + '\n'


MIRRORED = {
    'pytrs.parser.plssdesc.plss_parse': None,
    'pytrs.parser.plssdesc.plss_preprocess': None,
    'pytrs.parser.plssdesc.plssdesc': None,
    'pytrs.parser.unpack.unpackers': None,
    'pytrs.parser.tract.aliquot_parse': None,
    'pytrs.parser.tract.tract_parse': None,
    'pytrs.parser.tract.tract_preprocess': None,
    'pytrs.parser.tract.tract': None,
    'pytrs.parser.trs.trs': None,
    'pytrs.parser.config.config': None,
    'pytrs.parser.containers.containers': None,
    'pytrs.tractwriter.tractwriter': None,
    'pytrs.utils': None,
}


def fingerprints():
    out = {}

    def strip_doc(node):
        body = node.body
        if body and isinstance(body[0], ast.Expr) and isinstance(getattr(body[0], 'value', None), ast.Constant) \
                and isinstance(body[0].value.value, str):
            node.body = body[1:] or [ast.Pass()]

    def rec(modname, node, qual):
        for sub in getattr(node, 'body', []):
            if isinstance(sub, (ast.FunctionDef, ast.ClassDef)):
                strip_doc(sub)
                q = f"{qual}.{sub.name}" if qual else sub.name
                if isinstance(sub, ast.FunctionDef):
                    out[f"{modname}:{q}"] = hashlib.sha256(ast.dump(sub).encode()).hexdigest()[:16]
                rec(modname, sub, q)

    for modname in MIRRORED:
        mod = importlib.import_module(modname)
        tree = ast.parse(inspect.getsource(mod))
        rec(modname, tree, '')
    return out


def write_if_changed(path, content):
    old = None
    if os.path.exists(path):
        with open(path, encoding='utf-8') as f:
            old = f.read()
    if old != content:
        with open(path, 'w', encoding='utf-8') as f:
            f.write(content)
        return True
    return False


def with_fallback(new_text, fname):
    """Definitions present in the committed reference but absent from what was just derived from the source are carried over from
    the reference (they are one `def` per line), together with the character sets they mention; returns (text, [names])."""
    ref = reference_text(fname)
    if not ref:
        return new_text, []

    def defs(text):
        d = {}
        for line in text.split('\n'):
            m = re.match(r'def (\S+) ', line)
            if m:
                d[m.group(1)] = line
        return d
    nd, rd = defs(new_text), defs(ref)
    missing = [n for n in rd if n not in nd and not re.fullmatch(r'patterns(_c\d+)?', n)
               and not re.fullmatch(r'cs_[0-9a-f]{8}(_c\d+)?', n)]
    if not missing:
        return new_text, []
    carried = [rd[n] for n in missing]
    # character sets (and their chunks) the carried definitions mention and the new text does not define
    need, todo = [], list(carried)
    while todo:
        line = todo.pop()
        for cs in re.findall(r'\bcs_[0-9a-f]{8}(?:_c\d+)?\b', line.split(':=', 1)[1] if ':=' in line else line):
            if cs not in nd and cs in rd and rd[cs] not in need:
                need.append(rd[cs])
                todo.append(rd[cs])
    lines = new_text.split('\n')
    # character sets go right after the header (before the first def), the rest just before the registry / the end
    first_def = next(i for i, l in enumerate(lines) if l.startswith('def '))
    lines[first_def:first_def] = list(reversed(need))
    anchor = next((i for i, l in enumerate(lines) if l.startswith('def patterns_c0 ')), None)
    if anchor is None:
        anchor = next(i for i, l in enumerate(lines) if l.startswith('end PyTRS.Gen'))
    lines[anchor:anchor] = carried
    if fname == 'Patterns.lean':
        # the registry `Gen.patterns` lists every pattern, the carried-over ones included
        lines = [l for l in lines if not re.match(r'def patterns(_c\d+)? ', l)]
        names = [m.group(1) for l in lines for m in [re.match(r'def (\S+) : Rx :=', l)] if m]
        reg = [f"({lean_str(n)}, {n}, {n}_groups, {n}_ngroups)" for n in names]
        end = next(i for i, l in enumerate(lines) if l.startswith('end PyTRS.Gen'))
        lines[end:end] = chunked_list('patterns', 'List (String × Rx × List (String × Nat) × Nat)', reg, per=20).split('\n')
    return '\n'.join(lines), missing


def main():
    os.makedirs(OUT, exist_ok=True)
    try:
        named = collect_named()
        inline = collect_inline()
        pats, meta = emit_patterns(named, inline)
        tables = emit_tables()
    except Unsupported as e:
        print(f"translate: UNSUPPORTED: {e}", file=sys.stderr)
        sys.exit(3)
    pats, fb1 = with_fallback(pats, 'Patterns.lean')
    tables, fb2 = with_fallback(tables, 'Tables.lean')
    fallback = sorted(set(n for n in fb1 + fb2 if not n.endswith('_groups') and not n.endswith('_ngroups')))
    if fb1:
        # keep the reference's meta for carried-over patterns
        try:
            ref_meta = json.loads(reference_text('patterns_meta.json') or '{}')
            for n in fb1:
                if n in ref_meta and n not in meta:
                    meta[n] = ref_meta[n]
        except Exception:  # noqa
            pass
    changed = []
    if write_if_changed(os.path.join(OUT, 'Patterns.lean'), pats):
        changed.append('Patterns.lean')
    if write_if_changed(os.path.join(OUT, 'Tables.lean'), tables):
        changed.append('Tables.lean')
    write_if_changed(os.path.join(OUT, 'patterns_meta.json'), json.dumps(meta, indent=1, sort_keys=True, ensure_ascii=False) + '\n')
    write_if_changed(os.path.join(OUT, 'fingerprints.json'), json.dumps(fingerprints(), indent=1, sort_keys=True) + '\n')
    write_if_changed(os.path.join(OUT, 'fallback.json'), json.dumps({'fallback': fallback, 'notes': NOTES}, indent=1, ensure_ascii=False) + '\n')
    print(json.dumps({'changed': changed, 'patterns': len(meta), 'charsets': len(_cs_defs), 'fallback': fallback, 'notes': NOTES[:10]}))


if __name__ == '__main__':
    main()
